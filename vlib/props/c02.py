"""C02 — mesh construction normalises raw data, whatever its form.

Three independent pieces (see DESIGN.md §5/C02):
  * impl_observe  : builds the scenario with the REAL code (raw containers of lists / tuples / numpy rows, or
                    from_arrays), once / twice / re-prepared / re-wrapped, and prints every container canonically;
  * model_request : the same scenario for the Lean model Mouette/Model/Prepare.lean (compared string-exactly);
  * oracle        : the property stated directly on the finished object in plain Python sets / multisets
                    (does not mirror the code's order of operations and does not use the model).
"""
import ast, os
from collections import Counter
from fractions import Fraction

from ..gen import mesh as G
from ..gen import rawmesh as R
from .. import translate as T

PID = "C02"
TITLE = "Mesh construction normalises raw data, whatever its form"
LEAN_MODULES = ["Mouette.Props.C02", "Mouette.Props.C02Source"]
REQUIRED_THEOREMS = [
    # translated tables
    "tet_tables_agree", "hex_tables_agree", "generated_tables_eq_model", "tet_face_i_omits_vertex_i",
    "tet_faces_consistently_oriented", "hex_faces_cover_each_edge_twice",
    # P0
    "vertices_3d", "edges_normalised", "edges_complete_once", "edge_key_is_unordered_pair", "declared_edges_first",
    "edge_attr_follow", "edge_attr_no_stale_keys", "faces_from_cells", "face_key_is_vertex_multiset", "faces_declared_prefix",
    "faces_per_cell", "owners_spec", "corner_records", "cell_face_records", "class_by_dim", "hard_edges_only_declared",
    "prepare_never_fails", "prepare_cf_on_never_fails", "prepare_cf_off_witness", "cell_face_records_meaning",
    "cell_face_records_complete",
    # P1
    "prepare_idempotent", "prepare_rewrap_prepare", "rewrap_same_class",
    # round 2: translated control skeleton (Generated/C02Structure.lean) and its bridges
    "prepare_program_bridge", "prepare_follows_source_structure", "prepare_program_order", "is_valid_bridge",
    "hard_edges_guard_bridge", "corner_append_bridge", "corner_generation_uses_append_order", "dimensionality_bridge",
    "instantiate_follows_source_structure", "class_table_bridge", "mesh_init_bridge", "rewrap_follows_mesh_init",
    # round 3: histories on one object, regeneration criteria
    "face_corner_guard_bridge", "cell_corner_guard_bridge", "cell_faces_always_rebuilt_bridge",
    "stale_corner_records_are_rebuilt", "corner_records_after_append", "second_mesh_on_same_data",
    # round 3b: invalid edges produced by the completion
    "completion_skip_bridge", "completion_appends_only_valid_edges",
    # round 2: row container types
    "prepare_commutes_with_forgetting_row_type", "prepare_depends_on_row_values_only", "prepared_rows_are_lists_or_tuples",
    # round 4: function BODIES translated statement by statement (Generated/C02Bodies.lean) and their bridges (Props/C02Source.lean)
    "corner_append_source", "complete_faces_bridge", "complete_edges_bridge", "prepare_vertices_bridge",
    "prepare_vertices_coordinates", "vertices_are_float_source", "vertices_3d_source", "gen_face_corners_bridge",
    "gen_cell_corners_bridge", "gen_cell_faces_refines", "step_runs_translated_body", "prepare_runs_translated_bodies",
    "edges_normalised_source",
    # round 5: DataContainer.append, _prepare_faces/_prepare_cells, RawMeshData.__init__, _prepare_edges translated and bridged
    "data_append_source", "prepare_faces_bridge", "prepare_cells_bridge", "prepare_faces_source_no_numpy", "init_rewrap_bridge",
    "prepare_edges_refines", "file_route_source", "file_route_never_fails",
    # round 6: from_arrays, load, the dimensionality property, the one-line container accessors and id_* properties
    "accessors_source", "from_arrays_bridge", "from_arrays_vertices_3d", "load_bridge", "load_file_route", "dimensionality_cache_source",
    # round 7: the remaining container methods on the construction path
    "container_methods_source", "create_attribute_source", "create_flag_source",
]
TRUSTED = [
    "Lean 4.33.0 kernel; axioms ⊆ {propext, Classical.choice, Quot.sound}",
    "hand-written model Mouette/Model/Prepare.lean of RawMeshData.prepare / _instanciate_raw_mesh_data / from_arrays / "
    "RawMeshData(mesh), tied to mouette/mesh/mesh_data.py, mesh.py, datatypes/base.py by the container correspondence of this run",
    "translator: cell-face tables of _complete_faces_from_cells, _generate_cell_faces (mesh_data.py) and "
    "_compute_adjacent_cell (volume.py) are read with Python ast (name -> position in the tuple unpacking of the cell)",
    "translator (vlib/props/c02_structure.py): the control skeleton of prepare(), _prepare_edges.is_valid, the hard_edges block, "
    "the corner appends, _compute_dimensionality, _instanciate_raw_mesh_data and Mesh.__init__ is read with Python ast into the "
    "vocabulary of Lemmas/C02Steps.lean, whose interpreters (runProgram, completeEdgesWith, cornerLists, dimBy, runInst, visible) "
    "are hand-written",
    "translator (vlib/gen/c02_translate.py): the BODIES of _complete_faces_from_cells, _complete_edges_from_faces, _prepare_vertices, "
    "_generate_face_corners, _generate_cell_corners, _generate_cell_faces, _prepare_edges, _prepare_faces, _prepare_cells, __init__ "
    "(mesh_data.py) and CornerDataContainer.append, DataContainer.append "
    "(data_container.py) are compiled statement by statement into state-passing Lean definitions (Generated/C02Bodies.lean); trusted: "
    "that the Lean text denotes the Python statements, with the primitives of Model/PrepareSource.lean as the meaning of "
    "DataContainer.append, set/dict operations, keyify, numpy dtype kinds; reading a local that is only bound under `if/elif` "
    "(faces_C of _generate_cell_faces) is totalised, the bridge carries the tetrahedron/hexahedron hypothesis; attribute handles "
    "(get_attribute / create_attribute results kept in dicts) are read as (container, name), the _prepare_edges bridge carries the "
    "hypothesis that attribute names are unique (they are dict keys)",
    "translator, round 6: from_arrays (numpy arrays = lists of rows with their column counts w / ew as parameters, np.pad, np.any(.. >= n), "
    "`+=` = concatenation, `raise` = Except.error), load (read_by_extension's result is a parameter), the dimensionality property "
    "(its cache is a parameter) and the one-line accessors (__len__, empty, has_attribute, attributes, id_*) emitted as abbreviations",
    "translator, round 7: DataContainer.__getitem__ / __setitem__ / __iter__ / __iadd__, the three container constructors, get_attribute and "
    "create_attribute are read too and called by the compiled bodies; what stays vocabulary: `self._attr[name] = a` (attrDictSet), "
    "`a._expand(k)` (expandAttr) and reads through an attribute handle (findAttr) - the first two are cross-checked against C05's "
    "independent heap-level translation of the same file in Props/C02C05.lean (append_agrees, has_attribute_agrees; not part of this check)",
    "row-typed model prepareR (Lemmas/C02Rows.lean) tied to the code by the K section of the correspondence: type(row) of every "
    "stored edge/face/cell row for list, tuple and numpy input rows",
    "Python set/dict of key tuples abstracted to lists with membership; numpy int rows abstracted to integer lists "
    "(the row-type independence itself is checked by running every scenario per container type and a query battery)",
    "edge attribute values are ints (one per element); Vec/ndarray vertex rows abstracted to rational lists",
]
ASSUMPTIONS = [
    "agreement model/implementation is established on the scenarios explored in this run only",
    "faces index existing vertices; cells are tetrahedra (4) or hexahedra (8) (the quantifier of the statement)",
    "file readers are C04's object; here 'a file' is an .obj (polygon soups, polylines) or medit .mesh (tetrahedra) text written by "
    "the harness and read back by mouette.mesh.load(raw=True); what the reader hands over goes through the same prepare()",
]
RULE = ("raw scenarios (points, polylines, manifold polygon surfaces, tet meshes, hex grids, mixed tet+hex, tiny random "
        "polygon soups) + declared edges (valid/reversed/duplicate/self-loop/out-of-range/negative) + sparse/dense int edge "
        "attributes with/without custom default + cell faces declared up front; x {list,tuple,numpy rows, from_arrays, "
        ".obj/.mesh file written by the harness and read by mouette.mesh.load} x "
        "completion switches x {once, constructor twice, prepare again, RawMeshData(mesh) re-wrap (same class / "
        "instanciate)} x {instanciate with dim None/0..3, direct class}; every raw scenario is built from list, tuple AND numpy "
        "rows and all three must match the one model reply, incl. the container type of every stored row; numeric "
        "representation varied per scenario (python ints / numpy scalars / int32,int64,uint8,uint32,uint64 rows; float64, float32, "
        "integer vertices; C/Fortran-ordered and read-only arrays; shared row objects) against the same exact-valued model "
        "request; histories on one object: the same raw data wrapped by a second mesh class, elements appended to the built "
        "mesh then built again from it (other switches), save -> load through .obj/.mesh; raw edge containers filled in two steps (`+=` after "
        "the attributes were created); the mesh built first is re-read by "
        "value after every second construction; every container, attribute, corner record and the "
        "class are compared with the Lean model; non-trivial = distinct scenario whose construction succeeds and holds at "
        "least one face, cell or declared edge")

CLASSES = ["PointCloud", "PolyLine", "SurfaceMesh", "VolumeMesh"]


# ------------------------------------------------------------------------------------------------------------
# cases
# ------------------------------------------------------------------------------------------------------------
def _uniform(rows):
    return len({len(r) for r in rows}) <= 1


IDX_REPS = ["py", "py", "py", "py", "npscalar", "int32", "int64", "uint8", "uint32", "uint64"]


def _rep(case, name, default):
    return (case.get("rep") or {}).get(name, default)


def _finish(rng, sc):
    c = dict(sc)
    c["ce"] = rng.random() < .8
    c["cf"] = rng.random() < .85
    ct = rng.choice(["list", "tuple", "numpy", "numpy"])
    via = "raw"
    if ct == "numpy" and _uniform(c["F"]) and _uniform(c["C"]) and rng.random() < .5:
        via = "arrays"
    if via == "raw" and ct == "list" and _file_format(c) and c["V"] and rng.random() < .5 \
            and not (c["vdim"] == 2 and _file_format(c) == "mesh"):
        via = "file"
    c["ctype"], c["via"] = ct, via
    c["build"] = rng.choice(["once", "once", "once", "twice", "reprep", "rewrap", "rewrap", "rewrapinst",
                             "two", "append", "append", "saveload"])
    r = rng.random()
    if r < .55: c["how"] = "inst:N"
    elif r < .75: c["how"] = "inst:%d" % rng.randint(0, 3)
    else:
        top = 3 if c["C"] else 2 if c["F"] else 1 if c["E"] else 0
        c["how"] = "direct:%d" % rng.choice([top, top, top, rng.randint(0, 3)])
    # ---- histories on one object
    if c["build"] == "two":
        c["build"] = "two:%d" % rng.randint(0, 3)             # the same RawMeshData wrapped by a second mesh class
    elif c["build"] == "append":
        n = len(c["V"])
        nv = [[float(rng.randint(-3, 3)), float(rng.randint(-3, 3)), float(rng.randint(-3, 3))][:c["vdim"]]] if rng.random() < .7 else []
        m = n + len(nv)
        app = {"V": nv, "E": [], "F": [], "C": []}
        if m >= 2:
            for _ in range(rng.choice([0, 1, 1, 2])):
                a, b = rng.sample(range(m), 2); app["E"].append([a, b])
            if rng.random() < .2: app["E"].append([m - 1, m - 1])
            if rng.random() < .15: app["E"].append([0, m + 1])
        if m >= 3 and rng.random() < .7:
            f = rng.sample(range(m), 3)
            if nv: f[0] = m - 1
            if len(set(f)) == 3: app["F"].append(f)
        if m >= 4 and rng.random() < .6:
            cc = rng.sample(range(m), 4)
            if nv and (m - 1) not in cc: cc[0] = m - 1
            app["C"].append(cc)
        c["app"] = app
        c["cfg2"] = {"ce": c["ce"] if rng.random() < .7 else not c["ce"], "cf": c["cf"] if rng.random() < .7 else not c["cf"]}
    elif c["build"] == "saveload":
        fmt = "obj" if not c["C"] else ("mesh" if all(len(x) == 4 for x in c["C"]) and all(len(f) == 3 for f in c["F"]) else None)
        if fmt == "mesh" and c["how"].startswith("direct") and c["how"] != "direct:3": fmt = None
        c["build"] = ("saveload:" + fmt) if fmt else "rewrap"
    # ---- a `hard_edges` attribute brought by the caller (then prepare must leave the flags to the caller)
    if c["E"] and (c["F"] or c["C"]) and not c["build"].startswith("saveload") and rng.random() < .07 \
            and not any(a["name"] == "hard_edges" for a in c["EA"]):
        c["EA"] = c["EA"] + [{"name": "hard_edges", "dense": False, "dflt": None,
                              "vals": {str(i): 1 for i in range(len(c["E"])) if rng.random() < .5}}]
    # ---- raw containers filled in two steps: some declared edges are added with `+=` AFTER the edge attributes were created
    # (DataContainer.__iadd__ then has attributes to expand); the finished object must be the same
    if via == "raw" and c["EA"] and len(c["E"]) >= 2 and rng.random() < .3:
        c["late"] = rng.randint(1, len(c["E"]) - 1)
    # ---- numeric representation of rows and coordinates
    allidx = [x for fld in ("E", "F", "C") for row in c[fld] for x in row] + \
             [x for fld in ("E", "F", "C") for row in (c.get("app") or {}).get(fld, []) for x in row]
    idx = rng.choice(IDX_REPS)
    if idx.startswith("uint") and any(x < 0 for x in allidx): idx = "int32"
    if idx == "uint8" and (max(allidx + [0]) > 250 or len(c["V"]) > 250): idx = "uint32"
    vert = rng.choice(["f64", "f64", "f64", "f32", "int", "int"])
    if vert == "int":
        c["V"] = [[float(round(x)) for x in v] for v in c["V"]]
        vert = rng.choice(["pyint", "i32", "i64"])
    c["rep"] = {"idx": idx, "vert": vert, "order": rng.choice(["C", "C", "F"]), "ro": rng.random() < .25,
                "alias": rng.random() < .1, "api": rng.random() < .5}
    if via == "file": c["rep"]["idx"], c["rep"]["vert"] = "py", "f64"
    return c


HAND = [
    # the hand-made scenarios of DESIGN.md §5/C02 (kept as ordinary generated cases so that they are re-established
    # by the machinery on every run)
    {"kind": "hand-numpy-tets", "V": [[0., 0., 0.], [1., 0., 0.], [0., 1., 0.], [0., 0., 1.], [1., 1., 1.]], "vdim": 3, "E": [], "EA": [],
     "F": [], "C": [[0, 1, 2, 3], [1, 2, 3, 4]], "ce": True, "cf": True, "ctype": "numpy", "via": "arrays", "build": "once", "how": "inst:N"},
    {"kind": "hand-dense-attr", "V": [[0., 0., 0.], [1., 0., 0.], [0., 1., 0.], [1., 1., 0.]], "vdim": 3,
     "E": [[0, 1], [1, 1], [2, 1], [3, 7], [3, 2]],
     "EA": [{"name": "w", "dense": True, "dflt": None, "vals": {"0": 10, "1": 11, "2": 12, "3": 13, "4": 14}},
            {"name": "s", "dense": False, "dflt": None, "vals": {"0": 5, "2": 7, "3": 9}}],
     "F": [], "C": [], "ce": True, "cf": True, "ctype": "tuple", "via": "raw", "build": "once", "how": "inst:N"},
    {"kind": "hand-rewrap-hard", "V": [[0., 0., 0.], [1., 0., 0.], [0., 1., 0.], [1., 1., 0.]], "vdim": 3, "E": [[1, 0]], "EA": [],
     "F": [[0, 1, 2], [1, 3, 2]], "C": [], "ce": True, "cf": True, "ctype": "list", "via": "raw", "build": "rewrap", "how": "direct:2"},
    {"kind": "hand-2d", "V": [[0., 0.], [1., 0.], [0., 1.]], "vdim": 2, "E": [], "EA": [], "F": [[0, 1, 2]], "C": [],
     "ce": True, "cf": True, "ctype": "tuple", "via": "raw", "build": "once", "how": "direct:2"},
    {"kind": "hand-two-tets", "V": [[0., 0., 0.], [1., 0., 0.], [0., 1., 0.], [0., 0., 1.], [1., 1., 1.]], "vdim": 3, "E": [], "EA": [],
     "F": [], "C": [[0, 1, 2, 3], [1, 2, 3, 4]], "ce": True, "cf": True, "ctype": "list", "via": "raw", "build": "once", "how": "direct:3"},
    {"kind": "hand-two-tets-rewrap", "V": [[0., 0., 0.], [1., 0., 0.], [0., 1., 0.], [0., 0., 1.], [1., 1., 1.]], "vdim": 3, "E": [], "EA": [],
     "F": [], "C": [[0, 1, 2, 3], [1, 2, 3, 4]], "ce": True, "cf": True, "ctype": "list", "via": "raw", "build": "rewrap", "how": "direct:3"},
    {"kind": "hand-hex", "V": [[0., 0., 0.], [1., 0., 0.], [1., 1., 0.], [0., 1., 0.], [0., 0., 1.], [1., 0., 1.], [1., 1., 1.], [0., 1., 1.]],
     "vdim": 3, "E": [[6, 0]], "EA": [], "F": [], "C": [[0, 1, 2, 3, 4, 5, 6, 7]], "ce": True, "cf": True, "ctype": "tuple", "via": "raw",
     "build": "once", "how": "inst:N"},
    {"kind": "hand-default", "V": [[0., 0., 0.], [1., 0., 0.], [0., 1., 0.]], "vdim": 3, "E": [[0, 1], [2, 2], [1, 2]],
     "EA": [{"name": "lab", "dense": False, "dflt": 7, "vals": {"0": 3}}], "F": [], "C": [],
     "ce": True, "cf": True, "ctype": "list", "via": "raw", "build": "once", "how": "inst:N"},
]


_V5 = [[0., 0., 0.], [1., 0., 0.], [0., 1., 0.], [0., 0., 1.], [1., 1., 1.]]
HAND3 = [
    # round 3: histories / representations (also in corpus/C02/round3_families.json)
    {"kind": "hand-append-cell", "V": _V5[:4], "vdim": 3, "E": [], "EA": [], "F": [], "C": [[0, 1, 2, 3]], "ce": True, "cf": True,
     "ctype": "list", "via": "raw", "build": "append", "how": "direct:3",
     "app": {"V": [[1., 1., 1.]], "E": [], "F": [], "C": [[1, 2, 3, 4]]}, "cfg2": {"ce": True, "cf": True}},
    {"kind": "hand-append-face-edge", "V": _V5[:4], "vdim": 3, "E": [[1, 0]], "EA": [{"name": "w", "dense": True, "dflt": 7, "vals": {"0": 5}}],
     "F": [[0, 1, 2]], "C": [], "ce": True, "cf": True, "ctype": "tuple", "via": "raw", "build": "append", "how": "inst:N",
     "app": {"V": [], "E": [[3, 0], [2, 2]], "F": [[1, 3, 2]], "C": []}, "cfg2": {"ce": True, "cf": True}},
    {"kind": "hand-two-classes", "V": _V5, "vdim": 3, "E": [[4, 0]], "EA": [], "F": [], "C": [[0, 1, 2, 3], [1, 2, 3, 4]], "ce": True, "cf": True,
     "ctype": "list", "via": "raw", "build": "two:3", "how": "direct:2"},
    {"kind": "hand-saveload-obj", "V": _V5[:4], "vdim": 3, "E": [[3, 0], [1, 1]], "EA": [], "F": [[0, 1, 2], [0, 2, 3]], "C": [], "ce": True, "cf": True,
     "ctype": "list", "via": "raw", "build": "saveload:obj", "how": "inst:N"},
    {"kind": "hand-saveload-mesh", "V": _V5, "vdim": 3, "E": [[4, 0]], "EA": [], "F": [], "C": [[0, 1, 2, 3], [1, 2, 3, 4]], "ce": True, "cf": True,
     "ctype": "tuple", "via": "raw", "build": "saveload:mesh", "how": "inst:N"},
    {"kind": "hand-uint8-int-vertices", "V": [[0., 0.], [2., 0.], [0., 3.], [2., 3.]], "vdim": 2, "E": [[3, 0], [1, 1]], "EA": [],
     "F": [[0, 1, 2], [1, 3, 2]], "C": [], "ce": True, "cf": True, "ctype": "numpy", "via": "arrays", "build": "once", "how": "inst:N",
     "rep": {"idx": "uint8", "vert": "i32", "order": "F", "ro": True, "alias": False, "api": True}},
    {"kind": "hand-npscalar-float32", "V": _V5, "vdim": 3, "E": [[4, 0], [2, 2]], "EA": [{"name": "s", "dense": False, "dflt": None, "vals": {"0": 9}}],
     "F": [], "C": [[0, 1, 2, 3], [1, 2, 3, 4]], "ce": True, "cf": True, "ctype": "list", "via": "raw", "build": "rewrap", "how": "inst:N",
     "rep": {"idx": "npscalar", "vert": "f32", "order": "C", "ro": False, "alias": True, "api": False}},
    {"kind": "hand-user-hard", "V": _V5[:4], "vdim": 3, "E": [[0, 1], [2, 2], [3, 0]],
     "EA": [{"name": "hard_edges", "dense": False, "dflt": None, "vals": {"2": 1}}], "F": [[0, 1, 2]], "C": [], "ce": True, "cf": True,
     "ctype": "list", "via": "raw", "build": "rewrap", "how": "inst:N"},
]


def cases(rng, tier):
    n = 2200 if tier == "quick" else 16000
    for h in HAND:
        yield dict(h)
    for _ in range(n):
        yield _finish(rng, R.scenario(rng, tier))
    if tier == "thorough":
        # every configuration combination on a few fixed scenarios (a test of the tie, not a proof)
        import itertools
        fixed = [R.scenario(rng, "quick") for _ in range(12)]
        for sc in fixed:
            for ce, cf, ct, build in itertools.product([True, False], [True, False], ["list", "tuple", "numpy"],
                                                       ["once", "twice", "reprep", "rewrap", "rewrapinst"]):
                c = dict(sc); c.update(ce=ce, cf=cf, ctype=ct, via="raw", build=build, how="inst:N")
                yield c


# ------------------------------------------------------------------------------------------------------------
# driving the implementation
# ------------------------------------------------------------------------------------------------------------
def _err(e):
    n = type(e).__name__
    return {"KeyError": "err:Key", "ValueError": "err:Value", "IndexError": "err:Index", "TypeError": "err:Type",
            "OutOfBoundsError": "err:OutOfBounds", "InvalidSizeError": "err:Size"}.get(n, f"err:Other({n})")


_NP = {"int32": "int32", "int64": "int64", "uint8": "uint8", "uint32": "uint32", "uint64": "uint64", "npscalar": "int64"}


def _rows(rows, ct, case=None):
    """index rows in the container type `ct` and the numeric representation of the case (python ints, numpy scalars
    of a given dtype inside lists/tuples, numpy rows of a given dtype); `alias`: equal rows are ONE shared object"""
    import numpy as np
    idx = _rep(case or {}, "idx", "py")
    sc = (lambda x: int(x)) if idx == "py" else (lambda x: getattr(np, _NP[idx])(x))
    memo = {}
    out = []
    for r in rows:
        if ct == "list": row = [sc(x) for x in r]
        elif ct == "tuple": row = tuple(sc(x) for x in r)
        else: row = np.array(r, dtype=getattr(np, _NP.get(idx, "int64")))
        if _rep(case or {}, "alias", False):
            row = memo.setdefault(tuple(r), row)
        out.append(row)
    return out


def _vrows(rows, ct, case=None):
    import numpy as np
    vert = _rep(case or {}, "vert", "f64")
    if vert in ("pyint", "i32", "i64"):
        dt = {"pyint": None, "i32": np.int32, "i64": np.int64}[vert]
        sc = (lambda x: int(x)) if dt is None else (lambda x: dt(int(x)))
    elif vert == "f32":
        dt, sc = np.float32, (lambda x: np.float32(x))
    else:
        dt, sc = float, (lambda x: float(x))
    if ct == "list": return [[sc(x) for x in r] for r in rows]
    if ct == "tuple": return [tuple(sc(x) for x in r) for r in rows]
    return [np.array(r, dtype=(np.int64 if dt is None else dt)) for r in rows]


def _arr(rows, dtype, case, width=None):
    """2-D array for from_arrays: dtype, memory order and writability of the representation"""
    import numpy as np
    a = np.array(rows, dtype=dtype)
    if width is not None: a = a.reshape(len(rows), width)
    if _rep(case, "order", "C") == "F": a = np.asfortranarray(a)
    if _rep(case, "ro", False): a.setflags(write=False)
    return a


def _file_format(case):
    """obj for polygon soups / polylines, medit (.mesh) when there are tetrahedra; None when no reader fits"""
    if not case["C"]:
        return "obj"
    if all(len(c) == 4 for c in case["C"]) and all(len(f) in (3, 4) for f in case["F"]):
        return "mesh"
    return None


def _file_edges(case):
    """the declared edges as the reader hands them over (obj: `l a b` lines are keyified by the reader)"""
    if _file_format(case) == "obj":
        return [sorted(e) for e in case["E"]]
    return [list(e) for e in case["E"]]


def _load_from_file(case, dim=None, raw=True):
    import tempfile
    import mouette as M
    fmt = _file_format(case)
    fr = lambda x: repr(float(x))
    with tempfile.TemporaryDirectory() as td:
        path = os.path.join(td, "m." + fmt)
        with open(path, "w") as f:
            if fmt == "obj":
                for v in case["V"]: f.write("v " + " ".join(fr(x) for x in v) + "\n")
                for a, b in case["E"]: f.write(f"l {a + 1} {b + 1}\n")
                for fa in case["F"]: f.write("f " + " ".join(str(x + 1) for x in fa) + "\n")
            else:
                f.write("MeshVersionFormatted 2\nDimension 3\nVertices\n%d\n" % len(case["V"]))
                for v in case["V"]: f.write(" ".join(fr(x) for x in v) + " 0\n" if len(v) == 3 else " ".join(fr(x) for x in v) + "\n")
                if case["E"]:
                    f.write("Edges\n%d\n" % len(case["E"]))
                    for a, b in case["E"]: f.write(f"{a + 1} {b + 1} 0\n")
                i = 0
                F = case["F"]
                while i < len(F):                      # one block per run of equal arity keeps the declared order
                    j = i
                    while j < len(F) and len(F[j]) == len(F[i]): j += 1
                    f.write(("Triangles" if len(F[i]) == 3 else "Quadrilaterals") + "\n%d\n" % (j - i))
                    for fa in F[i:j]: f.write(" ".join(str(x + 1) for x in fa) + " 0\n")
                    i = j
                f.write("Tetrahedra\n%d\n" % len(case["C"]))
                for c in case["C"]: f.write(" ".join(str(x + 1) for x in c) + " 0\n")
                f.write("End\n")
        return M.mesh.load(path, raw=True) if raw else M.mesh.load(path, dim)


def _make_raw(case, ct, via):
    import numpy as np
    import mouette as M
    from mouette.mesh.mesh_data import RawMeshData
    if via == "file":
        d = _load_from_file(case)
    elif via == "arrays":
        idt = getattr(np, _NP.get(_rep(case, "idx", "py"), "int64"))
        vdt = {"f32": np.float32, "pyint": np.int64, "i32": np.int32, "i64": np.int64}.get(_rep(case, "vert", "f64"), float)
        V = _arr(case["V"], vdt, case, case["vdim"])
        E = _arr(case["E"], idt, case) if case["E"] else None
        F = _arr(case["F"], idt, case) if case["F"] else None
        C = _arr(case["C"], idt, case) if case["C"] else None
        d = M.mesh.from_arrays(V, E, F, C, raw=True)
    else:
        d = RawMeshData()
        d.vertices += _vrows(case["V"], ct, case)
        erows = _rows(case["E"], ct, case)
        late = case.get("late") or 0
        d.edges += erows[:len(erows) - late]
        d.faces += _rows(case["F"], ct, case)
        d.cells += _rows(case["C"], ct, case)
    npval = _rep(case, "idx", "py") != "py"
    ats = [(a, d.edges.create_attribute(a["name"], int, dense=a["dense"], default_value=a["dflt"])) for a in case["EA"]]
    if via == "raw" and (case.get("late") or 0):
        d.edges += erows[len(erows) - case["late"]:]           # `+=` on a container that already has attributes
    for a, at in ats:
        for k, v in sorted(a["vals"].items(), key=lambda kv: int(kv[0])):
            at[int(k)] = np.int64(v) if npval else int(v)
    return d


def _api_entry(case, ct, via):
    """when nothing has to be attached to the raw data, go through the public entry point itself
    (from_arrays(...) / load(path, dim) build the mesh in one call)"""
    return (_rep(case, "api", False) and not case["EA"] and case["how"].startswith("inst") and via in ("arrays", "file")
            and (case["build"] in ("once", "rewrap", "rewrapinst", "append") or case["build"].startswith("saveload")))


def _build_first(case, ct, via):
    import numpy as np
    import mouette as M
    if not _api_entry(case, ct, via):
        d = _make_raw(case, ct, via)
        return d, _construct(d, case["how"])
    k = case["how"].split(":")[1]
    dim = None if k == "N" else int(k)
    if via == "arrays" and dim is None:
        idt = getattr(np, _NP.get(_rep(case, "idx", "py"), "int64"))
        vdt = {"f32": np.float32, "pyint": np.int64, "i32": np.int32, "i64": np.int64}.get(_rep(case, "vert", "f64"), float)
        m = M.mesh.from_arrays(_arr(case["V"], vdt, case, case["vdim"]),
                               _arr(case["E"], idt, case) if case["E"] else None,
                               _arr(case["F"], idt, case) if case["F"] else None,
                               _arr(case["C"], idt, case) if case["C"] else None)
        return None, m
    if via == "file":
        return None, _load_from_file(case, dim=dim, raw=False)
    d = _make_raw(case, ct, via)
    return d, _construct(d, case["how"])


def _construct(d, how):
    import mouette as M
    from mouette.mesh import mesh as mm
    kind, k = how.split(":")
    if kind == "inst":
        return mm._instanciate_raw_mesh_data(d, None if k == "N" else int(k))
    return getattr(M.mesh, CLASSES[int(k)])(d)


def _attr_snap(cont):
    from mouette.mesh.mesh_attributes import ArrayAttribute
    out = []
    for name in sorted(cont.attributes):
        a = cont.get_attribute(name)
        dv = a.default_value
        dv = int(dv) if not hasattr(dv, "__len__") else int(dv[0])
        if isinstance(a, ArrayAttribute):
            out.append([name, "d", dv, [int(a._data[i, 0]) for i in range(a.n_elem)]])
        else:
            out.append([name, "s", dv, sorted([int(k), int(v)] for k, v in a._data.items())])
    return out


def _kind_char(row):
    import numpy as np
    return "t" if isinstance(row, tuple) else "l" if isinstance(row, list) else "n" if isinstance(row, np.ndarray) else "?"


def _kinds(mesh):
    """container type of every stored index row (the observable of the row-typed model prepareR)"""
    k = lambda cont: "".join(_kind_char(r) for r in cont)
    return ("E" + (k(mesh.edges) if hasattr(mesh, "edges") else "-") + "F" + (k(mesh.faces) if hasattr(mesh, "faces") else "-")
            + "C" + (k(mesh.cells) if hasattr(mesh, "cells") else "-"))


def _kinds_mode(case):
    return "all" if case["via"] == "raw" else "numpy" if case["via"] == "arrays" else "none"


def _snap(mesh):
    import numpy as np
    s = {"cls": type(mesh).__name__, "K": _kinds(mesh)}
    s["V"] = [[Fraction(float(x)) for x in np.asarray(v).ravel()] for v in mesh.vertices]
    if hasattr(mesh, "edges"):
        s["E"] = [[int(x) for x in e] for e in mesh.edges]
        s["A"] = _attr_snap(mesh.edges)
    if hasattr(mesh, "faces"):
        s["F"] = [[int(x) for x in f] for f in mesh.faces]
        s["FC"] = [[int(x) for x in mesh.face_corners._elem], [int(x) for x in mesh.face_corners._adj]]
    if hasattr(mesh, "cells"):
        s["C"] = [[int(x) for x in c] for c in mesh.cells]
        s["CC"] = [[int(x) for x in mesh.cell_corners._elem], [int(x) for x in mesh.cell_corners._adj]]
        s["CF"] = [[int(x) for x in mesh.cell_faces._elem], [int(x) for x in mesh.cell_faces._adj]]
    return s


def _frac(f):
    return str(f.numerator) if f.denominator == 1 else f"{f.numerator}/{f.denominator}"


def _nl(l):
    return " ".join([str(len(l))] + [str(x) for x in l])


def _fmt(s):
    parts = ["cls:" + s["cls"]]
    parts.append("V:" + " ".join([str(len(s["V"]))] + [" ".join([str(len(v))] + [_frac(x) for x in v]) for v in s["V"]]))
    if "E" in s:
        parts.append("E:" + " ".join([str(len(s["E"]))] + [f"{a} {b}" for a, b in s["E"]]))
        at = [str(len(s["A"]))]
        for name, kind, dv, data in s["A"]:
            if kind == "d": at.append(f"{name} d {dv} {_nl(data)}")
            else: at.append(f"{name} s {dv} " + " ".join([str(len(data))] + [f"{k} {v}" for k, v in data]))
        parts.append("A:" + " ".join(at))
    if "F" in s:
        parts.append("F:" + " ".join([str(len(s["F"]))] + [_nl(f) for f in s["F"]]))
        parts.append("FC:" + _nl(s["FC"][0]) + " " + _nl(s["FC"][1]))
    if "C" in s:
        parts.append("C:" + " ".join([str(len(s["C"]))] + [_nl(c) for c in s["C"]]))
        parts.append("CC:" + _nl(s["CC"][0]) + " " + _nl(s["CC"][1]))
        parts.append("CF:" + _nl(s["CF"][0]) + " " + _nl(s["CF"][1]))
    return ";".join(parts)


_CACHE = {}


def _run(case, ct=None, via=None):
    """Build the scenario with the real code. Returns dict(err, stage, first, final, mesh)."""
    ct = ct or case["ctype"]
    via = via or case["via"]
    key = (G.__name__, str(sorted(case.items(), key=lambda kv: kv[0])), ct, via)
    if key in _CACHE:
        return _CACHE[key]
    import mouette as M
    from mouette.mesh.mesh_data import RawMeshData
    from mouette.mesh import mesh as mm
    cfg = M.config
    old = (cfg.complete_edges_from_faces, cfg.complete_faces_from_cells)
    res = {"err": None, "stage": None, "first": None, "final": None, "mesh": None, "first_after": None}
    try:
        cfg.complete_edges_from_faces, cfg.complete_faces_from_cells = bool(case["ce"]), bool(case["cf"])
        try:
            d, m1 = _build_first(case, ct, via)
            res["first"] = _snap(m1)
        except Exception as e:  # noqa
            res["err"], res["stage"] = _err(e), "first"
        if res["err"] is None:
            b = case["build"]
            try:
                if b == "once": m2 = m1
                elif b == "twice": m2 = _construct(d, case["how"])
                elif b == "reprep":
                    d.prepare(); m2 = m1
                elif b == "rewrap": m2 = type(m1)(RawMeshData(m1))
                elif b == "rewrapinst": m2 = mm._instanciate_raw_mesh_data(RawMeshData(m1), CLASSES.index(type(m1).__name__))
                elif b.startswith("two:"):
                    # the same raw data wrapped by a second mesh (of another class)
                    m2 = getattr(M.mesh, CLASSES[int(b[4:])])(d)
                elif b == "append":
                    # elements appended through the container API to the built mesh, then built again from it
                    app = case["app"]
                    for v in _vrows(app["V"], ct, case): m1.vertices.append(v)
                    if hasattr(m1, "edges"):
                        for e in _rows(app["E"], ct, case): m1.edges.append(e)
                    if hasattr(m1, "faces"):
                        for f in _rows(app["F"], ct, case): m1.faces.append(f)
                    if hasattr(m1, "cells"):
                        for c in _rows(app["C"], ct, case): m1.cells.append(c)
                    res["appended"] = _snap(m1)
                    cfg.complete_edges_from_faces, cfg.complete_faces_from_cells = bool(case["cfg2"]["ce"]), bool(case["cfg2"]["cf"])
                    m2 = type(m1)(RawMeshData(m1))
                elif b.startswith("saveload:"):
                    import tempfile
                    with tempfile.TemporaryDirectory() as td:
                        path = os.path.join(td, "m." + b.split(":")[1])
                        M.mesh.save(m1, path)
                        m2 = M.mesh.load(path)
                else:
                    raise ValueError("unknown build " + b)
                res["final"] = _snap(m2); res["mesh"] = m2
                res["first_after"] = _snap(m1)
            except Exception as e:  # noqa
                res["err"], res["stage"] = _err(e), "again"
    finally:
        cfg.complete_edges_from_faces, cfg.complete_faces_from_cells = old
    if len(_CACHE) > 64: _CACHE.clear()
    _CACHE[key] = res
    return res


def _obs_values(r):
    return r["err"] if r["err"] else _fmt(r["final"])


def _obs_kinds(r):
    return r["first"]["K"] if r["first"] is not None else r["err"]


def _ctype_runs(case):
    """the scenario once per container type of the index rows (raw route), else the single route of the case"""
    mode = _kinds_mode(case)
    if mode == "all":
        return [(ct, _run(case, ct, "raw")) for ct in ("list", "tuple", "numpy")]
    if mode == "numpy":
        return [("numpy", _run(case))]
    return []


def impl_observe(case):
    """values: containers of the finished mesh for the container type of the case; K: container type of every stored
    row of the first build, for each input container type (compared with the row-typed model prepareR)"""
    runs = _ctype_runs(case)
    ks = "K:" + ",".join(f"{ct}={_obs_kinds(r)}" for ct, r in runs) if runs else "K:-"
    return _obs_values(_run(case)) + ";" + ks


# ------------------------------------------------------------------------------------------------------------
# model request
# ------------------------------------------------------------------------------------------------------------
def model_request(case):
    kind, k = case["how"].split(":")
    t = ["prep", "1" if case["ce"] else "0", "1" if case["cf"] else "0", "arrays" if case["via"] == "arrays" else "raw", kind, k, case["build"], _kinds_mode(case)]
    t += ["V", str(len(case["V"]))]
    for v in case["V"]:
        t += [str(len(v))] + [G.frac(x) for x in v]
    t += ["E", str(len(case["E"]))]
    for a, b in (_file_edges(case) if case["via"] == "file" else case["E"]):
        t += [str(a), str(b)]
    t += ["A", str(len(case["EA"]))]
    for a in case["EA"]:
        items = sorted(((int(i), int(v)) for i, v in a["vals"].items()))
        t += [a["name"], "d" if a["dense"] else "s", "N" if a["dflt"] is None else str(a["dflt"]), str(len(items))]
        for i, v in items:
            t += [str(i), str(v)]
    for tag in ("F", "C"):
        t += [tag, str(len(case[tag]))]
        for r in case[tag]:
            t += [str(len(r))] + [str(x) for x in r]
    if case["build"] == "append":
        app, c2 = case["app"], case["cfg2"]
        t += ["P", "1" if c2["ce"] else "0", "1" if c2["cf"] else "0", "V", str(len(app["V"]))]
        for v in app["V"]:
            t += [str(len(v))] + [G.frac(x) for x in v]
        t += ["E", str(len(app["E"]))]
        for a, b in app["E"]:
            t += [str(a), str(b)]
        for tag in ("F", "C"):
            t += [tag, str(len(app[tag]))]
            for r in app[tag]:
                t += [str(len(r))] + [str(x) for x in r]
    return " ".join(t)


def _first_diff(a, b):
    for x, y in zip(a.split(";"), b.split(";")):
        if x != y:
            return f"section differs: model `{x[:160]}` vs implementation `{y[:160]}`"
    return f"model `{a[:120]}` vs implementation `{b[:120]}`"


def compare(case, model, impl):
    # the same model reply must describe the mesh built from EVERY container type of the index rows
    mvals = model.rsplit(";K:", 1)[0]
    for ct, r in _ctype_runs(case):
        if ct != case["ctype"] and case["via"] == "raw" and _obs_values(r) != mvals:
            return f"rows given as {ct}: " + (_first_diff(mvals, _obs_values(r)))
    if model == impl:
        return None
    ms, is_ = model.split(";"), impl.split(";")
    for a, b in zip(ms, is_):
        if a != b:
            return f"section differs: model `{a[:160]}` vs implementation `{b[:160]}`"
    return f"model `{model[:120]}` vs implementation `{impl[:120]}`"


# ------------------------------------------------------------------------------------------------------------
# oracle: the statement, directly
# ------------------------------------------------------------------------------------------------------------
def _key(r):
    return tuple(sorted(r))


def _cyc_eq(a, b):
    """same cyclic sequence up to rotation and reversal"""
    if len(a) != len(b): return False
    n = len(a)
    for seq in (list(b), list(b)[::-1]):
        for r in range(n):
            if list(a) == seq[r:] + seq[:r]: return True
    return False


def _canon(x):
    import numpy as np
    if isinstance(x, (list, tuple)): return [_canon(y) for y in x]
    if isinstance(x, (set, frozenset)): return sorted(_canon(y) for y in x)
    if isinstance(x, np.ndarray): return [_canon(y) for y in x.tolist()]
    if isinstance(x, (bool, np.bool_)): return bool(x)
    if isinstance(x, (int, np.integer)): return int(x)
    if isinstance(x, (float, np.floating)): return float(x)
    return x if x is None or isinstance(x, str) else repr(x)


def _battery(mesh):
    """a fixed battery of later queries (C01/C03 accessors, border data) on a built mesh"""
    res = {}
    cls = type(mesh).__name__

    def q(name, fn, srt=False):
        try:
            v = _canon(fn())
            if srt: v = [sorted(x, key=repr) if isinstance(x, list) else x for x in v]
            res[name] = v
        except Exception as e:  # noqa
            res[name] = "raises:" + type(e).__name__
    if cls == "PointCloud":
        return res
    c = mesh.connectivity
    nv, ne = len(mesh.vertices), len(mesh.edges)
    vol = cls == "VolumeMesh"
    q("vertex_to_vertices", lambda: [c.vertex_to_vertices(v) for v in range(nv)], srt=vol or cls == "PolyLine")
    q("vertex_to_edges", lambda: [c.vertex_to_edges(v) for v in range(nv)], srt=True)
    q("edge_id", lambda: [c.edge_id(a, b) for a, b in mesh.edges] + [c.edge_id(b, a) for a, b in mesh.edges])
    q("edge_to_vertices", lambda: [c.edge_to_vertices(e) for e in range(ne)])
    q("other_edge_end", lambda: [c.other_edge_end(e, mesh.edges[e][0]) for e in range(ne)])
    if cls == "PolyLine":
        return res
    nf, nc = len(mesh.faces), len(mesh.face_corners)
    q("face_id", lambda: [c.face_id(*f) for f in mesh.faces])
    q("face_to_vertices", lambda: [c.face_to_vertices(f) for f in range(nf)])
    q("face_to_edges", lambda: [c.face_to_edges(f) for f in range(nf)])
    q("face_to_corners", lambda: [c.face_to_corners(f) for f in range(nf)])
    q("corner_to_face", lambda: [c.corner_to_face(k) for k in range(nc)])
    q("vertex_to_faces", lambda: [c.vertex_to_faces(v) for v in range(nv)], srt=vol)
    q("in_face_index", lambda: [c.in_face_index(f, mesh.faces[f][0]) for f in range(nf)])
    if not vol:
        q("next_corner", lambda: [c.next_corner(k) for k in range(nc)])
        q("opposite_corner", lambda: [c.opposite_corner(k) for k in range(nc)])
        q("vertex_to_corners", lambda: [c.vertex_to_corners(v) for v in range(nv)])
        q("direct_face", lambda: [[c.direct_face(a, b), c.direct_face(b, a)] for a, b in mesh.edges])
        q("edge_to_faces", lambda: [c.edge_to_faces(a, b) for a, b in mesh.edges])
        q("face_to_faces", lambda: [c.face_to_faces(f) for f in range(nf)])
        q("boundary_edges", lambda: mesh.boundary_edges)
        q("boundary_vertices", lambda: mesh.boundary_vertices)
        q("is_triangular", lambda: mesh.is_triangular())
        return res
    ncell = len(mesh.cells)
    q("face_to_cells", lambda: [c.face_to_cells(f) for f in range(nf)], srt=True)
    q("cell_to_face", lambda: [c.cell_to_face(k) for k in range(ncell)], srt=True)
    q("cell_to_cell", lambda: [c.cell_to_cell(k) for k in range(ncell)], srt=True)
    q("vertex_to_cell", lambda: [c.vertex_to_cell(v) for v in range(nv)], srt=True)
    q("cell_to_vertex", lambda: [c.cell_to_vertex(k) for k in range(ncell)])
    q("cell_to_edge", lambda: [c.cell_to_edge(k) for k in range(ncell)], srt=True)
    q("edge_to_cell", lambda: [c.edge_to_cell(e) for e in range(ne)], srt=True)
    q("edge_to_face", lambda: [c.edge_to_face(e) for e in range(ne)], srt=True)
    q("in_cell_index", lambda: [c.in_cell_index(k, mesh.cells[k][-1]) for k in range(ncell)])
    q("in_cell_face_index", lambda: [[c.in_cell_face_index(k, f) for f in sorted(c.cell_to_face(k))] for k in range(ncell)])
    q("other_face_side", lambda: [[c.other_face_side(k, f) for f in sorted(c.cell_to_face(k))] for k in range(ncell)])
    q("common_face", lambda: [c.common_face(0, k) for k in range(ncell)])
    q("boundary_faces", lambda: mesh.boundary_faces)
    q("is_tetrahedral", lambda: mesh.is_tetrahedral())
    return res


def _ctx(case):
    return case["via"] if case["via"] in ("arrays", "file") else case["ctype"]


def _inp_of_case(case):
    """the raw input of a construction, as the oracle needs it"""
    def attr(a):
        d0 = a["dflt"] if a["dflt"] is not None else 0
        return {"name": a["name"], "dense": a["dense"], "has": (lambda i, a=a: str(i) in a["vals"]),
                "ref": (lambda i, a=a, d0=d0: a["vals"].get(str(i), d0))}
    return {"V": [[Fraction(x) for x in v] for v in case["V"]], "E": [list(e) for e in case["E"]],
            "F": [list(f) for f in case["F"]], "C": [list(c) for c in case["C"]], "EA": [attr(a) for a in case["EA"]],
            "ce": case["ce"], "cf": case["cf"], "tag": case["build"].split(":")[0], "via": case["via"]}


def _inp_after_append(case, appended, first):
    """the raw input of the SECOND construction of an `append` history: the containers of the built mesh as the caller
    left them (its own edges, faces, cells, attributes + what was appended)"""
    def attr(rec):
        name, st, dv, data = rec
        if st == "d":
            return {"name": name, "dense": True, "has": (lambda i: True), "ref": (lambda i, data=data, dv=dv: data[i] if i < len(data) else dv)}
        dd = dict(map(tuple, data))
        return {"name": name, "dense": False, "has": (lambda i, dd=dd: i in dd), "ref": (lambda i, dd=dd, dv=dv: dd.get(i, dv))}
    s = appended
    return {"V": [list(v) for v in s["V"]], "E": [list(e) for e in s.get("E", [])], "F": [list(f) for f in s.get("F", [])],
            "C": [list(c) for c in s.get("C", [])], "EA": [attr(a) for a in s.get("A", [])],
            "ce": case["cfg2"]["ce"], "cf": case["cfg2"]["cf"], "tag": "append", "via": case["via"]}


def _clauses(inp, s, add):
    """the clauses of the statement about ONE finished object `s` (snapshot) built from the raw input `inp`.
    Returns (expected edge multiset, expected faces) for the class clause."""
    nV = len(inp["V"])
    E, F, C, tag = inp["E"], inp["F"], inp["C"], inp["tag"]
    valid = lambda e: e[0] != e[1] and 0 <= e[0] < nV and 0 <= e[1] < nV
    dimc = CLASSES.index(s["cls"])
    # ---- 3-D vertices
    if any(len(v) != 3 for v in s["V"]):
        add(f"C02/vertices/not-3d/{inp['via']}", "finished mesh holds vertices that are not 3-D", [len(v) for v in s["V"]][:5])
    if len(s["V"]) != nV or any(list(v)[:len(w)] != list(w) or any(x != 0 for x in list(v)[len(w):]) for v, w in zip(s["V"], inp["V"])):
        add("C02/vertices/changed", "vertex coordinates changed by construction (given coordinates kept, missing ones are 0)")
    # ---- expected faces (multiset of vertex sets)
    decl_fk = [_key(f) for f in F]
    cellf = [fs for c in C for fs in R.cell_face_sets(c)]
    exp_f = Counter(decl_fk)
    if inp["cf"] and C:
        for fs in cellf:
            if _key(fs) not in exp_f: exp_f[_key(fs)] = 1
    if dimc >= 2:
        got = Counter(_key(f) for f in s["F"])
        if got != exp_f:
            miss, extra = exp_f - got, got - exp_f
            add("C02/faces/" + ("missing" if miss else "duplicated-or-extra"),
                "face list is not: declared faces + each face of each cell not already present, once", f"missing {dict(miss)} extra {dict(extra)}")
        for f in s["F"][len(F):]:
            if len(f) == 4 and not any(_cyc_eq(f, q) for c in C if len(c) == 8 for q in R.cell_face_sets(c)):
                add("C02/faces/hex-quad-order", "a completed quad is not one of the six quads of its hexahedron", f)
        if s["FC"][0] != [v for f in s["F"] for v in f]:
            add("C02/face-corners/elem", "face corner elements are not the face vertices in element order")
        if s["FC"][1] != [i for i, f in enumerate(s["F"]) for _ in f]:
            add("C02/face-corners/owner", "face corner owners are not the faces in element order", s["FC"][1][:12])
    faces_final = list(exp_f.elements()) if (C or F) else []
    # ---- edges
    surv = [i for i, e in enumerate(E) if valid(e)]
    decl_valid = [_key(E[i]) for i in surv]
    exp_e = Counter(decl_valid)
    if inp["ce"] and faces_final:
        all_faces = [list(f) for f in F] + ([fs for fs in cellf if _key(fs) not in set(decl_fk)] if (inp["cf"] and C) else [])
        for f in all_faces:
            for i in range(len(f)):
                k = _key((f[i], f[(i + 1) % len(f)]))
                if valid(k) and k not in exp_e: exp_e[k] = 1
    if dimc >= 1:
        bad = [e for e in s["E"] if not (0 <= e[0] < e[1] < nV)]
        if bad:
            add("C02/edges/not-normalised", "a stored edge is not (low, high) with both ends in range", bad[:5])
        got = Counter(tuple(e) for e in s["E"])
        if got != exp_e:
            miss, extra = exp_e - got, got - exp_e
            kind = "missing-side" if any(k not in decl_valid for k in miss) else "declared-lost" if miss else \
                   "duplicated-side" if any(got[k] > 1 and k not in decl_valid for k in extra) else "extra"
            add(f"C02/edges/{kind}", "edge list is not: valid declared edges + every undirected face side not already present, once",
                f"missing {dict(miss)} extra {dict(extra)}")
        prefix_ok = [tuple(e) for e in s["E"][:len(surv)]] == decl_valid
        if not prefix_ok:
            add("C02/edges/declared-order", "surviving declared edges do not come first in declaration order")
        # ---- attributes follow their edges
        names = {a[0]: a for a in s["A"]}
        for a in inp["EA"]:
            kind = "dense" if a["dense"] else "sparse"
            if a["name"] not in names:
                add(f"C02/edge-attr/{kind}/missing", "edge attribute disappeared during construction", a["name"]); continue
            _, st, dv, data = names[a["name"]]
            dd = dict(map(tuple, data)) if st == "s" else None
            rd = (lambda k: (data[k] if k < len(data) else None)) if st == "d" else (lambda k: dd.get(k, dv))
            if prefix_ok:
                for k, i in enumerate(surv):
                    if rd(k) != a["ref"](i):
                        why = "default" if not a["has"](i) else "value"
                        add(f"C02/edge-attr/{kind}/{why}-lost" + ("/filtered" if len(surv) < len(E) else ""),
                            f"surviving edge does not read its {why} after construction ({kind} attribute)",
                            f"attr {a['name']}: declared edge {i} -> edge {k}: {rd(k)} != {a['ref'](i)}")
                        break
                if st == "s" and not a["dense"]:
                    expk = {k for k, i in enumerate(surv) if a["has"](i)}
                    gotk = set(dd)
                    if gotk != expk:
                        add("C02/edge-attr/sparse/keys", "sparse key set does not follow the surviving edges (absent stays absent, dropped edges drop their values)",
                            f"{a['name']}: {sorted(gotk)} != {sorted(expk)}")
            if st == "d" and len(data) != len(s["E"]):
                add("C02/edge-attr/dense/size", "dense attribute size differs from the number of edges", f"{len(data)} vs {len(s['E'])}")
        # ---- hard edges (when the caller brought the attribute it follows its edges like any other, checked above)
        if "hard_edges" in names and not any(a["name"] == "hard_edges" for a in inp["EA"]):
            hk = sorted(k for k, v in names["hard_edges"][3] if v) if names["hard_edges"][1] == "s" else \
                [k for k, v in enumerate(names["hard_edges"][3]) if v]
            und = [k for k in hk if k >= len(surv)]
            if und:
                add(f"C02/hard-edges/undeclared-flagged/{tag}", "an edge the caller did not declare is flagged as hard edge",
                    f"flagged {hk}, declared survivors 0..{len(surv) - 1}")
    # ---- cells
    if dimc >= 3:
        if s["C"] != [list(c) for c in C]:
            add("C02/cells/changed", "cells changed by construction")
        if s["CC"][0] != [v for c in C for v in c]:
            add("C02/cell-corners/elem" + ("/stale" if tag == "append" else ""), "cell corner elements are not the cell vertices in element order",
                f"{len(s['CC'][0])} records for {sum(len(c) for c in C)} cell vertices")
        if s["CC"][1] != [i for i, c in enumerate(C) for _ in c]:
            add("C02/cell-corners/owner" + ("/stale" if tag == "append" else ""), "cell corner owners are not the cells in element order", s["CC"][1][:12])
        stored = {_key(f) for f in s["F"]}
        present = [[_key(fs) for fs in R.cell_face_sets(c) if _key(fs) in stored] for c in C]
        per = [len(pr) for pr in present]
        el, ow = s["CF"]
        if len(el) != sum(per):
            add("C02/cell-faces/count" + ("/stale" if tag == "append" else ""), "not one cell-face record per cell-face incidence", f"{len(el)} vs {sum(per)}")
        else:
            p = 0
            for ic, c in enumerate(C):
                want = sorted(present[ic])
                gotk = sorted(_key(s["F"][i]) if 0 <= i < len(s["F"]) else () for i in el[p:p + per[ic]])
                if want != gotk:
                    add("C02/cell-faces/elem", "cell-face records of a cell do not point to its faces", f"cell {ic}: {gotk} vs {want}"); break
                p += per[ic]
        if ow != [i for i, n in enumerate(per) for _ in range(n)]:
            add("C02/cell-faces/owner" + ("/empty" if not ow else ""), "cell-face records do not record their owner cell", f"owners {ow[:12]} for {len(el)} records")
        if inp["cf"] and any(len(pr) != (4 if len(c) == 4 else 6) for pr, c in zip(present, C)):
            add("C02/cell-faces/incomplete", "with face completion on a cell does not have 4 (tetrahedron) / 6 (hexahedron) cell-face records")
    return exp_e, faces_final


def oracle(case):
    out = []

    def add(key, what, detail=""):
        if not any(f["key"] == key for f in out):
            out.append({"key": key, "what": what, "detail": str(detail)[:400]})
    nV = len(case["V"])
    E, C = case["E"], case["C"]
    build = case["build"]
    btag = build.split(":")[0]
    r = _run(case)
    # ---- construction must succeed (documented rejection: from_arrays refuses indices >= nV)
    if r["err"]:
        if case["via"] == "arrays" and r["err"] == "err:Other(Exception)" and any(max(row) >= nV for fld in ("E", "F", "C") for row in case[fld]):
            return out
        add(f"C02/raises/{r['stage']}/{r['err']}/{_ctx(case)}" + ("" if btag in ("once", "twice", "reprep", "rewrap", "rewrapinst") else "/" + btag),
            f"construction ({r['stage']} build, {build}) raised {r['err']} on a valid raw input", r["err"])
        return out
    s = r["final"]
    inp = _inp_of_case(case)
    if btag == "append":
        # both constructions must yield a finished object: the first from the raw input, the second from the containers
        # of the built mesh as the caller left them
        exp_e, faces_final = _clauses(inp, r["first"], add)
        _clauses(_inp_after_append(case, r["appended"], r["first"]), s, add)
        if s["cls"] != r["first"]["cls"]:
            add("C02/class/append", "re-building a mesh of class X from itself gives another class", f"{r['first']['cls']} -> {s['cls']}")
    elif btag == "saveload":
        exp_e, faces_final = _clauses(inp, r["first"], add)
        f0 = r["first"]
        fmt = build.split(":")[1]
        if s["V"] != f0["V"]:
            add(f"C02/saveload/{fmt}/V", "vertices differ after save -> load")
        for sec in ("E", "F", "FC", "C", "CC", "CF"):
            a, b = f0.get(sec), s.get(sec)
            if sec == "E" and a is not None and b is not None:
                a, b = sorted(map(tuple, a)), sorted(map(tuple, b))
            if (a is not None and b is not None and a != b) or (b is None and a and any(a)):
                add(f"C02/saveload/{fmt}/{sec}", f"section {sec} of the mesh differs after save -> load -> prepare (building again through a file)",
                    f"{str(a)[:150]} -> {str(b)[:150]}")
        hard = lambda sn: sorted(tuple(sn["E"][k]) for a in sn.get("A", []) if a[0] == "hard_edges" for k, v in a[3] if v and k < len(sn["E"])) if "E" in sn else []
        if "E" in s and "E" in f0 and any(a[0] == "hard_edges" for a in s["A"]) and not set(hard(s)) <= (set(hard(f0)) if any(a[0] == "hard_edges" for a in f0["A"]) else set(map(tuple, f0["E"]))):
            add(f"C02/saveload/{fmt}/hard-edges", "after save -> load an edge is flagged hard that was not flagged before", f"{hard(f0)} -> {hard(s)}")
        if case["how"] == "inst:N" and s["cls"] != f0["cls"]:
            add(f"C02/saveload/{fmt}/cls", "class differs after save -> load", f"{f0['cls']} -> {s['cls']}")
    else:
        exp_e, faces_final = _clauses(inp, s, add)
    # ---- class
    kind, k = case["how"].split(":")
    if kind == "inst":
        top = 3 if C else 2 if faces_final else 1 if exp_e else 0
        want = max(top, -1 if k == "N" else int(k))
        if CLASSES.index(r["first"]["cls"]) != want:
            add(f"C02/class/{r['first']['cls']}-for-dim{want}", "class does not match the highest-dimensional element present", f"{r['first']['cls']} vs {CLASSES[want]}")
    # ---- building again changes nothing
    if btag in ("twice", "reprep", "rewrap", "rewrapinst", "two"):
        f0, f1 = r["first"], r["final"]
        secs = ("cls", "V", "E", "A", "F", "FC", "C", "CC", "CF") if btag != "two" else [x for x in ("V", "E", "A", "F", "FC", "C", "CC", "CF") if x in f0 and x in f1]
        for sec in secs:
            if f0.get(sec) != f1.get(sec):
                add(f"C02/rebuild/{btag}/{sec}", f"building again ({btag}) changed section {sec}",
                    f"{str(f0.get(sec))[:150]} -> {str(f1.get(sec))[:150]}")
        if btag == "two" and s["cls"] != CLASSES[int(build[4:])]:
            add("C02/class/two", "wrapping prepared data in class X gives another class")
    # ---- ... in particular the mesh the caller still holds reads the same (compared by value, section by section)
    if btag in ("twice", "reprep", "rewrap", "rewrapinst", "two", "saveload") and r["first_after"] is not None:
        for sec in ("cls", "V", "E", "A", "F", "FC", "C", "CC", "CF"):
            if r["first"].get(sec) != r["first_after"].get(sec):
                add(f"C02/rebuild/{btag}/original-changed/{sec}", f"building again ({btag}) changed section {sec} of the mesh built first (still held by the caller)",
                    f"{str(r['first'].get(sec))[:150]} -> {str(r['first_after'].get(sec))[:150]}")
    # ---- later behaviour does not depend on the row type / numeric representation
    plain = dict(case, rep={"idx": "py", "vert": "f64", "order": "C", "ro": False, "alias": False, "api": False})
    if _ctx(case) != "list" or case.get("rep", plain["rep"]) != plain["rep"]:
        ref = _run(plain, "list", "raw")
        if ref["err"] is None:
            what = _ctx(case) + "+" + _rep(case, "idx", "py") + "+" + _rep(case, "vert", "f64")
            if case["vdim"] == 3 and _fmt(ref["final"]) != _fmt(s):
                add(f"C02/rowtype/{_ctx(case)}/containers" + ("" if _rep(case, "idx", "py") == "py" and _rep(case, "vert", "f64") == "f64" else "/rep"),
                    "containers differ from the mesh built from lists of python ints / floats", what + ": " + _first_diff(_fmt(ref["final"]), _fmt(s)))
            b0, b1 = _battery(ref["mesh"]), _battery(r["mesh"])
            for qn in b0:
                if b0[qn] != b1.get(qn):     # only the first differing query: later ones may differ because of half-filled caches
                    add(f"C02/rowtype/{_ctx(case)}/{s['cls']}/{qn}", f"{qn} behaves differently on a mesh built from {_ctx(case)} rows than from lists",
                        f"{what} | list: {str(b0[qn])[:120]} | {_ctx(case)}: {str(b1.get(qn))[:120]}")
                    break
    return out


# ------------------------------------------------------------------------------------------------------------
def nontrivial(case, obs):
    return (not obs.startswith("err")) and bool(case["E"] or case["F"] or case["C"])


def classify(case, obs):
    nV = len(case["V"])
    ks = ["kind:" + case["kind"].split("-")[0].split(":")[0], "rows:" + _ctx(case), "build:" + case["build"], "how:" + case["how"],
          f"cfg:ce{int(case['ce'])}cf{int(case['cf'])}", "vdim:%d" % case["vdim"]]
    if obs.startswith("err"): ks.append(obs.split(";")[0])
    else: ks.append(obs.split(";")[0])
    inv = [e for e in case["E"] if not (e[0] != e[1] and 0 <= e[0] < nV and 0 <= e[1] < nV)]
    if inv: ks.append("edges:some-invalid")
    if len({_key(e) for e in case["E"]}) < len(case["E"]): ks.append("edges:duplicates")
    for a in case["EA"]:
        ks.append("attr:" + ("dense" if a["dense"] else "sparse") + ("+default" if a["dflt"] is not None else "") + ("+filtered" if inv else ""))
    if case["C"] and case["F"]: ks.append("faces:declared-with-cells")
    if case.get("degen"): ks.append("degen:" + case["degen"])
    ks += ["rep:idx:" + _rep(case, "idx", "py"), "rep:vert:" + _rep(case, "vert", "f64")]
    if case["via"] == "arrays":
        ks.append("arr:" + _rep(case, "order", "C") + ("+readonly" if _rep(case, "ro", False) else ""))
        if not case["V"]: ks.append("arr:empty")
    if _rep(case, "alias", False): ks.append("rows:shared-objects")
    if case.get("late"): ks.append("fill:edges-added-after-attributes")
    if _api_entry(case, case["ctype"], case["via"]): ks.append("entry:public-api")
    if any(a["name"] == "hard_edges" for a in case["EA"]): ks.append("attr:caller-hard_edges")
    if case["build"] == "append":
        ks.append("append:" + "".join(t for t in "VEFC" if case["app"][t]) + ("+cfg-changed" if (case["cfg2"]["ce"], case["cfg2"]["cf"]) != (case["ce"], case["cf"]) else ""))
    ks.append("size:" + ("0" if not (case["F"] or case["C"]) else "<=8" if len(case["F"]) + len(case["C"]) <= 8 else "<=40" if len(case["F"]) + len(case["C"]) <= 40 else ">40"))
    return ks


def describe(case):
    return {k: (v if k not in ("V",) else f"{len(v)} vertices") for k, v in case.items()}


def shrink(case, still):
    cur = dict(case)

    def attempt(c):
        nonlocal cur
        try:
            if still(c):
                cur = c; return True
        except Exception:  # noqa
            pass
        return False
    for k, v in (("build", "once"), ("how", "inst:N"), ("ce", True), ("cf", True)):
        if cur[k] != v: attempt(dict(cur, **{k: v}))
    if cur["via"] in ("arrays", "file"): attempt(dict(cur, via="raw"))
    if cur.get("late"): attempt({k: v for k, v in cur.items() if k != "late"})
    if cur.get("rep"):
        attempt({k: v for k, v in cur.items() if k != "rep"})
        for name, plainv in (("idx", "py"), ("vert", "f64"), ("order", "C"), ("ro", False), ("alias", False), ("api", False)):
            if cur.get("rep") and cur["rep"].get(name, plainv) != plainv:
                attempt(dict(cur, rep=dict(cur["rep"], **{name: plainv})))
    if cur["build"] == "append":
        attempt(dict(cur, cfg2={"ce": cur["ce"], "cf": cur["cf"]}))
        for fld in ("C", "F", "E"):
            i = 0
            while i < len(cur["app"][fld]):
                app = dict(cur["app"]); app[fld] = app[fld][:i] + app[fld][i + 1:]
                if not attempt(dict(cur, app=app)): i += 1
    for fld in ("EA", "C", "F", "E"):
        i = 0
        while i < len(cur[fld]):
            c = dict(cur); c[fld] = cur[fld][:i] + cur[fld][i + 1:]
            if fld == "E":
                # removing a declared edge shifts the attribute keys
                ea = []
                for a in cur["EA"]:
                    nv = {}
                    for kk, vv in a["vals"].items():
                        kk = int(kk)
                        if kk == i: continue
                        nv[str(kk - 1 if kk > i else kk)] = vv
                    ea.append(dict(a, vals=nv))
                c["EA"] = ea
                if c.get("late"): c["late"] = min(c["late"], max(len(c["E"]) - 1, 0)) or None
            if not attempt(c): i += 1
    # drop unused trailing vertices
    used = [x for fld in ("E", "F", "C") for r in cur[fld] for x in r]
    m = max([x for x in used if x >= 0] + [-1]) + 1
    if m < len(cur["V"]) and cur["build"] != "append": attempt(dict(cur, V=cur["V"][:max(m, 0)]))
    return cur


def search_on_break(rng, broken, mismatches):
    # broken table theorem / correspondence: volume scenarios of every cell kind through every container type
    out = []
    for i in range(240):
        sc = R.scenario(rng, "quick", degen=(i % 2 == 0))      # half of them: invalid edges / faces produced by completion
        out.append(_finish(rng, sc))
    return out


# ------------------------------------------------------------------------------------------------------------
# translated fragments
# ------------------------------------------------------------------------------------------------------------
def _tables_of(fn, unpack_src):
    """In function `fn` find, for K in (4, 8), the branch `if len(<unpack_src>) == K:` holding
         v.. = <unpack_src>
         faces_C = [ (v.., ..), ... ]
    and return {K: table of positions}."""
    found = {}
    for node in ast.walk(fn):
        if not isinstance(node, ast.If): continue
        t = node.test
        if isinstance(t, ast.Compare) and len(t.ops) == 1 and isinstance(t.ops[0], ast.Eq) and isinstance(t.left, ast.Constant) \
                and isinstance(t.comparators[0], ast.Call):
            t = ast.Compare(t.comparators[0], t.ops, [t.left])            # `4 == len(C)` reads as `len(C) == 4`
        if not (isinstance(t, ast.Compare) and len(t.ops) == 1 and isinstance(t.ops[0], ast.Eq) and isinstance(t.left, ast.Call)
                and isinstance(t.left.func, ast.Name) and t.left.func.id == "len" and len(t.left.args) == 1
                and isinstance(t.left.args[0], ast.Name) and t.left.args[0].id == unpack_src
                and isinstance(t.comparators[0], ast.Constant)):
            continue
        K = t.comparators[0].value
        names, table = None, None
        for st in node.body:
            if isinstance(st, ast.Assign) and len(st.targets) == 1:
                tg = st.targets[0]
                if isinstance(tg, ast.Tuple) and isinstance(st.value, ast.Name) and st.value.id == unpack_src:
                    names = [e.id for e in tg.elts]
                elif isinstance(tg, ast.Name) and tg.id == "faces_C" and isinstance(st.value, ast.List):
                    if names is None: raise T.TranslateError("faces_C assigned before the cell is unpacked")
                    table = []
                    for tup in st.value.elts:
                        if not isinstance(tup, ast.Tuple) or not all(isinstance(e, ast.Name) and e.id in names for e in tup.elts):
                            raise T.TranslateError("face entry is not a tuple of unpacked cell vertices")
                        table.append([names.index(e.id) for e in tup.elts])
        if names is None or table is None or len(names) != K:
            raise T.TranslateError(f"branch len({unpack_src})=={K}: unpacking / faces_C literal not recognised")
        if K in found: raise T.TranslateError(f"two branches for arity {K}")
        found[K] = table
    for K in (4, 8):
        if K not in found: raise T.TranslateError(f"no branch `len({unpack_src}) == {K}` with a literal face table")
    return found


def _adjacent_table(fn):
    names, table = None, None
    for node in ast.walk(fn):
        if isinstance(node, ast.Assign) and len(node.targets) == 1 and isinstance(node.targets[0], ast.Tuple):
            tg = node.targets[0]
            if isinstance(node.value, ast.Name) and node.value.id == "cell":
                names = [e.id for e in tg.elts]
            elif isinstance(node.value, ast.Tuple) and all(
                    isinstance(c, ast.Call) and isinstance(c.func, ast.Attribute) and c.func.attr == "face_id" for c in node.value.elts):
                if names is None: raise T.TranslateError("face_id tuple before the cell is unpacked")
                table = [[names.index(a.id) for a in c.args] for c in node.value.elts]
    if names is None or table is None:
        raise T.TranslateError("v0..v3 = cell / f0..f3 = face_id(...) not recognised")
    return table


def translate():
    sites, tabs = [], {}

    def s1():
        tree, _ = T.load("mouette/mesh/mesh_data.py")
        t = _tables_of(T.find_def(tree, "RawMeshData._complete_faces_from_cells"), "C")
        tabs["completeTet"], tabs["completeHex"] = t[4], t[8]
        return {"tet": t[4], "hex": t[8]}

    def s2():
        tree, _ = T.load("mouette/mesh/mesh_data.py")
        t = _tables_of(T.find_def(tree, "RawMeshData._generate_cell_faces"), "C")
        tabs["generateTet"], tabs["generateHex"] = t[4], t[8]
        return {"tet": t[4], "hex": t[8]}

    def s3():
        tree, _ = T.load("mouette/mesh/datatypes/volume.py")
        t = _adjacent_table(T.find_def(tree, "VolumeMesh._Connectivity._compute_adjacent_cell"))
        tabs["adjacentTet"] = t
        return {"tet": t}
    sites.append(T.site("mesh_data.py:_complete_faces_from_cells (tet/hex face tables)", s1))
    sites.append(T.site("mesh_data.py:_generate_cell_faces (tet/hex face tables)", s2))
    sites.append(T.site("volume.py:_compute_adjacent_cell (tet face table)", s3))
    body = "namespace Mouette.Generated.C02\n"
    for n in ("completeTet", "completeHex", "generateTet", "generateHex", "adjacentTet"):
        body += f"def {n} : List (List Nat) := {T.lean_nat_table(tabs.get(n, []))}\n"
    body += "end Mouette.Generated.C02\n"
    T.write_generated("C02Tables", body)
    from . import c02_structure
    sites += c02_structure.translate_structure()
    from ..gen import c02_translate
    sites += c02_translate.translate_bodies()
    return sites


# ------------------------------------------------------------------------------------------------------------
# which function of the anchor files is tied to the model how (goes into the evidence through core._source_map)
#   translated   a Generated definition is produced from the body on every run AND a bridge theorem of REQUIRED_THEOREMS uses it
#   modelled     hand-written in Model/Prepare.lean (or a primitive of Model/PrepareSource.lean), tied by the correspondence run
#   oracle-only  only exercised by the harness / oracle (no model counterpart)
# ------------------------------------------------------------------------------------------------------------
_MD, _MM, _BS, _DC = "mouette/mesh/mesh_data.py", "mouette/mesh/mesh.py", "mouette/mesh/datatypes/base.py", "mouette/mesh/data_container.py"
SOURCE_MAP = {
    # ---- mesh_data.py
    f"{_MD}::RawMeshData.__init__": "translated",                    # C02B.initFromMesh, initFresh / init_rewrap_bridge
    f"{_MD}::RawMeshData.id_vertices": "translated",                 # C02B.id* / accessors_source; every `for x in self.id_*` of the bodies goes through it
    f"{_MD}::RawMeshData.id_edges": "translated",                 # C02B.id* / accessors_source; every `for x in self.id_*` of the bodies goes through it
    f"{_MD}::RawMeshData.id_faces": "translated",                 # C02B.id* / accessors_source; every `for x in self.id_*` of the bodies goes through it
    f"{_MD}::RawMeshData.id_cells": "translated",                 # C02B.id* / accessors_source; every `for x in self.id_*` of the bodies goes through it
    f"{_MD}::RawMeshData.id_facecorners": "out-of-scope: not used by the construction code",
    f"{_MD}::RawMeshData.id_cellcorners": "out-of-scope: not used by the construction code",
    f"{_MD}::RawMeshData.dimensionality": "translated",              # C02B.dimensionalityProp / dimensionality_cache_source
    f"{_MD}::RawMeshData._compute_dimensionality": "translated",     # C02S.dimChain / dimensionality_bridge
    f"{_MD}::RawMeshData.prepare": "translated",                     # C02S.prepareProgram / prepare_follows_source_structure
    f"{_MD}::RawMeshData._prepare_vertices": "translated",           # C02B.prepareVertices / prepare_vertices_bridge
    f"{_MD}::RawMeshData._prepare_edges": "translated",              # C02B.prepareEdges / prepare_edges_refines
    f"{_MD}::RawMeshData._prepare_edges.is_valid": "translated",     # C02S.isValid / is_valid_bridge
    f"{_MD}::RawMeshData._prepare_faces": "translated",              # C02B.prepareFaces / prepare_faces_bridge (row-typed model)
    f"{_MD}::RawMeshData._generate_face_corners": "translated",      # C02B.genFaceCorners / gen_face_corners_bridge
    f"{_MD}::RawMeshData._prepare_cells": "translated",              # C02B.prepareCells / prepare_cells_bridge
    f"{_MD}::RawMeshData._generate_cell_corners": "translated",      # C02B.genCellCorners / gen_cell_corners_bridge
    f"{_MD}::RawMeshData._generate_cell_faces": "translated",        # C02B.genCellFaces / gen_cell_faces_refines
    f"{_MD}::RawMeshData._complete_edges_from_faces": "translated",  # C02B.completeEdges / complete_edges_bridge
    f"{_MD}::RawMeshData._complete_faces_from_cells": "translated",  # C02B.completeFaces / complete_faces_bridge
    # ---- mesh.py
    f"{_MM}::_instanciate_raw_mesh_data": "translated",              # C02S.instProgram / instantiate_follows_source_structure
    f"{_MM}::load": "translated",                                    # C02B.load / load_bridge, load_file_route (read_by_extension is C04's)
    f"{_MM}::save": "oracle-only",                                   # save -> load histories
    f"{_MM}::from_arrays": "translated",                             # C02B.fromArrays / from_arrays_bridge
    f"{_MM}::copy": "out-of-scope: copies a finished mesh, no construction from raw data (C12/C13)",
    f"{_MM}::merge": "out-of-scope: merges finished meshes (C16)",
    f"{_MM}::reorder_vertices": "out-of-scope: renumbering of a finished mesh",
    # ---- datatypes/base.py
    f"{_BS}::Mesh.__init__": "translated",                           # C02S.meshInitTable / mesh_init_bridge, rewrap_follows_mesh_init
    # ---- data_container.py
    f"{_DC}::_BaseDataContainer.__init__": "translated",   # C02B.baseInit / container_methods_source
    f"{_DC}::_BaseDataContainer.empty": "out-of-scope: abstract",
    f"{_DC}::_BaseDataContainer.clear": "out-of-scope: abstract",
    f"{_DC}::_BaseDataContainer.attributes": "translated",       # C02B.dcAttributes / accessors_source (iterated by _prepare_edges)
    f"{_DC}::_BaseDataContainer.create_attribute": "translated",   # C02B.dcCreateAttribute / create_attribute_source, create_flag_source / container_methods_source
    f"{_DC}::_BaseDataContainer.register_array_as_attribute": "out-of-scope: attribute API (C05); the harness creates dense attributes through create_attribute",
    f"{_DC}::_BaseDataContainer.delete_attribute": "out-of-scope: attribute API (C05)",
    f"{_DC}::_BaseDataContainer.has_attribute": "translated",   # C02B.dcHasAttr / accessors_source (called by the translated bodies)
    f"{_DC}::_BaseDataContainer.get_attribute": "translated",   # C02B.dcGetAttribute (handles are read through findAttr) / container_methods_source
    f"{_DC}::_BaseDataContainer.append": "out-of-scope: abstract",
    f"{_DC}::DataContainer.__init__": "translated",   # C02B.dcInit / container_methods_source
    f"{_DC}::DataContainer.__getitem__": "translated",   # C02B.dcGet / container_methods_source
    f"{_DC}::DataContainer.__setitem__": "translated",   # C02B.dcSet / container_methods_source
    f"{_DC}::DataContainer.__iter__": "translated",   # C02B.dcIter / container_methods_source
    f"{_DC}::DataContainer.__repr__": "out-of-scope: printing",
    f"{_DC}::DataContainer.__str__": "out-of-scope: printing",
    f"{_DC}::DataContainer.__len__": "translated",   # C02B.dcLen / accessors_source (called by the translated bodies)
    f"{_DC}::DataContainer.size": "out-of-scope: alias of __len__, not used by the construction code",
    f"{_DC}::DataContainer.empty": "translated",   # C02B.dcEmpty / accessors_source (called by the translated bodies)
    f"{_DC}::DataContainer.clear": "out-of-scope: not used by the construction code",
    f"{_DC}::DataContainer.append": "translated",                    # C02B.dataAppend / data_append_source (used by every X.append(..) of the bodies)
    f"{_DC}::DataContainer.__iadd__": "translated",   # C02B.dcIaddList, dcIaddCont (from_arrays goes through dcIaddList) / container_methods_source
    f"{_DC}::CornerDataContainer.__init__": "translated",   # C02B.cornerInit / container_methods_source
    f"{_DC}::CornerDataContainer.__getitem__": "oracle-only",        # later-query battery
    f"{_DC}::CornerDataContainer.element": "oracle-only",
    f"{_DC}::CornerDataContainer.adj": "oracle-only",
    f"{_DC}::CornerDataContainer.__iter__": "oracle-only",
    f"{_DC}::CornerDataContainer.__repr__": "out-of-scope: printing",
    f"{_DC}::CornerDataContainer.__str__": "out-of-scope: printing",
    f"{_DC}::CornerDataContainer.size": "out-of-scope: alias of __len__",
    f"{_DC}::CornerDataContainer.__len__": "translated",   # C02B.cornerLen / accessors_source (called by the translated bodies)
    f"{_DC}::CornerDataContainer.empty": "oracle-only",
    f"{_DC}::CornerDataContainer.clear": "out-of-scope: not used by the construction code",
    f"{_DC}::CornerDataContainer.append": "translated",              # C02B.cornerAppend / corner_append_source
    f"{_DC}::CornerDataContainer.__iadd__": "out-of-scope: not used by the construction code",
}


MANIFEST = {
    "level_text": ("Proof. Lean 4 theorems about an executable model of RawMeshData.prepare (face completion from cells, edge completion "
                   "from faces with the hard_edges flag, edge validity filter with attribute re-indexing, corner / cell-face generation, "
                   "dimensionality, class selection, re-wrapping, from_arrays): stored edges are (low, high) in range; the edge multiset is "
                   "declared valid edges + each missing undirected face side once; attributes follow their edges (sparse keys and dense "
                   "values); faces are declared + each missing cell face once, 4 per tetrahedron / 6 per hexahedron; corner records list "
                   "(element, owner) in element order; class = max(dim, highest element); only declared edges are flagged hard; "
                   "prepare is idempotent and stable under re-wrapping. The tet/hex face tables are re-extracted from the source with "
                   "Python ast on every run and the table theorems (tables agree, face i omits vertex i, consistent orientation, hex edges "
                   "covered twice) are re-checked by decide; so is the control skeleton (ordered steps of prepare() and their config guards, the "
                   "edge validity predicate, the hard_edges guard, corner append argument order, dimensionality chain, "
                   "_instanciate_raw_mesh_data, Mesh.__init__), each with a bridge theorem to the model; and (round 4) so are the function BODIES of "
                   "face completion, edge completion, vertex preparation (padding + int->float), face/cell corner generation, cell-face "
                   "generation and CornerDataContainer.append, compiled statement by statement and bridged to the model by fold "
                   "invariants, so that the model's prepare is proved to be the translated step program run on the translated bodies "
                   "(prepare_runs_translated_bodies; round 5: _prepare_edges - validity filter, rebuild with attribute re-indexing - "
                   "DataContainer.append, the numpy-row -> list conversions and RawMeshData.__init__/re-wrap are translated and bridged too; "
                   "file_route_source composes the construction with whatever record a file reader returns; round 6: from_arrays, load, the "
                   "dimensionality property and the container accessors / id_* properties are translated and bridged). prepare commutes with forgetting "
                   "the container type (list/tuple/numpy) of index rows and leaves no numpy row. The model is tied to the code by an exact container correspondence per "
                   "container type and a direct oracle including a later-query battery on numpy-built meshes."),
    "level_note": ("Trusted: Lean kernel + propext/Classical.choice/Quot.sound; the hand-written model (checked against the code on the "
                   "scenarios of each run only); the ast translator of the literal tables; Python set/dict semantics."),
    "technique": "Lean 4 proofs (fold invariants, counting lemmas, decide over translated tables) over an executable model; differential container correspondence",
}
