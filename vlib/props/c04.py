"""C04 — saving then loading a mesh is lossless within each format's vocabulary."""
import math, os, shutil, struct, tempfile, warnings

from ..gen import mesh as G
from ..gen import c04io as IO
from ..gen import c04_translate as CT
from .. import translate as T

PID = "C04"
TITLE = "Saving then loading a mesh is lossless within each format's vocabulary"
LEAN_MODULES = ["Mouette.Props.C04", "Mouette.Props.C04Source"]
REQUIRED_THEOREMS = [
    "medit_rows_bridge", "obj_load_save", "tet_load_save", "xyz_load_save", "medit_load_save", "medit_load_save_generated",
    "off_load_save_partial", "off_load_save_actual", "off_quad_refuted", "off_polygon_refuted",
    "stl_load_save_actual", "stl_load_save_partial", "stl_quad_refuted", "stl_polygon_refuted",
    "medit_vocabulary", "load_class",
    "geo_elements_load_save_partial", "geo_ptr_decode", "geo_quad_without_ptr_refuted", "geo_attr_chunk_partial",
    "medit_reads_reference",
    # round 2: interoperability for obj/off/tet/xyz, geogram attributes in context + cell_ptr, more translated tables
    "obj_reads_reference", "obj_read_by_reference", "off_reads_reference_actual", "off_reads_reference_partial",
    "off_read_by_reference", "tet_reads_reference", "tet_read_by_reference", "xyz_reads_reference", "xyz_read_by_reference",
    "geo_load_save_attrs_partial", "geo_attrs_come_back", "geo_attrs_nothing_else", "geo_reads_reference_mixed_cells",
    "geo_type_rows_bridge", "geo_byte_size_bridge", "geo_to_string_bridge", "obj_rows_bridge",
    "geo_typeOf_in_table", "geo_header_from_table", "obj_unlisted_prefix_ignored", "obj_listed_prefix_target",
    # round 3: file level geogram, save histories (translated guards of save()), second generation, representation independence
    "geo_file_load_save", "geo_parse_print", "save_guards_bridge", "save_ignore_from_table", "save_preserves_mesh", "save_history",
    "save_history_clearShared_refuted", "second_generation", "load_save_any_representation", "same_values_same_load",
    "stl_reader_soup", "stl_merge_keeps_soup",
    "ignored_save_is_save_of_restriction", "wireframe_keeps_all_edges",
    # round 4 (Props/C04Source.lean): writer bodies, extension dispatch and class choice translated from the source on every run
    "export_off_bridge", "export_tet_bridge", "export_xyz_bridge", "export_obj_bridge", "export_medit_bridge", "export_stl_bridge",
    "count_faces_source", "count_cells_source", "stl_formats_source", "obj_load_save_source", "tet_load_save_source",
    "xyz_load_save_source", "medit_load_save_source", "off_load_save_source_actual", "stl_load_save_source", "stl_header_count_source",
    "obj_read_by_reference_source", "off_read_by_reference_source", "tet_read_by_reference_source", "xyz_read_by_reference_source",
    "dispatch_bridge", "dispatch_pairs", "load_class_source", "load_dim_override_source",
    "import_xyz_bridge", "parse_tet_bridge", "xyz_round_trip_source", "tet_round_trip_source", "xyz_reads_reference_source",
    "tet_reads_reference_source",
    # round 5: parse_off_data, parse_vertex + parse_obj_data read from the source; reader . writer = restrict from the source for obj, off
    "parse_off_bridge", "off_record_bridge", "parse_obj_bridge", "obj_round_trip_source", "off_round_trip_source_actual",
    "off_round_trip_source_partial", "obj_reads_reference_source", "off_reads_reference_source_actual",
    "obj_save_load_pipeline_source", "tet_save_load_pipeline_source", "xyz_save_load_pipeline_source",
    # round 6: parse_field + the while-loop of import_medit read from the source, bridged to the line-by-line automaton
    "import_medit_bridge", "parse_field_bridge", "medit_round_trip_source", "medit_reads_reference_source", "medit_save_load_pipeline_source",
    "load_raw_source", "load_mesh_source", "save_content_source",
    # round 7: geogram import_attribute read from the source (the default-value test of blind C04-g / C04-i)
    "import_attribute_bridge", "import_attribute_dense_source", "import_attribute_nothing_else_source", "import_attribute_values_source",
    "import_wrappers_source", "export_stl_wrapper_source", "import_stl_wrapper_source",
    # round 8: geogram export_attribute and the chunk markers of is_chunk_header read from the source
    "export_attribute_bridge", "chunk_markers_bridge",
]
TRUSTED = [
    "Lean 4.33.0 kernel; axioms ⊆ {propext, Classical.choice, Quot.sound}",
    "T5: '{}'.format(float64) / float() round trip (theorem hypothesis `parse (fmt c) = some c`), sampled on adversarial doubles every run",
    "token-level models Mouette/Model/IO.lean, IOGeogram.lean tied to mouette/mesh/io/*.py by (a) token-exact comparison of the bytes "
    "mouette writes with the model's export, (b) model import vs mouette's load on mouette-written and reference-written files, "
    "(c) the translated dispatch table of import_medit; textual glue (split/strip/int()) is modelled, not verified",
    "round 4: the WRITERS of off, tet, xyz, medit, obj and binary stl, the READERS import_xyz and parse_tet_data, the extension dispatch and the class choice are no longer hand-modelled: "
    "their bodies are compiled from the working tree on every run (vlib/gen/c04_translate.py: Python string expressions -> token lines, "
    "statements -> concatenation / flatMap / if; this compiler and the vocabulary Model/IOSource.lean are trusted) and bridged to the models; "
    "scope assumptions of the compilation: no uv_coords / normals attribute, hasattr(mesh, container) true, IndexError of mesh.edges[e] / "
    "of a short starred format argument not modelled (hypothesis HardOk / guarded by len(face)==k)",
    "stl_reader (binary STL import) is external: modelled as 'returns the triangle soup of the file', compared as a multiset",
    "RawMeshData.prepare (completion of edges/faces) belongs to C02: the C04 model takes the prepared mesh content as its input",
]
ASSUMPTIONS = ["agreement model/implementation is established on the meshes explored in this run only",
               "coordinates are finite doubles (NaN/inf not generated); STL coordinates stay inside the binary32 range"]
RULE = ("round 3 adds: histories on one mesh object (save, save again, save to a second format vs a fresh copy, load->save->load), "
        "by-value snapshots of the mesh before/after every save, input representations (Python int, numpy int64/float32/float64 rows and "
        "scalars, tuples, Vec; faces/edges as tuples/numpy int32/int64 rows), empty and duplicated inputs, faces with a repeated vertex, load(dim=) override, attribute "
        "element types bool/int/float/complex/str incl. vector-valued. "
        "meshes: point clouds, polylines, triangle/quad/mixed/polygon surfaces (manifold generators of vlib/gen/mesh.py), tet and hex "
        "volumes, declared edges, geogram attributes (bool/int/float, arity 1-3, on vertices/edges/faces/corners/cells), adversarial "
        "doubles; x 7 formats x switches (export_edges_in_obj, complete_edges_from_faces, ignore_elements, re-wrap) x two scenarios "
        "(rt: mouette saves then loads; ref: an independent writer's file is loaded). non-trivial = distinct case whose save and load "
        "both succeeded on a mesh with at least one element beyond isolated vertices or with adversarial coordinates")

# every function / method defined in the files the property is anchored in.  "translated": a definition of Generated/C04*.lean is
# produced from that BODY on every run and a bridge theorem of Props/C04.lean / Props/C04Source.lean uses it (what is translated is
# said after the colon); "modelled": hand-written Lean model tied to the code by the correspondence run only; "oracle-only": only the
# Python oracle / reference codecs look at its behaviour.
_IO = "mouette/mesh/io/"
SOURCE_MAP = {
    _IO + "obj.py::import_obj": "translated: whole body (Generated.C04Wrap.importObj, import_wrappers_source); open/readlines -> token-level file is the glue",
    _IO + "obj.py::parse_vertex": "translated: whole body evaluated for a token without '/' (Generated.C04R.parseVertex, parse_obj_bridge)",
    _IO + "obj.py::parse_obj_data": "translated: whole body: line loop with its branch bodies, then the loop over the face records (Generated.C04R.objLine / objCorner / parseObj, parse_obj_bridge); vn / vt / corners with a texture or normal index leave the domain; also the prefix table (obj_rows_bridge)",
    _IO + "obj.py::export_obj": "translated: whole body, statement by statement (Generated.C04W.exportObj, export_obj_bridge), under 'no uv_coords / normals attribute'",
    _IO + "medit.py::parse_field": "translated: whole body (Generated.C04R.fieldRecord / parseField, parse_field_bridge, import_medit_bridge)",
    _IO + "medit.py::import_medit": "translated: whole body: the `while data:` loop with every branch (Generated.C04R.meditLoop / importMedit, import_medit_bridge: equal to the automaton stepMedit); also the (keyword, container, arity) table (medit_rows_bridge)",
    _IO + "medit.py::count_cells": "translated: whole body (Generated.C04W.countCells, count_cells_source)",
    _IO + "medit.py::count_faces": "translated: whole body (Generated.C04W.countFaces, count_faces_source)",
    _IO + "medit.py::export_medit": "translated: whole body, statement by statement (Generated.C04W.exportMedit, export_medit_bridge)",
    _IO + "geogram_ascii.py::Chunk.Type.from_string": "modelled: Model/IOGeogram.lean (chunk classes)",
    _IO + "geogram_ascii.py::Chunk.Container.from_string": "modelled: Model/IOGeogram.lean (container names)",
    _IO + "geogram_ascii.py::Chunk.Container.to_string": "modelled: Model/IOGeogram.lean (container names)",
    _IO + "geogram_ascii.py::Chunk.__init__": "modelled: Geo.parseFile (file -> chunk list)",
    _IO + "geogram_ascii.py::is_chunk_header": "translated: the three markers (Generated.C04GW.chunkMarkers, chunk_markers_bridge); the substring test is modelled as equality of the one-token line",
    _IO + "geogram_ascii.py::import_attribute": "translated: whole body over a sparse-attribute model (Generated.C04A.importAttribute, import_attribute_bridge, import_attribute_dense_source: any default value, every value comes back); the chunk model keeps the dense values",
    _IO + "geogram_ascii.py::import_geogram_ascii": "modelled: Geo.importGeo / importChunks",
    _IO + "geogram_ascii.py::export_attribute": "translated: whole body over the attribute view AView (Generated.C04GW.exportAttribute, export_attribute_bridge: = chunkLines (attrChunk g) of the chunk model)",
    _IO + "geogram_ascii.py::export_geogram_ascii": "modelled: Geo.exportGeo / exportChunks",
    _IO + "off.py::import_off": "translated: whole body (Generated.C04Wrap.importOff, import_wrappers_source)",
    _IO + "off.py::parse_off_data": "translated: whole body (Generated.C04R.offRecord / parseOff, parse_off_bridge); *_corners bookkeeping outside the token-level mesh, arity-2 branch outside the domain",
    _IO + "off.py::export_off": "translated: whole body (Generated.C04W.exportOff, export_off_bridge)",
    _IO + "tet.py::import_tet": "translated: whole body (Generated.C04Wrap.importTet, import_wrappers_source)",
    _IO + "tet.py::parse_tet_data": "translated: whole body (Generated.C04R.parseTet, parse_tet_bridge); deque()/strip()/split() are the token-level glue",
    _IO + "tet.py::export_tet": "translated: whole body (Generated.C04W.exportTet, export_tet_bridge)",
    _IO + "xyz.py::import_xyz": "translated: the line loop (Generated.C04R.xyzStep / importXyz, import_xyz_bridge); the normals side list / attribute is outside the property",
    _IO + "xyz.py::export_xyz": "translated: whole body, branch without normals (Generated.C04W.exportXyz, export_xyz_bridge)",
    _IO + "stl.py::is_stl_ascii": "oracle-only: exercised by the reference-written ASCII STL files",
    _IO + "stl.py::import_stl": "translated: whole body (Generated.C04Wrap.importStl, import_stl_wrapper_source); stl_reader.read itself is external (model: importStlMerged), the ASCII branch calls _import_stl_ascii (oracle-only)",
    _IO + "stl.py::_import_stl_ascii": "oracle-only: ASCII STL files of the reference writer are loaded and compared by the oracle; no Lean model",
    _IO + "stl.py::export_stl": "translated: whole body (Generated.C04Wrap.exportStl, export_stl_wrapper_source)",
    _IO + "stl.py::Binary_STL_Writer.__init__": "translated: `self.counter = 0` is the initial state of Generated.C04W.exportStl (export_stl_bridge)",
    _IO + "stl.py::Binary_STL_Writer._write_header": "translated: struct layout 80s+I and the counter written last (Generated.C04W.exportStl / stlFormats, stl_header_count_source)",
    _IO + "stl.py::Binary_STL_Writer._write_triangle": "translated: whole body (Generated.C04W.writeTriangle, export_stl_bridge)",
    _IO + "stl.py::Binary_STL_Writer.write": "translated: whole body (Generated.C04W.writeFace / exportStl, export_stl_bridge)",
    _IO + "io.py::read_by_extension": "translated: extension table + lookup shape (Generated.C04D.readRows, dispatch_bridge)",
    _IO + "io.py::write_by_extension": "translated: extension table + lookup shape (Generated.C04D.writeRows, dispatch_bridge)",
    "mouette/mesh/mesh.py::_instanciate_raw_mesh_data": "translated: whole body (Generated.C04D.instantiate, load_class_source, load_dim_override_source)",
    "mouette/mesh/mesh.py::load": "translated: whole body (Generated.C04G.load, load_raw_source, load_mesh_source)",
    "mouette/mesh/mesh.py::save": "translated: ignore_elements guards and how containers are emptied (Generated.C04Save, save_guards_bridge) + statement order adjacency / re-wrap / ignore block / write (Generated.C04G.saveContent, save_content_source); the geogram adjacency guard itself is not modelled",
    "mouette/mesh/mesh.py::from_arrays": "out-of-scope: not on the save/load path (construction from arrays: C01/C02)",
    "mouette/mesh/mesh.py::copy": "out-of-scope: not on the save/load path",
    "mouette/mesh/mesh.py::merge": "out-of-scope: not on the save/load path",
    "mouette/mesh/mesh.py::reorder_vertices": "out-of-scope: not on the save/load path",
}

CLASSES = ["PointCloud", "PolyLine", "SurfaceMesh", "VolumeMesh"]
INTERNAL_ATTRS = {"hard_edges", "adjacent_cell", "opposite_cell", "opposite_face", "corner_adjacent_facet",
                  "GEO::Mesh::facets::facet_ptr", "GEO::Mesh::cells::cell_ptr", "GEO::Mesh::cell_faces::adjacent_cell",
                  "GEO::Mesh::cell_facets::adjacent_cell"}

# ------------------------------------------------------------------------------------------------
# coordinates
# ------------------------------------------------------------------------------------------------
ADVERSARIAL = [0.1 + 0.2, 1e-300, 5e-324, 2.2250738585072014e-308, 1.7976931348623157e308, -0.0, 1.0 / 3.0, 2.0 ** 53 + 2, 1e22, 1e23,
               9007199254740993.0, 123456789.12345679, -1e-7, 4.35, 0.3, 1e16, 1.5e-5, 5e-5, -2.5e-10, 1e21, 1e15 + 0.5, 8.41e21,
               2.0 ** -1074 * 3, 6.02214076e23, -1.7976931348623157e308, 0.1, 100.0, 1e-5, 0.0001, 123456.7]


def _rand_double(rng):
    while True:
        bits = rng.getrandbits(64)
        x = struct.unpack("<d", struct.pack("<Q", bits))[0]
        if x == x and abs(x) != math.inf:
            return x


def _f32(x):
    import numpy as np
    return float(np.float32(x))


def adversarial_coords(rng, V, fmt):
    """replace some coordinates by adversarial doubles (STL: stay in binary32 range, include values that round)"""
    out = []
    for v in V:
        w = list(v)
        for k in range(3):
            r = rng.random()
            if r < 0.35:
                x = rng.choice(ADVERSARIAL) if rng.random() < 0.7 else _rand_double(rng)
                if fmt == "stl" and not (abs(x) < 3e38):
                    x = rng.choice([0.1, 1.0 / 3.0, -0.0, 1e-40, 16777217.0, 1e-46, 3.0e38])
                w[k] = x
        out.append(w)
    return out


def hexV(V):
    return [[IO.fhex(c) for c in v] for v in V]


# ------------------------------------------------------------------------------------------------
# generators
# ------------------------------------------------------------------------------------------------
def hex_grid(rng, nx, ny, nz):
    idx = lambda i, j, k: (i * (ny + 1) + j) * (nz + 1) + k
    V = [[G.dy(i + rng.uniform(-.2, .2)), G.dy(j + rng.uniform(-.2, .2)), G.dy(k + rng.uniform(-.2, .2))]
         for i in range(nx + 1) for j in range(ny + 1) for k in range(nz + 1)]
    C = []
    for i in range(nx):
        for j in range(ny):
            for k in range(nz):
                C.append([idx(i, j, k), idx(i + 1, j, k), idx(i + 1, j + 1, k), idx(i, j + 1, k),
                          idx(i, j, k + 1), idx(i + 1, j, k + 1), idx(i + 1, j + 1, k + 1), idx(i, j + 1, k + 1)])
    return V, C


def gen_attrs(rng, kinds, exotic=False):
    conts = ["vertices"]
    if "E" in kinds: conts.append("edges")
    if "F" in kinds: conts += ["faces", "face_corners"]
    if "C" in kinds: conts += ["cells", "cell_corners"]
    attrs = []
    for j in range(rng.randint(1, 4)):
        ty = rng.choice(["bool", "int", "float"])
        if exotic and j == 0: ty = rng.choice(["complex", "string"])
        ar = rng.choice([1, 1, 2, 3])
        pool = []
        for _ in range(rng.randint(3, 17)):
            row = []
            for _ in range(ar):
                if ty == "bool": row.append(rng.random() < 0.5)
                elif ty == "int": row.append(rng.choice([0, 0, 1, -3, 7, 2 ** 31 - 1, 12345, -1]))
                elif ty == "complex": row.append(str(complex(rng.choice([0, 1, -2.5]), rng.choice([0, 2, 0.5]))))
                elif ty == "string": row.append(rng.choice(["", "a", "hello", "x_1"]))
                else: row.append(IO.fhex(rng.choice([0.0, 0.0] + ADVERSARIAL[:12]) if rng.random() < 0.7 else rng.uniform(-5, 5)))
            pool.append(row)
        if ty == "string": ar = 1
        pool = [row[:ar] for row in pool]
        attrs.append({"on": rng.choice(conts), "name": f"{ty[0]}a{j}", "type": ty, "arity": ar, "pool": pool})
    return attrs


def base_mesh(rng, tier, want=None):
    big = tier != "quick"
    kind = want or rng.choice(["pc", "poly", "tri", "quad", "mixed", "polygon", "tet", "hex", "tri+edges", "tet+hex", "tet+tri", "dup", "empty", "degen"])
    E, F, C = [], [], []
    if kind == "empty":
        V = []
    elif kind == "degen":
        V = [[0, 0, 0], [1, 0, 0], [1, 1, 0], [0, 1, 0], [2, 0.5, 1]]
        F = rng.choice([[[0, 1, 2], [0, 2, 2]], [[0, 1, 2, 1], [2, 1, 4]], [[0, 1, 2, 3, 1], [2, 1, 4]], [[3, 3, 0], [0, 1, 2]]])
    elif kind == "dup":
        V = [[0, 0, 0], [1, 0, 0], [1, 1, 0], [0, 1, 0], [2, 0.5, 1]]
        F = [[0, 1, 2], [0, 1, 2], [0, 2, 3], [2, 1, 4], [0, 2, 3]] if rng.random() < 0.5 else [[0, 1, 2, 3], [0, 1, 2, 3], [2, 1, 4]]
    elif kind == "pc":
        n = rng.randint(1, 12)
        V = [[G.dy(rng.uniform(-4, 4)) for _ in range(3)] for _ in range(n)]
    elif kind == "poly":
        p = G.random_polyline(rng, 30 if big else 12); V, E = p["V"], p["E"]
        if rng.random() < 0.5: E = [[b, a] if rng.random() < 0.4 else [a, b] for a, b in E]
    elif kind in ("tri", "tri+edges"):
        s = G.random_surface(rng, max_faces=200 if big else 24, tri_only=True); V, F = s["V"], s["F"]
    elif kind == "quad":
        nu, nv = rng.randint(2, 7 if big else 4), rng.randint(2, 7 if big else 4)
        V, F = G.grid(rng, nu, nv, tri=False)
        F = G.rotate_faces(rng, F)
    elif kind in ("mixed", "polygon"):
        for _ in range(20):
            s = G.random_surface(rng, max_faces=200 if big else 24); V, F = s["V"], s["F"]
            ar = {len(f) for f in F}
            if kind == "mixed" and 3 in ar and 4 in ar: break
            if kind == "polygon" and any(a > 4 for a in ar): break
        else:
            V = [[0, 0, 0], [1, 0, 0], [1, 1, 0], [0, 1, 0], [-.5, .5, .25], [.5, -1, 0]]
            F = [[0, 1, 2, 3, 4], [1, 0, 5]] if kind == "polygon" else [[0, 1, 2, 3], [1, 0, 5]]
    elif kind == "tet":
        t = G.random_tets(rng, max_cells=120 if big else 12, orient=rng.choice(["positive", "mixed"])); V, C = t["V"], t["C"]
    elif kind == "hex":
        V, C = hex_grid(rng, rng.randint(1, 3 if big else 2), rng.randint(1, 2), 1)
    elif kind == "tet+tri":
        t = G.random_tets(rng, max_cells=60 if big else 8, orient="positive"); V, C = t["V"], t["C"]
        loc = [(1, 3, 2), (0, 2, 3), (3, 1, 0), (0, 1, 2)]
        F = [[C[i][j] for j in loc[rng.randrange(4)]] for i in rng.sample(range(len(C)), min(len(C), rng.randint(1, 3)))]
    elif kind == "tet+hex":
        V, C = hex_grid(rng, 1, 1, 1)
        V = V + [[0.5, 0.5, 2.0]]
        C = C + [[4, 5, 6, 8]]
    V = [[float(c) for c in v] for v in V]
    if kind == "tri+edges" or (F and kind != "degen" and rng.random() < 0.3):      # (sides of a degenerate face can be self-loops: no declared edges there)
        # declared (hard) edges: some are sides of faces, some are not
        sides = sorted({(min(f[i], f[(i + 1) % len(f)]), max(f[i], f[(i + 1) % len(f)])) for f in F for i in range(len(f))})
        cand = rng.sample(sides, min(len(sides), rng.randint(1, 4)))
        for _ in range(rng.randint(0, 2)):
            a, b = rng.randrange(len(V)), rng.randrange(len(V))
            if a != b and (min(a, b), max(a, b)) not in cand: cand.append((min(a, b), max(a, b)))
        E = [[b, a] if rng.random() < 0.3 else [a, b] for a, b in cand]
    return kind, V, E, F, C


def _set_rep(rng, case):
    """hand the same mesh to mouette in another input representation (int / numpy scalars / float32 / tuples / Vec …)"""
    import numpy as np
    rep = rng.choice(REPS[1:])
    V = [[IO.unhex(c) for c in v] for v in case["V"]]
    if rep in ("int", "npint"):
        V = [[float(max(-10 ** 6, min(10 ** 6, round(c)))) + 0.0 for c in v] for v in V]
    elif rep == "f32":
        V = [[float(np.float32(c)) if abs(c) < 3e38 else 1.5 for c in v] for v in V]
    case["V"] = hexV(V)
    case["rep"] = rep
    case["erep"] = rng.choice(EREPS)


def cases(rng, tier):
    n_rt, n_ref = (2400, 1000) if tier == "quick" else (14000, 6000)
    wants = ["pc", "poly", "tri", "quad", "mixed", "polygon", "tet", "hex", "tri+edges", "tet+hex", "tet+tri", "dup", "empty", "degen"]
    # one deterministic sweep kind x format first, then random
    sweep = [(k, f) for k in wants for f in IO.FORMATS]
    for i in range(n_rt):
        if i < len(sweep): kind, fmt = sweep[i]
        else: kind, fmt = None, rng.choice(IO.FORMATS)
        kind, V, E, F, C = base_mesh(rng, tier, kind)
        if rng.random() < (0.5 if i >= len(sweep) else 0.2):
            V = adversarial_coords(rng, V, fmt)
        elif fmt == "stl" and rng.random() < 0.5:
            V = [[_f32(c) for c in v] for v in V]
        case = {"sc": "rt", "fmt": fmt, "tag": kind, "V": hexV(V), "E": E, "F": F, "C": C,
                "cfg": {"ee": 1, "ce": 1}, "ign": [], "rewrap": 0}
        r = rng.random()
        if i >= len(sweep):
            if fmt == "obj" and r < 0.35: case["cfg"] = {"ee": rng.choice([0, 1]), "ce": rng.choice([0, 1])}
            elif fmt in ("mesh", "geogram_ascii") and r < 0.15: case["cfg"] = {"ee": 1, "ce": 0}
            elif r < 0.47 and fmt in ("obj", "mesh", "geogram_ascii", "off"):
                case["ign"] = rng.choice([["edges"], ["faces"], ["cells"], ["edges", "faces"], ["faces", "cells"]])
            elif r < 0.55 and F and not C and fmt in ("obj", "mesh"):
                case["rewrap"] = 1
        if fmt == "geogram_ascii" and rng.random() < 0.6:
            case["attrs"] = gen_attrs(rng, ("E" if (E or F or C) else "") + ("F" if (F or C) else "") + ("C" if C else ""),
                                      exotic=(i >= len(sweep) and rng.random() < 0.12))
        if i >= len(sweep) and rng.random() < 0.3:
            _set_rep(rng, case)
        if i >= len(sweep) and rng.random() < 0.08:
            case["dim"] = rng.choice([0, 1, 2, 3])
        yield case
    # every (mesh class x format x non-empty ignore set) combination, under the default config
    import itertools
    subsets = [list(c) for r in (1, 2, 3) for c in itertools.combinations(["edges", "faces", "cells"], r)]
    for kind in ("poly", "tri+edges", "quad", "tet", "hex", "tet+tri"):
        for fmt in IO.FORMATS:
            for ign in subsets:
                if fmt == "stl" and ("faces" in ign or kind == "poly"): continue     # 0-facet STL: open finding, aborts the reader
                k2, V, E, F, C = base_mesh(rng, "quick", kind)
                if fmt == "stl": V = [[_f32(c) for c in v] for v in V]
                yield {"sc": "rt", "fmt": fmt, "tag": k2, "V": hexV(V), "E": E, "F": F, "C": C,
                       "cfg": {"ee": 1, "ce": 1}, "ign": ign, "rewrap": 0}
    # histories on one mesh object: save / save again / save to another format / load and save again
    n_hist = 260 if tier == "quick" else 1500
    for i in range(n_hist):
        kind, V, E, F, C = base_mesh(rng, tier, wants[i % len(wants)] if i < 2 * len(wants) else None)
        fmt, fmt2 = rng.choice(IO.FORMATS), rng.choice(IO.FORMATS)
        if rng.random() < 0.3: V = adversarial_coords(rng, V, "stl" if "stl" in (fmt, fmt2) else fmt)
        case = {"sc": "hist", "fmt": fmt, "fmt2": fmt2, "tag": kind, "V": hexV(V), "E": E, "F": F, "C": C,
                "cfg": {"ee": 1, "ce": 1}, "ign": [], "rewrap": 0}
        if rng.random() < 0.3 and fmt in ("obj", "mesh", "geogram_ascii", "off"):
            case["ign"] = rng.choice([["edges"], ["faces"], ["cells"], ["edges", "faces"], ["faces", "cells"], ["edges", "cells"], ["edges", "faces", "cells"]])
        if "geogram_ascii" in (fmt, fmt2) and rng.random() < 0.5:
            case["attrs"] = gen_attrs(rng, ("E" if (E or F or C) else "") + ("F" if (F or C) else "") + ("C" if C else ""))
        if rng.random() < 0.3: _set_rep(rng, case)
        yield case
    styles = {"stl": ["plain", "ascii"]}
    for i in range(n_ref):
        fmt = IO.FORMATS[i % 7] if i < 28 else rng.choice(IO.FORMATS)
        want = {"tet": ["tet", "hex", "pc"], "xyz": ["pc"], "off": ["tri", "quad", "mixed", "polygon", "pc"],
                "stl": ["tri"], "obj": ["pc", "poly", "tri", "quad", "mixed", "polygon", "tri+edges", "degen"],
                "mesh": ["pc", "poly", "tri", "quad", "mixed", "tet", "hex", "tri+edges", "tet+hex", "tet+tri"],
                "geogram_ascii": ["pc", "poly", "tri", "quad", "mixed", "polygon", "tet", "hex", "tri+edges", "tet+hex", "tet+tri"]}[fmt]
        kind, V, E, F, C = base_mesh(rng, tier, rng.choice(want))
        if rng.random() < 0.5: V = adversarial_coords(rng, V, fmt)
        if fmt == "stl": V = [[_f32(c) for c in v] for v in V]
        E = [sorted(e) for e in E]
        E = [e for k, e in enumerate(E) if e not in E[:k]]
        content = {"V": hexV(V), "E": E, "nd": len(E), "hard": None, "F": F, "C": C, "attrs": []}
        if fmt == "geogram_ascii" and rng.random() < 0.5:
            ats = gen_attrs(rng, ("E" if E else "") + ("F" if F else "") + ("C" if C else ""))
            sizes = {"vertices": len(V), "edges": len(E), "faces": len(F), "face_corners": sum(map(len, F)),
                     "cells": len(C), "cell_corners": sum(map(len, C))}
            for a in ats:
                n = sizes[a["on"]]
                vals = [list(a["pool"][k % len(a["pool"])]) for k in range(n)]
                if a["type"] != "float": vals = [[int(x) for x in row] for row in vals]
                content["attrs"].append({"on": a["on"], "name": a["name"], "type": a["type"], "arity": a["arity"], "values": vals})
        r = IO.restrict(content, fmt)
        yield {"sc": "ref", "fmt": fmt, "tag": kind, "V": r["V"], "E": r["E"], "F": r["F"], "C": r["C"],
               "attrs": r["attrs"], "style": rng.choice(styles.get(fmt, ["plain", "spaced"]))}


# ------------------------------------------------------------------------------------------------
# driving the implementation
# ------------------------------------------------------------------------------------------------
_MEMO = {}


def _err(e):
    n = type(e).__name__
    return {"ValueError": "err:Value", "IndexError": "err:Index", "KeyError": "err:Key", "TypeError": "err:Type"}.get(n, f"err:Other({n})")


class _Config:
    def __init__(self, cfg):
        self.cfg = cfg

    def __enter__(self):
        from mouette import config
        self.saved = (config.export_edges_in_obj, config.complete_edges_from_faces)
        config.export_edges_in_obj = bool(self.cfg.get("ee", 1))
        config.complete_edges_from_faces = bool(self.cfg.get("ce", 1))

    def __exit__(self, *a):
        from mouette import config
        config.export_edges_in_obj, config.complete_edges_from_faces = self.saved


def _pyval(x):
    if hasattr(x, "item"): x = x.item()
    return x


def _dense_attr(attr, n):
    ty = attr.type.name.lower()
    rows = []
    for i in range(n):
        v = attr[i]
        row = [_pyval(x) for x in v] if attr.elemsize > 1 else [_pyval(v)]
        if ty == "float": row = [IO.fhex(x) for x in row]
        elif ty in ("bool", "int"): row = [int(x) for x in row]
        elif ty == "complex": row = [str(complex(x)) for x in row]
        else: row = [str(x) for x in row]
        rows.append(row)
    return {"type": ty, "arity": int(attr.elemsize), "values": rows}


CONTS = ["vertices", "edges", "faces", "face_corners", "cells", "cell_corners"]


def snapshot(m, with_attrs=False):
    """plain-data content of a mouette mesh / RawMeshData (public containers only)"""
    c = {"V": [[IO.fhex(x) for x in v] for v in m.vertices], "E": [], "F": [], "C": [], "hard": None, "attrs": []}
    for v in c["V"]:
        if len(v) != 3: raise ValueError("vertex without 3 coordinates")
    if hasattr(m, "edges"):
        c["E"] = [[int(a), int(b)] for a, b in m.edges]
        if m.edges.has_attribute("hard_edges"):
            c["hard"] = [int(e) for e in m.edges.get_attribute("hard_edges")]
    if hasattr(m, "faces"): c["F"] = [[int(i) for i in f] for f in m.faces]
    if hasattr(m, "cells"): c["C"] = [[int(i) for i in x] for x in m.cells]
    if with_attrs:
        for cn in CONTS:
            if not hasattr(m, cn): continue
            cont = getattr(m, cn)
            for name in cont.attributes:
                d = _dense_attr(cont.get_attribute(name), len(cont))
                d.update({"on": cn, "name": name})
                c["attrs"].append(d)
    return c


REPS = ["float", "int", "npint", "f32", "np64", "tuple", "vec", "npscalar"]
EREPS = ["list", "tuple", "np64", "np32"]


def _rep_vertices(V, rep):
    """the same coordinates handed to mouette in another container / number type (values unchanged)"""
    import numpy as np
    X = [[IO.unhex(c) for c in v] for v in V]
    if rep == "int": return [[int(c) for c in v] for v in X]
    if rep == "npint": return list(np.array(X, dtype=np.int64).reshape(-1, 3))
    if rep == "f32": return list(np.array(X, dtype=np.float32).reshape(-1, 3))
    if rep == "np64": return list(np.array(X, dtype=np.float64).reshape(-1, 3))
    if rep == "tuple": return [tuple(v) for v in X]
    if rep == "npscalar": return [[np.float64(c) for c in v] for v in X]
    if rep == "vec":
        import mouette as M
        return [M.Vec(*v) for v in X]
    return X


def _rep_elems(L, rep, edge=False):
    import numpy as np
    if rep == "tuple": return [tuple(e) for e in L]
    if rep == "np64": return [np.array(e, dtype=np.int64) for e in L]
    if rep == "np32": return [np.array(e, dtype=np.int32) for e in L]
    return [tuple(e) for e in L] if edge else [list(e) for e in L]


PYT = {"bool": bool, "int": int, "float": float, "complex": complex, "string": str}


def _attr_value(ty, x):
    if ty == "float": return IO.unhex(x)
    if ty == "complex": return complex(x)
    return PYT[ty](x)


def build_mesh(case):
    from mouette.mesh.mesh_data import RawMeshData
    from mouette.mesh.mesh import _instanciate_raw_mesh_data
    r = RawMeshData()
    r.vertices += _rep_vertices(case["V"], case.get("rep", "float"))
    er = case.get("erep", "list")
    r.edges += _rep_elems(case["E"], er if er != "np32" else "np64", edge=True)
    r.faces += _rep_elems(case["F"], er)
    r.cells += _rep_elems(case["C"], er if er in ("list", "tuple") else "list")     # numpy rows as cells: C02/C03's open findings
    m = _instanciate_raw_mesh_data(r)
    if case.get("rewrap"):
        m = _instanciate_raw_mesh_data(RawMeshData(m))
    for a in case.get("attrs", []) if case["sc"] in ("rt", "hist") else []:
        if not hasattr(m, a["on"]): continue
        cont = getattr(m, a["on"])
        at = cont.create_attribute(a["name"], PYT[a["type"]], a["arity"])
        for i in range(len(cont)):
            row = [_attr_value(a["type"], x) for x in a["pool"][i % len(a["pool"])]]
            at[i] = row if a["arity"] > 1 else row[0]
    return m


_PROBE = {}


def _probe_load(path, data):
    """mouette.mesh.load(path) in a child interpreter (used only for files that can kill the process)"""
    import subprocess, sys
    if data in _PROBE: return _PROBE[data]
    code = ("import sys,warnings; warnings.simplefilter('ignore'); import mouette as M\n"
            "try:\n  m = M.mesh.load(sys.argv[1]); print('OK', type(m).__name__)\n"
            "except Exception as e:\n  print('EXC', type(e).__name__, e)\n")
    p = subprocess.run([sys.executable, "-c", code, path], stdout=subprocess.PIPE, stderr=subprocess.PIPE, text=True, timeout=120,
                       env=dict(os.environ))
    o = p.stdout.strip().split("\n")[-1] if p.stdout.strip() else ""
    if p.returncode == 0 and o.startswith("OK "): r = ("ok", o.split()[1])
    elif p.returncode == 0 and o.startswith("EXC "): r = ("raise", f"err:Other({o.split()[1]})", o[4:])
    else: r = ("abort", "err:Other(ProcessAbort)", f"the interpreter aborted (exit status {p.returncode}): {p.stderr.strip()[:160]}")
    _PROBE[data] = r
    return r


def _run(case):
    key = repr(sorted(case.items(), key=lambda kv: kv[0]))
    if key in _MEMO: return _MEMO[key]
    warnings.simplefilter("ignore")
    import mouette as M
    R = {"stage": "build"}
    fmt = case["fmt"]
    d = tempfile.mkdtemp(prefix="c04_")
    try:
        path = os.path.join(d, "m." + fmt)
        with _Config(case.get("cfg", {})):
            if case["sc"] == "rt":
                m = build_mesh(case)
                R["cls0"] = type(m).__name__
                if fmt == "geogram_ascii" and R["cls0"] == "VolumeMesh":
                    try:
                        m.connectivity._compute_adjacent_cell()     # what save() does first; idempotent
                        adj = m.cell_faces.get_attribute("adjacent_cell")
                        R["adj"] = [int(adj[(ic, k)]) for ic, c in enumerate(m.cells) for k in range(len(c))]
                    except Exception as e:  # noqa
                        R["adj_err"] = _err(e)
                c0 = snapshot(m, with_attrs=(fmt == "geogram_ascii"))
                nd = len(case["E"]) if (case["F"] or case["C"]) and case.get("cfg", {}).get("ce", 1) else len(c0["E"])
                c0["nd"] = min(nd, len(c0["E"]))
                fc_ok = (not hasattr(m, "face_corners")) or [int(x) for x in m.face_corners] == [i for f in c0["F"] for i in f]
                R["content0"], R["fc_ok"] = c0, fc_ok
                R["stage"] = "save"
                try:
                    ign = set(case["ign"]) if case["ign"] else None
                    M.mesh.save(m, path, ignore_elements=ign)
                except Exception as e:  # noqa
                    R["save_err"] = _err(e); R["save_exc"] = f"{type(e).__name__}: {e}"
                    _MEMO[key] = R; return R
            else:
                data = IO.ref_write(fmt, {"V": case["V"], "E": case["E"], "F": case["F"], "C": case["C"], "attrs": case.get("attrs", [])},
                                    case.get("style", "plain"))
                with open(path, "wb") as f: f.write(data if isinstance(data, bytes) else data.encode())
            if not os.path.exists(path):
                R["save_err"] = "err:NoFile"; R["save_exc"] = "save returned without writing a file"
                _MEMO[key] = R; return R
            R["data"] = open(path, "rb").read()
            R["toks"] = IO.tokenize(fmt, R["data"])
            R["stage"] = "load-raw"
            empty_stl = fmt == "stl" and R["data"][:5] != b"solid" and len(R["data"]) >= 84 and struct.unpack("<I", R["data"][80:84])[0] == 0
            if empty_stl:
                # stl_reader may abort the whole interpreter on a binary STL without facets: probe it in a subprocess
                pr = _probe_load(path, R["data"])
                if pr[0] == "ok":
                    R["raw"] = {"V": [], "E": [], "F": [], "C": [], "attrs": []}; R["cls"] = CLASSES.index(pr[1]); R["full"] = dict(R["raw"])
                else:
                    R["raw_err"] = pr[1]; R["raw_exc"] = pr[2]; R["cls_err"] = pr[1]
                _MEMO[key] = R; return R
            try:
                raw = M.mesh.load(path, raw=True)
                R["raw"] = snapshot(raw, with_attrs=(fmt == "geogram_ascii"))
                if fmt == "geogram_ascii" and hasattr(raw, "cell_faces") and len(raw.cells) > 0:
                    # the cell adjacency stored in the file (attribute adjacent_cell of the cell facets) as the loader hands it back
                    try:
                        oc = raw.cell_faces.get_attribute("opposite_cell") if raw.cell_faces.has_attribute("opposite_cell") else None
                        R["adj_loaded"] = None if oc is None else [int(oc[i]) for i in range(sum(len(c) for c in raw.cells))]
                    except Exception as e:  # noqa
                        R["adj_loaded"] = f"{type(e).__name__}: {e}"
            except Exception as e:  # noqa
                R["raw_err"] = _err(e); R["raw_exc"] = f"{type(e).__name__}: {e}"
            R["stage"] = "load"
            try:
                L = M.mesh.load(path)
                R["cls"] = CLASSES.index(type(L).__name__)
                R["full"] = snapshot(L)
            except Exception as e:  # noqa
                R["cls_err"] = _err(e); R["cls_exc"] = f"{type(e).__name__}: {e}"
            if case.get("dim") is not None and "cls" in R:
                try:
                    R["cls_dim"] = CLASSES.index(type(M.mesh.load(path, dim=case["dim"])).__name__)
                except Exception as e:  # noqa
                    R["cls_dim_err"] = _err(e)
    finally:
        shutil.rmtree(d, ignore_errors=True)
    _MEMO[key] = R
    if len(_MEMO) > 4000: _MEMO.pop(next(iter(_MEMO)))
    return R


def _view(c):
    """what the caller can see of a mesh, by value (internal attributes excluded)"""
    return {"vertices": c["V"], "edges": c["E"], "faces": c["F"], "cells": c["C"], "hard_edges": c.get("hard"),
            "attributes": sorted(([a["on"], a["name"], a["type"], a["arity"], a["values"]] for a in c.get("attrs", [])
                                  if a["name"] not in INTERNAL_ATTRS), key=lambda t: (t[0], t[1]))}


def _loadable(fmt, data):
    """False for the 0-facet binary STL that makes stl_reader abort the interpreter (open finding C04/stl/no-face)"""
    return not (fmt == "stl" and data[:5] != b"solid" and len(data) >= 84 and struct.unpack("<I", data[80:84])[0] == 0)


def _run_hist(case):
    """one mesh object used several times: save, save again, save to a second format, and a second generation
    (load the first file, save it again, load that)."""
    key = "H" + repr(sorted(case.items(), key=lambda kv: kv[0]))
    if key in _MEMO: return _MEMO[key]
    warnings.simplefilter("ignore")
    import mouette as M
    H = {}
    fmt, fmt2 = case["fmt"], case["fmt2"]
    d = tempfile.mkdtemp(prefix="c04h_")
    rd = lambda p: open(p, "rb").read()
    try:
        with _Config(case.get("cfg", {})):
            m = build_mesh(case)
            H["s0"] = _view(snapshot(m, with_attrs=True))
            ign = set(case["ign"]) if case["ign"] else None
            p1, p1b, p2, p2f, p3 = (os.path.join(d, n) for n in ("a." + fmt, "a2." + fmt, "b." + fmt2, "bf." + fmt2, "c." + fmt))
            try:
                M.mesh.save(m, p1, ignore_elements=ign)
            except Exception as e:  # noqa
                H["err1"] = _err(e); _MEMO[key] = H; return H
            H["s1"] = _view(snapshot(m, with_attrs=True))
            try:
                M.mesh.save(m, p1b, ignore_elements=ign)
                H["same_twice"] = (rd(p1) == rd(p1b)) if os.path.exists(p1) and os.path.exists(p1b) else None
            except Exception as e:  # noqa
                H["err1b"] = f"{type(e).__name__}: {e}"
            # a second format, on the used object and on a fresh one
            try:
                M.mesh.save(m, p2)
                H["s2"] = _view(snapshot(m, with_attrs=True))
                used = rd(p2) if os.path.exists(p2) else None
            except Exception as e:  # noqa
                H["err2"] = f"{type(e).__name__}: {e}"; used = None
            try:
                M.mesh.save(build_mesh(case), p2f)
                fresh = rd(p2f) if os.path.exists(p2f) else None
            except Exception as e:  # noqa
                H["err2f"] = f"{type(e).__name__}: {e}"; fresh = None
            if "err2" in H and "err2f" not in H: H["used_raises"] = H["err2"]
            elif used is not None and fresh is not None:
                H["used_eq_fresh"] = (IO.tokenize(fmt2, used) == IO.tokenize(fmt2, fresh))
            # second generation
            if os.path.exists(p1) and _loadable(fmt, rd(p1)):
                try:
                    c1 = snapshot(M.mesh.load(p1, raw=True), with_attrs=(fmt == "geogram_ascii"))
                    L1 = M.mesh.load(p1)
                    M.mesh.save(L1, p3)
                    if _loadable(fmt, rd(p3)):
                        c2 = snapshot(M.mesh.load(p3, raw=True), with_attrs=(fmt == "geogram_ascii"))
                        H["gen"] = (c1, c2)
                except Exception as e:  # noqa
                    H["gen_err"] = f"{type(e).__name__}: {e}"
    finally:
        shutil.rmtree(d, ignore_errors=True)
    _MEMO[key] = H
    return H


def _oracle_hist(case):
    H = _run_hist(case)
    fmt, fmt2 = case["fmt"], case["fmt2"]
    out = []

    def add(key, what, detail=""):
        if not any(f["key"] == key for f in out): out.append({"key": key, "what": what, "detail": detail})
    if "err1" in H: return out          # a first save that raises is the business of the rt family
    pre = "C04/save-ignore_elements" if case["ign"] else f"C04/{fmt}"
    for tag, nm in (("s1", f"save to .{fmt}" + (f" with ignore_elements={sorted(case['ign'])}" if case["ign"] else "")),
                    ("s2", f"a following save to .{fmt2}")):
        if tag in H:
            for fld in ("vertices", "edges", "faces", "cells", "hard_edges", "attributes"):
                if H[tag][fld] != H["s0"][fld]:
                    add(f"{pre if tag == 's1' else 'C04/' + fmt2}/save-changes-mesh/{fld}",
                        f"{nm} changed the {fld} of the mesh object being saved ({str(H['s0'][fld])[:70]} -> {str(H[tag][fld])[:70]})")
            if H[tag] != H["s0"]: break
    if "err1b" in H: add(f"C04/{fmt}/second-save-raises", f"saving the same mesh a second time to .{fmt} raised {H['err1b'][:100]}")
    elif H.get("same_twice") is False: add(f"C04/{fmt}/second-save-differs", f"saving the same mesh twice to .{fmt} wrote two different files")
    clean1 = H.get("s1") == H["s0"]
    if clean1:      # otherwise the difference below is a consequence of the change already reported
        if "used_raises" in H:
            add(f"C04/{fmt2}/save-on-used-mesh-raises", f"saving to .{fmt2} a mesh already saved to .{fmt} raised {H['used_raises'][:100]} (a fresh copy saves fine)")
        elif H.get("used_eq_fresh") is False:
            add(f"C04/{fmt2}/save-on-used-mesh-differs", f"a mesh already saved to .{fmt} is written to .{fmt2} differently from a fresh copy of the same mesh")
    # second generation: only where the first generation is right (the rt family owns the first generation)
    if "gen" in H or "gen_err" in H:
        rt_case = {k: v for k, v in case.items() if k != "fmt2"}; rt_case["sc"] = "rt"
        if not _oracle(rt_case):
            if "gen_err" in H:
                add(f"C04/{fmt}/second-generation-raises", f"load -> save -> load of a .{fmt} file raised {H['gen_err'][:120]}")
            else:
                c1, c2 = H["gen"]
                exp = dict(c1, E_up=None)      # the loaded object carries the edges implied by its faces: they may be written
                if c1["C"]: c2 = dict(c2, F=c2["F"][:len(c1["F"])])     # … and the faces implied by its cells (appended after the declared ones)
                for kind, what in diff_content(exp, c2, fmt, set()):
                    add(f"C04/{fmt}/{kind}/second-generation", f"loading a .{fmt} file, saving it again and loading that: {what}")
    return out


def _fmt_raw(c, geo=False):
    def elems(l): return " ".join([str(len(l))] + [" ".join([str(len(e))] + [str(i) for i in e]) for e in l])
    s = (f"V {len(c['V'])}" + "".join(" " + " ".join(v) for v in c["V"]) + f" E {len(c['E'])}" + "".join(f" {a} {b}" for a, b in c["E"])
         + f" F {elems(c['F'])} C {elems(c['C'])}")
    return s


def impl_observe(case):
    if case["sc"] == "hist":
        H = _run_hist(case)
        return "hist " + " ".join(f"{k}={H[k]}" for k in ("same_twice", "used_eq_fresh") if k in H) + (" err1" if "err1" in H else "")
    R = _run(case)
    if "save_err" in R:
        return f"save:{R['save_err']} ;; - ;; -"
    p1 = IO.show_file(R["toks"])
    p2 = ("load:" + R["raw_err"]) if "raw_err" in R else _fmt_raw(R["raw"])
    p3 = ("load:" + R["cls_err"]) if "cls_err" in R else str(R["cls"])
    return f"{p1} ;; {p2} ;; {p3}"


# ------------------------------------------------------------------------------------------------
# model request
# ------------------------------------------------------------------------------------------------
def _enc_mesh(c):
    t = [str(len(c["V"]))] + [x for v in c["V"] for x in v]
    t += [str(len(c["E"]))] + [str(i) for e in c["E"] for i in e]
    t += ["N"] if c["hard"] is None else ["H", str(len(c["hard"]))] + [str(i) for i in c["hard"]]
    for key in ("F", "C"):
        t.append(str(len(c[key])))
        for e in c[key]: t += [str(len(e))] + [str(i) for i in e]
    return t


def _enc_val(ty, v):
    return f"x:{v}" if ty == "float" else f"i:{int(v)}"


def model_request(case):
    if case["sc"] == "hist": return None      # differential clauses on the implementation only
    R = _run(case)
    fmt = case["fmt"]
    if case["sc"] == "ref":
        if "toks" not in R: return None
        if fmt == "stl" and case.get("style") == "ascii": return None      # ASCII STL reader is not modelled
        return f"imp {fmt} {IO.enc_file(R['toks'])}"
    c0 = R.get("content0")
    if c0 is None or not R.get("fc_ok", True): return None
    if fmt == "geogram_ascii":
        if any(a["type"] not in ("bool", "int", "float") for a in c0["attrs"]): return None
        if c0["C"] and ("adj" not in R or R["cls0"] != "VolumeMesh"):
            return None        # hexahedra: save() fails inside the connectivity before ignore_elements (open finding): nothing to model
    if fmt == "stl":
        if not c0["F"] or "faces" in case["ign"]:
            return None        # 0-facet STL: loading aborts the interpreter (open finding C04/stl/no-face), nothing to model
        c0 = dict(c0, V=[[IO.f32round(x) for x in v] for v in c0["V"]])
    cfg = case.get("cfg", {})
    ign = case["ign"]
    t = ["rt", fmt, str(cfg.get("ee", 1)), str(cfg.get("ce", 1))] + [str(int(k in ign)) for k in ("edges", "faces", "cells")]
    t += _enc_mesh(c0)
    if fmt == "geogram_ascii":
        t.append(str(len(c0["attrs"])))
        for a in c0["attrs"]:
            vals = [_enc_val(a["type"], v) for row in a["values"] for v in row]
            t += [a["on"], a["name"], a["type"], str(a["arity"]), str(len(vals))] + vals
        adj = R.get("adj", [])
        t += [str(len(adj))] + [str(x) for x in adj]
    return " ".join(t)


# ------------------------------------------------------------------------------------------------
# comparison model reply / implementation observation
# ------------------------------------------------------------------------------------------------
def _parse_raw(s):
    """'V n x y z ... E n a b ... F n (len ids)* C n (len ids)* [A ... J ...]' -> content"""
    t = s.split()
    p = [0]

    def nxt():
        p[0] += 1; return t[p[0] - 1]

    def expect(x):
        if nxt() != x: raise ValueError(f"expected {x} at {p[0]} in {s[:80]}")
    c = {"V": [], "E": [], "F": [], "C": [], "attrs": []}
    expect("V")
    for _ in range(int(nxt())): c["V"].append([IO.canon_num(nxt()) for _ in range(3)])
    expect("E")
    for _ in range(int(nxt())): c["E"].append([int(nxt()), int(nxt())])
    for key in ("F", "C"):
        expect(key)
        for _ in range(int(nxt())): c[key].append([int(nxt()) for _ in range(int(nxt()))])
    if p[0] < len(t) and t[p[0]] == "A":
        nxt()
        for _ in range(int(nxt())):
            on, name, ty, ar = nxt(), nxt().strip('"'), nxt(), int(nxt())
            vals = []
            for _ in range(int(nxt())):
                v = nxt()
                vals.append(IO.canon_num(v[2:]) if ty == "float" else int(v[2:]))
            c["attrs"].append({"on": on, "name": name, "type": ty, "arity": ar, "values": [vals[ar * i: ar * i + ar] for i in range(len(vals) // max(ar, 1))]})
    return c


def _attr_key(a):
    return (a["on"], a["name"])


def _attr_vals(a):
    """attribute values are compared by value: -0.0 == 0.0 (bit-exactness is only claimed for vertex coordinates)"""
    if a["type"] != "float": return a["values"]
    return [[IO.fhex(IO.unhex(x) + 0.0) for x in row] for row in a["values"]]


def _same_numbers(model_file, written_file):
    """token files equal up to the spelling of a coordinate: where the model has a number text `x:…`, the file may hold an
    integer literal of the same value (integer-valued / numpy integer coordinates are printed without a fraction)"""
    a, b = model_file.split(" "), written_file.split(" ")
    if len(a) != len(b): return False
    for x, y in zip(a, b):
        if x == y: continue
        if x.startswith("x:") and y.startswith("i:"):
            try:
                if IO.unhex(x[2:]) == float(int(y[2:])): continue
            except (ValueError, OverflowError):
                return False
        return False
    return True


def compare(case, model, impl):
    R = _run(case)
    fmt = case["fmt"]
    mp = [x.strip() for x in model.split(";;")]
    if case["sc"] == "ref":
        mp = ["-"] + mp
    if len(mp) != 3: return f"malformed model reply: {model[:120]}"
    if "save_err" in R:
        return None if mp[0] == "err" else f"implementation save raised {R['save_exc']} but the model exports"
    if mp[0] == "err": return "model export fails but the implementation saved a file"
    if case["sc"] == "rt":
        mine = IO.show_file(R["toks"])
        if mp[0] != mine and _same_numbers(mp[0], mine):
            mine = mp[0]
        if mp[0] != mine:
            a, b = mp[0].split(" | "), mine.split(" | ")
            k = next((i for i in range(min(len(a), len(b))) if a[i] != b[i]), min(len(a), len(b)))
            return (f"bytes written differ from the model's export at line {k}: model `{a[k] if k < len(a) else '<eof>'}` "
                    f"vs written `{b[k] if k < len(b) else '<eof>'}`")
    # content read back
    if "raw_err" in R:
        if mp[1] != "err": return f"implementation load raised {R.get('raw_exc')} but the model imports the file"
    else:
        if mp[1] == "err": return "model import fails (raise / outside domain) but the implementation loaded the file"
        mc, ic = _parse_raw(mp[1]), R["raw"]
        if fmt == "stl":
            if IO.soup(mc) != IO.soup(ic): return "triangle soups differ (model import vs implementation load)"
        else:
            # the orientation of an edge record is not an observable of the property (prepare() sorts every edge)
            mc = dict(mc, E=[IO.keyify(e) for e in mc["E"]]); ic = dict(ic, E=[IO.keyify(e) for e in ic["E"]])
            for key, nm in (("V", "vertices"), ("E", "edges"), ("F", "faces"), ("C", "cells")):
                if mc[key] != ic[key]:
                    return f"{nm} read back differ: model {str(mc[key])[:120]} vs implementation {str(ic[key])[:120]}"
            if fmt == "geogram_ascii":
                ma = sorted((dict(a, values=_attr_vals(a)) for a in mc["attrs"]), key=_attr_key)
                ia = sorted(({k: (a[k] if k != "values" else _attr_vals(a)) for k in ("on", "name", "type", "arity", "values")} for a in ic["attrs"]), key=_attr_key)
                if ma != ia:
                    return f"attributes read back differ: model {str(ma)[:160]} vs implementation {str(ia)[:160]}"
    if "cls_err" in R:
        if "raw_err" in R: return None
        return f"implementation load() raised {R.get('cls_exc')} after a successful raw read (model class {mp[2]})"
    if mp[2] != str(R["cls"]):
        return f"class differs: model dimensionality {mp[2]} vs implementation {CLASSES[R['cls']]}"
    return None


# ------------------------------------------------------------------------------------------------
# oracle: the property stated directly on the implementation (no Lean model involved)
# ------------------------------------------------------------------------------------------------
def _kinds(c):
    ks = set()
    for f in c["F"]: ks.add(IO.kind_of_face(f))
    for x in c["C"]: ks.add(IO.kind_of_cell(x))
    return ks


def _topkind(c):
    if c["C"]: return "+".join(sorted({IO.kind_of_cell(x) for x in c["C"]}))
    if c["F"]: return "+".join(sorted({IO.kind_of_face(f) for f in c["F"]}))
    if c["E"]: return "edge"
    return "vertex"


def _msub(a, b):
    """multiset inclusion a ⊆ b"""
    from collections import Counter
    ca, cb = Counter(map(tuple, a)), Counter(map(tuple, b))
    return all(cb[k] >= n for k, n in ca.items())


def diff_content(exp, got, fmt, dropped):
    """-> list of (kind, what).  `exp` from IO.restrict (E lower bound, E_up upper bound)."""
    out = []
    if fmt == "stl":
        se, sg = IO.soup(exp), IO.soup(got)
        if se != sg:
            if _msub(se, sg) and dropped:
                for k in sorted(dropped): out.append((k, f"{k} elements were turned into triangles ({len(sg) - len(se)} extra triangles in the soup)"))
            else:
                out.append(("tri-face", f"triangle soup differs: expected {len(se)} triangles, got {len(sg)}"))
        return out
    if exp["V"] != got["V"]:
        k = next((i for i in range(min(len(exp["V"]), len(got["V"]))) if exp["V"][i] != got["V"][i]), None)
        out.append(("vertex", f"vertex coordinates differ (count {len(exp['V'])} vs {len(got['V'])}, first difference at {k}: "
                              f"{exp['V'][k] if k is not None else ''} vs {got['V'][k] if k is not None else ''})"))
    ge = [IO.keyify(e) for e in got["E"]]
    lo, up = [IO.keyify(e) for e in exp["E"]], [IO.keyify(e) for e in (exp.get("E_up") or exp["E"])]
    if not _msub(lo, ge): out.append(("edge", f"declared edges missing: expected ⊇ {lo[:8]}, got {ge[:8]}"))
    elif exp.get("E_up", 0) is not None and not _msub(ge, up): out.append(("edge", f"edges that are not elements of the mesh (or not expressible) came back: got {ge[:10]}, allowed {up[:10]}"))
    diffs, extras = [], []
    for key, kof in (("F", IO.kind_of_face), ("C", IO.kind_of_cell)):
        ks = sorted({kof(e) for e in exp[key]} | {kof(e) for e in got[key]})
        for k in ks:
            e = [x for x in exp[key] if kof(x) == k]; g = [x for x in got[key] if kof(x) == k]
            if e == g: continue
            if e and _msub(e, g) and len(g) > len(e) and [x for x in g if x in e] == e: extras.append((k, e, g))
            elif not e: extras.append((k, e, g))
            else: diffs.append((k, f"{k} elements differ: expected {len(e)} {str(e[:3])}, got {len(g)} {str(g[:3])}"))
    if diffs:
        note = ("; elements of kind " + ",".join(k for k, _, _ in extras) + " appeared instead") if extras else ""
        out += [(k, w + note) for k, w in diffs]
    else:
        for k, e, g in extras:
            if dropped:
                for dk in sorted(dropped): out.append((dk, f"{dk} elements (not expressible in .{fmt}) were turned into {k} elements {str(g[:3])}"))
            else:
                out.append((k, f"spurious {k} elements {str(g[:3])} (expected {len(e)})"))
    # attributes (geogram)
    ga = {_attr_key(a): a for a in got.get("attrs", [])}
    for a in exp.get("attrs", []):
        if a["name"] in INTERNAL_ATTRS or not a["values"]: continue      # an attribute over zero elements carries nothing
        b = ga.get(_attr_key(a))
        kind = "attr-" + a["type"]
        if b is None: out.append((kind, f"attribute {a['name']} on {a['on']} did not come back")); continue
        for fld in ("type", "arity", "values"):
            if (a[fld] != b[fld]) if fld != "values" else (_attr_vals(a) != _attr_vals(b)):
                out.append((kind, f"attribute {a['name']} on {a['on']}: {fld} differs ({str(a[fld])[:80]} vs {str(b[fld])[:80]})")); break
    return out


def oracle(case):
    """findings of the case; a finding attributed to several element kinds at once (an exception on a mixed mesh) is re-attributed
    to the kinds that reproduce it alone"""
    if case["sc"] == "hist": return _oracle_hist(case)
    out = _reattribute_to_attrs(case, _oracle(case))
    res = []
    for f in out:
        parts = f["key"].split("/")
        kinds = parts[2].split("+")
        if len(kinds) == 1: res.append(f); continue
        hit = []
        for k in kinds:
            sub = dict(case, F=[x for x in case["F"] if IO.kind_of_face(x) == k] if k.endswith("face") else ([] if case["C"] and not k.endswith("face") else case["F"]),
                       C=[x for x in case["C"] if IO.kind_of_cell(x) == k])
            sub.pop("attrs", None)
            if case["sc"] == "ref": sub["attrs"] = []
            try:
                for g in _oracle(sub):
                    gp = g["key"].split("/")
                    if gp[2] == k and gp[3] == parts[3]: hit.append(dict(g, detail=f.get("detail", "")))
            except Exception:  # noqa
                pass
        res += hit if hit else [f]
    uniq = []
    for f in res:
        if not any(u["key"] == f["key"] for u in uniq): uniq.append(f)
    return uniq


def _reattribute_to_attrs(case, out):
    """a failure of the whole file (exception, invalid file) on a mesh carrying attributes is attributed to the attribute
    element types that reproduce it alone, when the mesh without attributes is fine"""
    if case["sc"] != "rt" or not case.get("attrs"): return out
    res = []
    for f in out:
        parts = f["key"].split("/")
        if parts[2].startswith("attr-") or parts[3] not in ("load-raises", "save-raises", "written"): res.append(f); continue
        bare = dict(case); bare.pop("attrs")
        try:
            if any(g["key"].split("/")[3] == parts[3] for g in _oracle(bare)): res.append(f); continue
            hit = []
            for t in sorted({a["type"] for a in case["attrs"]}):
                sub = dict(case, attrs=[a for a in case["attrs"] if a["type"] == t])
                if any(g["key"].split("/")[3] == parts[3] for g in _oracle(sub)):
                    hit.append(dict(f, key=f"C04/{parts[1]}/attr-{t}/{parts[3]}", what=f"with an attribute of element type {t}: " + f["what"]))
            res += hit if hit else [f]
        except Exception:  # noqa
            res.append(f)
    return res


def _oracle(case):
    R = _run(case)
    fmt = case["fmt"]
    out = []

    def add(kind, aspect, what, detail=""):
        key = f"C04/{fmt}/{kind}/{aspect}"
        if kind == "edge" and case["sc"] == "rt" and case["ign"]:
            # which edges have to be written depends on what else stays in the file: name the ignore set and the mesh class
            key += f"/ignore={'+'.join(sorted(case['ign']))}/{R.get('cls0', '?')}"
        if not any(f["key"] == key for f in out):
            out.append({"key": key, "what": what, "detail": detail})
    if case["sc"] == "rt":
        c0 = R.get("content0")
        if c0 is None: return out
        cfg = case.get("cfg", {})
        cfgd = {"export_edges_in_obj": cfg.get("ee", 1), "complete_edges_from_faces": cfg.get("ce", 1)}
        if case.get("rewrap"):
            # generator knowledge: only the edges given to the first construction were declared
            c0 = dict(c0, nd=min(len(case["E"]), len(c0["E"])))
        exp = IO.restrict(c0, fmt, cfgd, case["ign"])
        dropped = _kinds({"F": [] if "faces" in case["ign"] else c0["F"], "C": [] if "cells" in case["ign"] else c0["C"]}) - _kinds(exp)
        if fmt == "stl": dropped = {k for k in dropped if k.endswith("face")}
        src = {"V": c0["V"], "E": c0["E"], "F": [] if "faces" in case["ign"] else c0["F"], "C": [] if "cells" in case["ign"] else c0["C"]}
        asp = "rewrap" if case.get("rewrap") else None
    else:
        exp = {"V": case["V"], "E": case["E"], "E_up": case["E"], "F": case["F"], "C": case["C"], "attrs": case.get("attrs", [])}
        dropped, src, asp = set(), exp, None
    top = _topkind(src)
    if fmt == "stl" and not exp["F"] and not dropped: top = "no-face"
    if "save_err" in R:
        if case["sc"] == "rt": top = _topkind(c0)       # save() looks at the whole mesh before ignore_elements is applied
        add(top, "save-raises", f"save to .{fmt} raised {R['save_exc'][:120]} on a mesh with {top} elements", R["save_exc"])
        return out
    # (1) what the bytes mean to an independent reader of the format
    if case["sc"] == "rt":
        try:
            rr = IO.ref_read(fmt, R["data"])
            for kind, what in diff_content(exp, rr, fmt, dropped):
                add(kind, asp or "written", f"file written by mouette, read by an independent .{fmt} reader: {what}")
        except IO.RefError as e:
            add(top, asp or "written", f"file written by mouette is not a valid .{fmt} file for an independent reader: {e}")
    # (2) what mouette loads
    tag = "loaded" if case["sc"] == "rt" else "ref-loaded"
    if "raw_err" in R:
        add(top, "load-raises", f"load of the {'saved' if case['sc'] == 'rt' else 'reference-written'} .{fmt} file raised {R['raw_exc'][:120]}", R["raw_exc"])
        return out
    ds = diff_content(exp, R["raw"], fmt, dropped)
    for kind, what in ds:
        add(kind, asp or tag, f"{'save then load' if case['sc'] == 'rt' else 'load of a reference-written file'} (.{fmt}): {what}")
    if ds:
        return out
    # (2b) geogram stores the cell adjacency as an attribute of the cell facets (save() computes it for volumes): like every attribute
    # of the attribute-carrying format its values come back unchanged (the loader exposes it as `opposite_cell` on cell_faces)
    if case["sc"] == "rt" and fmt == "geogram_ascii" and "adj" in R and "cells" not in case["ign"] and R["raw"]["C"] and "adj_loaded" in R:
        if R["adj_loaded"] != R["adj"]:
            k = next((i for i in range(min(len(R["adj"]), len(R["adj_loaded"]))) if R["adj"][i] != R["adj_loaded"][i]), None) \
                if isinstance(R["adj_loaded"], list) else None
            add("cell-adjacency", "loaded", "save then load (.geogram_ascii): the adjacent cell of the cell facets written in the file does not come back "
                f"(written {str(R['adj'])[:80]}, loaded {str(R['adj_loaded'])[:80]}" + (f", first difference at cell facet {k}" if k is not None else "") + ")")
    # (3) the loaded object
    want = IO.implied_dim({"C": exp["C"], "F": exp["F"], "E": R["raw"]["E"]})
    if "cls_err" in R:
        add(top, "load-raises", f"load() of the .{fmt} file raised {R['cls_exc'][:120]} although its raw content is right", R["cls_exc"])
    else:
        if R["cls"] != want:
            add("class", tag, f"loaded object is a {CLASSES[R['cls']]} but its content implies {CLASSES[want]}")
        if fmt != "stl" and R["full"]["V"] != exp["V"]:
            add("vertex", tag, "vertices of the loaded object differ from the saved ones")
        if "cls_dim" in R and R["cls_dim"] != max(case["dim"], want):
            add("class", "dim-override", f"load(dim={case['dim']}) returned a {CLASSES[R['cls_dim']]} for content of dimensionality {want}")
    return out


# ------------------------------------------------------------------------------------------------
def _adv(case):
    """some coordinate is not one of the generators' dyadic k/64 values"""
    for v in case["V"]:
        for x in v:
            y = IO.unhex(x)
            if abs(y) > 1e6 or y != G.dy(y) or (y == 0 and math.copysign(1, y) < 0): return True
    return False


def nontrivial(case, obs):
    if case["sc"] == "hist":
        H = _run_hist(case)
        return "err1" not in H and ("gen" in H or "used_eq_fresh" in H) and bool(case["V"])
    R = _run(case)
    if "save_err" in R or "raw_err" in R or "cls_err" in R: return False
    c = R["raw"]
    return bool(c["V"]) and bool(c["E"] or c["F"] or c["C"] or _adv(case))


def classify(case, obs):
    if case["sc"] == "hist":
        H = _run_hist(case)
        ks = ["sc:hist", f"hist:{case['fmt']}->{case['fmt2']}", f"mesh:{case.get('tag')}", "rep:" + case.get("rep", "float")]
        if case["ign"]: ks.append("hist-ignore:" + "+".join(case["ign"]))
        ks += [f"hist-{k}:{H[k]}" for k in ("same_twice", "used_eq_fresh") if k in H]
        ks += [f"hist-{k}" for k in ("err1", "err1b", "err2", "gen_err", "gen") if k in H]
        return ks
    R = _run(case)
    ks = [f"fmt:{case['fmt']}", f"sc:{case['sc']}", f"mesh:{case.get('tag')}", f"{case['fmt']}/{case.get('tag')}"]
    if case["sc"] == "rt":
        if case["ign"]: ks.append("ignore:" + "+".join(case["ign"]))
        if case.get("rewrap"): ks.append("rewrap")
        if case["cfg"] != {"ee": 1, "ce": 1}: ks.append(f"cfg:ee{case['cfg']['ee']}ce{case['cfg']['ce']}")
        if case.get("attrs"): ks += ["attr:" + a["type"] + str(a["arity"]) + "@" + a["on"] for a in case["attrs"]]
    else:
        ks.append("style:" + case.get("style", "plain"))
    if case["sc"] == "rt":
        ks.append("rep:" + case.get("rep", "float")); ks.append("erep:" + case.get("erep", "list"))
        if case.get("dim") is not None: ks.append(f"dim-override:{case['dim']}" + (":raises" if "cls_dim_err" in R else ""))
    for k in ("save_err", "raw_err", "cls_err"):
        if k in R: ks.append(f"{k}:{R[k]}")
    if "cls" in R: ks.append("class:" + CLASSES[R["cls"]])
    n = len(case["F"]) + len(case["C"]) + len(case["E"])
    ks.append("size:" + ("0" if n == 0 else "1-9" if n < 10 else "10-99" if n < 100 else "100+"))
    if _adv(case): ks.append("coords:adversarial")
    return ks


def describe(case):
    return {k: (v if k not in ("V", "E", "F", "C", "attrs") else f"<{len(v)}>") for k, v in case.items()}


def shrink(case, still):
    cur = dict(case)
    for key in ("attrs", "C", "F", "E"):
        lst = list(cur.get(key, []))
        i = 0
        while i < len(lst) and len(lst) > 0:
            trial = dict(cur); trial[key] = lst[:i] + lst[i + 1:]
            if still(trial): lst = trial[key]; cur = trial
            else: i += 1
    # drop unused trailing vertices
    used = {i for k in ("E", "F", "C") for e in cur[k] for i in e}
    n = (max(used) + 1) if used else 1
    if n < len(cur["V"]):
        trial = dict(cur, V=cur["V"][:n])
        if still(trial): cur = trial
    simple = dict(cur, V=[[IO.fhex(float(i + k * (i % 2))) for k in range(3)] for i in range(len(cur["V"]))])
    if still(simple): cur = simple
    return cur


def search_on_break(rng, broken, mismatches):
    """failing-input search when an obligation broke: a dense sweep (every mesh kind x every format, both scenarios)"""
    out = []
    for c in cases(rng, "quick"):
        out.append(c)
    return out


# ------------------------------------------------------------------------------------------------
# translated fragment: the (keyword, container, arity) rows of import_medit's dispatch
# ------------------------------------------------------------------------------------------------
def _medit_rows():
    import ast
    tree, _ = T.load("mouette/mesh/io/medit.py")
    fn = T.find_def(tree, "import_medit")
    fn = CT.Norm().visit(__import__("copy").deepcopy(fn))        # `"End" == line` = `line == "End"` …
    loop = [n for n in ast.walk(fn) if isinstance(n, ast.While)]
    if len(loop) != 1: raise T.TranslateError("import_medit: expected exactly one while loop")
    rows, others = [], []
    # the if/elif chain on `line == "<Keyword>"`
    chain = [n for n in loop[0].body if isinstance(n, ast.If)]
    if len(chain) != 1: raise T.TranslateError("import_medit: expected one if/elif chain in the loop")
    node = chain[0]
    while True:
        t = node.test
        if not (isinstance(t, ast.Compare) and isinstance(t.left, ast.Name) and len(t.ops) == 1
                and isinstance(t.ops[0], ast.Eq) and isinstance(t.comparators[0], ast.Constant) and isinstance(t.comparators[0].value, str)):
            raise T.TranslateError("import_medit: branch test is not `line == \"Keyword\"`: " + ast.dump(t)[:80])
        kw = t.comparators[0].value
        calls = [c for s in node.body for c in ast.walk(s) if isinstance(c, ast.Call) and isinstance(c.func, ast.Name) and c.func.id == "parse_field"]
        if calls:
            if len(calls) != 1: raise T.TranslateError(f"branch {kw}: several parse_field calls")
            a = calls[0].args
            if not (len(a) == 4 and isinstance(a[1], ast.Attribute) and isinstance(a[1].value, ast.Name)
                    and isinstance(a[3], ast.Constant) and isinstance(a[3].value, int)):
                raise T.TranslateError(f"branch {kw}: parse_field arguments not recognised")
            if a[1].attr not in ("edges", "faces", "cells"): raise T.TranslateError(f"branch {kw}: container {a[1].attr}")
            rows.append((kw, a[1].attr, a[3].value))
        else:
            others.append(kw)
        if len(node.orelse) == 1 and isinstance(node.orelse[0], ast.If): node = node.orelse[0]
        elif not node.orelse: break
        else: raise T.TranslateError("import_medit: trailing else branch")
    if sorted(others) != ["End", "Vertices"]:
        raise T.TranslateError(f"import_medit: branches without parse_field are {others}, expected End and Vertices")
    # parse_field itself (`[int(u) - 1 for u in line][:nelem]`, `container.append`): its shape is checked by the body compiler
    CT.compile_medit_reader(tree)
    # the branches are on distinct keywords: their order is immaterial
    canon = ["Edges", "Triangles", "Quadrilaterals", "Tetrahedra", "Hexahedra"]
    rows.sort(key=lambda r: canon.index(r[0]) if r[0] in canon else len(canon))
    return rows


def _geo_type_tables():
    """Attribute.Type.from_string / to_string / byte_size of mesh_attributes.py -> rows"""
    import ast
    tree, _ = T.load("mouette/mesh/mesh_attributes.py")
    fs = T.find_def(tree, "_BaseAttribute.Type.from_string")
    rows = []
    body = [n for n in fs.body if not (isinstance(n, ast.Expr) and isinstance(n.value, ast.Constant))]
    for n in body[:-1]:
        ok = (isinstance(n, ast.If) and not n.orelse and isinstance(n.test, ast.Compare) and isinstance(n.test.left, ast.Name)
              and n.test.left.id == "txt" and len(n.test.ops) == 1 and isinstance(n.test.ops[0], ast.In)
              and isinstance(n.test.comparators[0], ast.Set) and len(n.body) == 1 and isinstance(n.body[0], ast.Return)
              and isinstance(n.body[0].value, ast.Attribute) and isinstance(n.body[0].value.value, ast.Name) and n.body[0].value.value.id == "cls")
        if not ok: raise T.TranslateError("from_string: statement is not `if txt in {…}: return cls.X`: " + ast.unparse(n)[:80])
        sp = []
        for e in n.test.comparators[0].elts:
            if not (isinstance(e, ast.Constant) and isinstance(e.value, str)): raise T.TranslateError("from_string: non-literal spelling")
            sp.append(e.value)
        rows += [(x, n.body[0].value.attr) for x in sorted(sp)]
    if not isinstance(body[-1], ast.Raise): raise T.TranslateError("from_string: last statement is not a raise")
    bs = T.find_def(tree, "_BaseAttribute.Type.byte_size")
    dicts = [n for n in ast.walk(bs) if isinstance(n, ast.Dict)]
    src = ast.unparse(bs)
    if len(dicts) != 1 or ".get(self.name, None)" not in src: raise T.TranslateError("byte_size: not `{…}.get(self.name, None)`")
    sizes = []
    for k, v in zip(dicts[0].keys, dicts[0].values):
        if not (isinstance(k, ast.Constant) and isinstance(k.value, str) and isinstance(v, ast.Constant) and isinstance(v.value, int)):
            raise T.TranslateError("byte_size: non-literal entry")
        sizes.append((k.value, v.value))
    ts = T.find_def(tree, "_BaseAttribute.Type.to_string")
    tb = [n for n in ts.body if not (isinstance(n, ast.Expr) and isinstance(n.value, ast.Constant))]
    special = []
    for n in tb[:-1]:
        if not (isinstance(n, ast.If) and ast.unparse(n.test).startswith("self.name.lower() == ") and isinstance(n.test.comparators[0], ast.Constant)
                and len(n.body) == 1 and isinstance(n.body[0], ast.Return) and isinstance(n.body[0].value, ast.Constant)):
            raise T.TranslateError("to_string: statement not recognised: " + ast.unparse(n)[:80])
        special.append((n.test.comparators[0].value, n.body[0].value.value))
    if ast.unparse(tb[-1]) != "return self.name.lower()": raise T.TranslateError("to_string: default is not `return self.name.lower()`")
    return rows, sizes, special


def _obj_rows():
    """the `if toks[0] == '…'` chain of parse_obj_data -> (prefix, name of the list the branch appends to)"""
    import ast
    tree, _ = T.load("mouette/mesh/io/obj.py")
    fn = T.find_def(tree, "parse_obj_data")
    loops = [n for n in fn.body if isinstance(n, ast.For) and ast.unparse(n.iter) == "data"]
    if len(loops) != 1: raise T.TranslateError("parse_obj_data: expected one `for line in data` loop")
    chain = [n for n in loops[0].body if isinstance(n, ast.If) and "toks[0]" in ast.unparse(n.test)]
    if len(chain) != 1: raise T.TranslateError("parse_obj_data: expected one dispatch chain on toks[0]")
    rows, node = [], chain[0]
    while True:
        t = node.test
        if not (isinstance(t, ast.Compare) and ast.unparse(t.left) == "toks[0]" and len(t.ops) == 1 and isinstance(t.ops[0], ast.Eq)
                and isinstance(t.comparators[0], ast.Constant) and isinstance(t.comparators[0].value, str)):
            raise T.TranslateError("parse_obj_data: branch test is not `toks[0] == '…'`")
        apps = [c for st in node.body for c in ast.walk(st) if isinstance(c, ast.Call) and isinstance(c.func, ast.Attribute) and c.func.attr == "append"]
        if len(apps) != 1: raise T.TranslateError(f"branch {t.comparators[0].value}: expected exactly one append")
        tgt = ast.unparse(apps[0].func.value)
        rows.append((t.comparators[0].value, tgt.split(".")[-1]))
        if len(node.orelse) == 1 and isinstance(node.orelse[0], ast.If): node = node.orelse[0]
        elif not node.orelse: break
        else: raise T.TranslateError("parse_obj_data: trailing else branch")
    src = ast.unparse(fn)
    # (the orientation of an `l` record is normalised by prepare(): keyify here is not required)
    for needle in ("toks[1:4]", "for vstr in toks[1:]", "int(toks[1]) - 1, int(toks[2]) - 1"):
        if needle not in src: raise T.TranslateError(f"parse_obj_data: expected `{needle}`")
    return rows


def _save_guards():
    """mesh.py save(): the `if "<kw>" in ignore_elements:` guards -> (kw, containers emptied) and HOW they are emptied"""
    import ast
    tree, _ = T.load("mouette/mesh/mesh.py")
    fn = T.find_def(tree, "save")
    src = ast.unparse(fn)
    if "raw_mesh = RawMeshData(mesh)" not in src or "write_by_extension(raw_mesh, filename)" not in src:
        raise T.TranslateError("save: re-wrap `raw_mesh = RawMeshData(mesh)` / `write_by_extension(raw_mesh, filename)` not found")
    outer = [n for n in fn.body if isinstance(n, ast.If) and ast.unparse(n.test) == "ignore_elements is not None"]
    if len(outer) != 1 or outer[0].orelse: raise T.TranslateError("save: expected one `if ignore_elements is not None:` block")
    rows, modes, fresh = [], set(), None
    for st in outer[0].body:
        if (isinstance(st, ast.Assign) and len(st.targets) == 1 and isinstance(st.targets[0], ast.Name)
                and ast.unparse(st.value) == "RawMeshData()"):
            fresh = st.targets[0].id; continue
        if not (isinstance(st, ast.If) and not st.orelse and isinstance(st.test, ast.Compare) and isinstance(st.test.left, ast.Constant)
                and isinstance(st.test.left.value, str) and len(st.test.ops) == 1 and isinstance(st.test.ops[0], ast.In)
                and ast.unparse(st.test.comparators[0]) == "ignore_elements"):
            raise T.TranslateError("save: statement in the ignore block is not `if \"kw\" in ignore_elements:` : " + ast.unparse(st)[:80])
        conts = []
        for b in st.body:
            u = ast.unparse(b)
            if isinstance(b, ast.Assign) and len(b.targets) == 1 and u.startswith("raw_mesh.") and fresh and u == f"raw_mesh.{b.targets[0].attr} = {fresh}.{b.targets[0].attr}":
                conts.append(b.targets[0].attr); modes.add("replace")
            elif isinstance(b, ast.Expr) and u.startswith("raw_mesh.") and u.endswith(".clear()") and u.count(".") == 2:
                conts.append(u.split(".")[1]); modes.add("clearShared")
            else:
                raise T.TranslateError("save: statement under an ignore guard not recognised: " + u[:80])
        rows.append((st.test.left.value, conts))
    if len(modes) != 1: raise T.TranslateError(f"save: mixed ways of emptying containers {sorted(modes)}")
    canon = ("edges", "faces", "cells")       # the guards are independent of each other: their order is immaterial
    rows.sort(key=lambda r: canon.index(r[0]) if r[0] in canon else len(canon))
    return rows, modes.pop()


def _lean_str(x):
    return '"' + x.replace("\\", "\\\\").replace('"', '\\"') + '"'


def _with_stub(gen_name, fn):
    """run a translation site; when it raises, Generated/<gen_name>.lean is replaced by a stub without definitions, so that the bridges
    fail to build against THIS tree instead of silently building against the file of an earlier tree"""
    def run():
        try:
            return fn()
        except Exception as e:  # noqa
            msg = str(e).replace("-/", "- /").replace("\n", " ")[:300]
            T.write_generated(gen_name, f"/- TRANSLATION FAILED for the current source tree: {type(e).__name__}: {msg}\n"
                                        "   (stub without definitions: every bridge that needs this file fails to build) -/\n")
            raise
    return run


def translate():
    def site2():
        rows, sizes, special = _geo_type_tables()
        orows = _obj_rows()
        body = ("namespace Mouette.Generated.C04Tables\n\n"
                "/-- `Attribute.Type.from_string`: (spelling, member); sets in source order, spellings of a set sorted -/\n"
                "def geoTypeRows : List (String × String) :=\n  [" + ", ".join(f"({_lean_str(a)}, {_lean_str(b)})" for a, b in rows) + "]\n\n"
                "/-- `Attribute.Type.byte_size` -/\ndef geoByteSize : List (String × Nat) :=\n  [" + ", ".join(f"({_lean_str(a)}, {b})" for a, b in sizes) + "]\n\n"
                "/-- `Attribute.Type.to_string`: exceptions to `self.name.lower()` -/\ndef geoToStringSpecial : List (String × String) :=\n  ["
                + ", ".join(f"({_lean_str(a)}, {_lean_str(b)})" for a, b in special) + "]\n\n"
                "/-- `parse_obj_data`: (line prefix, list appended to) in source order -/\ndef objRows : List (String × String) :=\n  ["
                + ", ".join(f"({_lean_str(a)}, {_lean_str(b)})" for a, b in orows) + "]\n\nend Mouette.Generated.C04Tables\n")
        T.write_generated("C04Tables", body)
        return {"geoTypeRows": rows, "geoByteSize": sizes, "geoToStringSpecial": special, "objRows": orows}

    def site3():
        rows, mode = _save_guards()
        body = ("import Mouette.Model.IOTables\nnamespace Mouette.Generated.C04Save\nopen Mouette.IO.Tables\n\n"
                "/-- `save`: (keyword of ignore_elements, containers of the re-wrapped RawMeshData that are emptied) -/\n"
                "def ignoreRows : List (String × List String) :=\n  ["
                + ", ".join(f"({_lean_str(k)}, [" + ", ".join(_lean_str(c) for c in cs) + "])" for k, cs in rows) + "]\n\n"
                "/-- how they are emptied: fresh empty containers on raw_mesh (`replace`) or `.clear()` on the containers shared with the mesh -/\n"
                f"def ignoreMode : IgnoreMode := .{mode}\n\nend Mouette.Generated.C04Save\n")
        T.write_generated("C04Save", body)
        return {"ignoreRows": rows, "ignoreMode": mode}

    def site():
        rows = _medit_rows()
        body = ("import Mouette.Model.IO\nnamespace Mouette.Generated.C04Medit\nopen Mouette.IO\n\n"
                "/-- rows `(keyword, container, arity)` of the `parse_field` dispatch of `import_medit`, in source order -/\n"
                "def rows : List (String × Cont × Nat) :=\n  [" +
                ", ".join(f'("{k}", .{c}, {n})' for k, c, n in rows) + "]\n\nend Mouette.Generated.C04Medit\n")
        T.write_generated("C04Medit", body)
        return {"rows": rows}
    def site_writers():
        txt, detail = CT.writers()
        T.write_generated("C04Writers", txt)
        return detail

    def site_attr():
        txt, detail = CT.attr_import()
        T.write_generated("C04Attr", txt)
        return detail

    def site_wrap():
        txt, detail = CT.wrappers()
        T.write_generated("C04Wrap", txt)
        return detail

    def site_geow():
        txt, detail = CT.geo_writer()
        T.write_generated("C04GeoW", txt)
        return detail

    def site_glue():
        txt, detail = CT.glue()
        T.write_generated("C04Glue", txt)
        return detail

    def site_dispatch():
        txt, detail = CT.dispatch()
        T.write_generated("C04Dispatch", txt)
        return detail
    def site_readers():
        txt, detail = CT.readers()
        T.write_generated("C04Readers", txt)
        return detail
    return [T.site("mouette/mesh/io/{xyz,tet,off,obj}.py: reader bodies import_xyz, parse_tet_data, parse_off_data, parse_vertex + parse_obj_data, parse_field + import_medit", _with_stub("C04Readers", site_readers))] + \
           [T.site("mouette/mesh/io/{off,tet,xyz,medit,obj,stl}.py: writer bodies export_off, export_tet, export_xyz, export_medit (+count_faces, "
                   "count_cells), export_obj, Binary_STL_Writer.{__init__,_write_header,_write_triangle,write} read statement by statement", _with_stub("C04Writers", site_writers)),
            T.site("mouette/mesh/io/io.py: read_by_extension / write_by_extension tables; mesh.py: load, _instanciate_raw_mesh_data", _with_stub("C04Dispatch", site_dispatch)),
            T.site("mouette/mesh/io/geogram_ascii.py: import_attribute (row of element i, exact comparison with the default value, scalar / vector store)", _with_stub("C04Attr", site_attr)),
            T.site("mouette/mesh/io/{obj,off,tet,stl}.py: wrappers import_obj, import_off, import_tet, export_stl, import_stl", _with_stub("C04Wrap", site_wrap)),
            T.site("mouette/mesh/io/geogram_ascii.py: export_attribute (header lines, element / component loops, bool through int()), is_chunk_header markers", _with_stub("C04GeoW", site_geow)),
            T.site("mouette/mesh/mesh.py: load and save statement by statement (raw switch, read -> instantiate; adjacency, re-wrap, ignore block, write)", _with_stub("C04Glue", site_glue)),
            T.site("mouette/mesh/io/medit.py: import_medit dispatch (keyword, container, arity)", _with_stub("C04Medit", site)),
            T.site("mesh_attributes.py: Attribute.Type.from_string/to_string/byte_size; obj.py: parse_obj_data line-prefix dispatch", _with_stub("C04Tables", site2)),
            T.site("mouette/mesh/mesh.py: save() ignore_elements guards (keyword, containers, replace vs clear-shared)", _with_stub("C04Save", site3))]


MANIFEST = {
    "level_text": ("Proof. Lean 4 theorems over executable token-level models of mouette's codecs, for ALL meshes (any sizes, arities, "
                   "indices; induction over the element lists; float text abstracted by the hypothesis `parse (fmt c) = some c`): "
                   "import_f (export_f m) = restrict_f m for obj, tet, xyz, medit (reader automaton driven by the (keyword, container, "
                   "arity) table that is re-extracted from medit.py with Python ast on every run and bridged to the model by `decide`) "
                   "and, at chunk level, geogram_ascii elements incl. facet_ptr pointer arithmetic for faces of any arity; the loaded "
                   "class is the dimensionality of the restricted content. Where the code cannot satisfy the statement (off quads / "
                   "polygons, stl quads / polygons) the exact actual behaviour is proved, the statement is proved under the precise "
                   "restriction (`_partial`) and refuted on a witness (`decide`). Round 2: interoperability in Lean for obj, off, tet, "
                   "xyz, medit and geogram chunks (independent reference writers AND readers of Model/IORef.lean, IOGeogramRef.lean: "
                   "import_f (refExport_f m) and refImport_f (export_f m) = restrict_f m for all meshes; mixed cell arities with "
                   "cell_ptr); geogram user attributes in context (any number of attribute chunks per element set come back with "
                   "container, name, type, arity, values; nothing invented); translated tables for Attribute.Type.from_string / "
                   "to_string / byte_size and the obj line-prefix dispatch, each bridged by `decide`. Round 4 (Props/C04Source.lean): the writer "
                   "BODIES export_off, export_tet, export_xyz, export_medit (+count_faces, count_cells), export_obj and the binary STL writer "
                   "(counter, header rewritten last, triangle / quad split / ValueError), the reader bodies import_xyz and parse_tet_data, the extension tables of io.py and the class choice of "
                   "_instanciate_raw_mesh_data are compiled from the working tree on every run (statement order, loops, guards, iterated "
                   "container, +1 / +0 index base, keyword lines, format placeholders; anything unrecognised = broken obligation) and proved "
                   "equal to the models (`export_*_bridge`), so the round-trip and interoperability theorems are also stated on what the "
                   "source writes now (`*_source`). The models are tied to the code by token-exact "
                   "comparison of the bytes mouette writes with the model's export, by model import vs mouette load on mouette-written "
                   "and on independently written files, and by a direct oracle (independent reference reader and writer per format, "
                   "vocabulary table, bit-exact coordinates on adversarial doubles)."),
    "level_note": ("Trusted: Lean kernel + propext/Classical.choice/Quot.sound; the hand-written token models (agreement with the code "
                   "established on the meshes of each run only); Python float repr/parse round trip (sampled, hypothesis of the theorems); "
                   "stl_reader (external) abstracted to the triangle soup; RawMeshData.prepare is C02's (the model takes the prepared "
                   "mesh content as input); geogram: file->chunk splitting and attributes-in-context are correspondence-only."),
    "technique": "Lean 4 codec round-trip proofs over executable token models + writers / dispatch tables compiled from the source with bridge theorems; differential byte/token correspondence; reference codecs",
}
