"""C17 — Tutte's embedding is a fold-free planar embedding onto the convex target (partial)."""
import hashlib, json, math
from fractions import Fraction

from ..gen import mesh as G
from ..gen import cutgen as CG

PID = "C17"
TITLE = "Tutte's embedding is a fold-free planar embedding onto the convex target"
LEAN_MODULES = ["Mouette.Props.C17", "Mouette.Props.C17Source"]
REQUIRED_THEOREMS = ["gate_iff", "storage_agree", "lap_row_sums_zero", "interior_is_weighted_average",
                     "interior_is_weighted_average_div", "orient2d_swap", "orient2d_cycle", "orient2d_sign_affine",
                     "orient2d_zero_iff_collinear", "orient2d_inside", "square_boundary_on_square", "square_boundary_distinct",
                     "square_boundary_cyclic_order", "square_boundary_length", "square_boundary_source",
                     "accepted_case_weighted_average", "circle_boundary_model", "circle_boundary_distinct", "circle_boundary_on_circle",
                     "circle_boundary_convex_position", "circle_boundary_cyclic_order",
                     "gate_source", "circle_boundary_source", "custom_boundary_source",
                     # round 4: bridges to the system assembly translated from the source + the discrete maximum principle
                     "laplacian_source", "lap_row_sums_zero_source", "system_source", "storage_source", "from_string_source",
                     "flat_mesh_source", "max_principle_model", "interior_in_every_halfplane_of_border",
                     "interior_strictly_inside_halfplane", "tutte_interior_in_hull_source",
                     # round 5
                     "init_source", "interior_strictly_inside_of_strictly_convex_border", "interior_strictly_inside_unit_square"]
TRUSTED = [
    "Lean 4.33.0 kernel; axioms ⊆ {propext, Classical.choice, Quot.sound}",
    "hand-written model Mouette/Model/Tutte.lean (_initialize_boundary, Laplacian triplets, free/border partition, exact rational "
    "solve, per-vertex / per-corner storage) tied to tutte.py / laplacian_op.py by the correspondence of this run; the square-mode "
    "corner indices, ranges and affine expressions are re-translated from the source on every run (Generated/C17Tutte.lean); round 4: "
    "the Laplacian assembly (laplacian_op.py: laplacian), the sub-matrices / right-hand sides / storage loops of run(), from_string and "
    "the keys of flat_mesh are re-translated as well (Generated/C17Sys.lean, vocabulary Model/TutteSource.lean) with bridge theorems",
    "scipy.sparse.linalg.spsolve, cmath.rect, the cotangent attribute (C07/C08) are external: the model solves the same system in exact "
    "rational arithmetic (cotangents are taken over from the implementation as exact rationals of the floats) and is compared at "
    "1e-9*scale+1e-12",
    "Tutte/Floater theorem (no flipped / degenerate triangle) is NOT proved: checked per run with the exact orient2d predicate on "
    "Fractions of the output floats",
]
ASSUMPTIONS = ["agreement model/implementation and fold-freeness are established on the cases explored in this run only",
               "floating point round-off is not modelled (tolerance 1e-9*scale+1e-12)"]
RULE = ("triangulated disks (jittered/regular grids, strips, Delaunay, fans with 0-2 rings, convex polygons triangulated by chords, "
        "chords + inserted interior vertices, grids with flipped edges; needle triangles (an angle of 0.4-2.9 degrees: rows of thin isosceles "
        "triangles, disks stretched along an axis; cotangent weights); border lengths 3..60 incl. every residue mod 4; integer / "
        "binary32 coordinates; custom arrays f32/int/Fortran/read-only/strided; run twice / second embedder on the same mesh) × "
        "{circle, square, custom convex} × {uniform, cotan} × {vertex, corner}; plus non-disks (χ≠1) that must be rejected; "
        "non-trivial = disk with at least one interior vertex whose run succeeded")

MODES = ("circle", "square", "custom")


def _key(case):
    return hashlib.sha1(json.dumps(case, sort_keys=True, default=str).encode()).hexdigest()


def _errname(e):
    n = type(e).__name__
    return {"TypeError": "err:Type", "ValueError": "err:Value", "KeyError": "err:Key", "IndexError": "err:Index"}.get(n, f"err:Other({n})")


def border_cycle(F):
    """border vertices in the order of the border half edges (own routine, independent of mouette)"""
    sides = {(f[i], f[(i + 1) % 3]) for f in F for i in range(3)}
    nxt = {a: b for (a, b) in sides if (b, a) not in sides}
    if not nxt: return []
    s = min(nxt)
    cyc, cur = [s], nxt[s]
    while cur != s and len(cyc) <= len(nxt):
        cyc.append(cur); cur = nxt[cur]
    return cyc


def make_custom(rng, F):
    """strictly convex positions (points of an ellipse at increasing angles) for the border vertices, in border order
    (either direction); returned as [[vertex, u, v], ...]"""
    cyc = border_cycle(F)
    n = len(cyc)
    a, b = rng.choice([1.0, 1.5, 2.0]), rng.choice([1.0, 0.75, 2.5])
    angs = sorted(rng.sample(range(0, 720), n))
    off = rng.uniform(0, 1)
    if rng.random() < 0.5: cyc = cyc[::-1]
    return [[v, G.dy(a * math.cos((t / 720 + off) * 2 * math.pi), 1 << 20), G.dy(b * math.sin((t / 720 + off) * 2 * math.pi), 1 << 20)]
            for v, t in zip(cyc, angs)]


_CACHE = {}


COORDS = ("float", "int", "f32")
CREPS = ("f64", "f32", "int", "fortran", "readonly", "strided")
HISTS = ("none", "rerun", "second", "second-otherweights", "attrs", "interleave")


def _build_mesh(case):
    """the disk with its coordinates in the representation case['coords'] (same VALUES: 'int' cases carry integer-valued
    coordinates, 'f32' cases values that are exact in binary32)"""
    import mouette as M, numpy as np
    rep = case.get("coords", "float")
    if rep == "float":
        return G.build_surface(case)
    d = M.mesh.RawMeshData()
    if rep == "int":
        d.vertices += [M.Vec(*[int(c) for c in v]) for v in case["V"]]
    else:
        d.vertices += [M.Vec(np.array(v, dtype=np.float32)) for v in case["V"]]
    d.faces += [list(f) for f in case["F"]]
    return M.mesh.SurfaceMesh(d)


def _custom_array(mesh, case):
    import numpy as np
    pos = {int(v): (u, w) for v, u, w in case["custom"]}
    rows = [pos[int(v)] for v in mesh.boundary_vertices]
    crep = case.get("crep", "f64")
    if crep == "f32": return np.array(rows, dtype=np.float32)
    if crep == "int": return np.array([[int(a), int(b)] for a, b in rows], dtype=np.int64)
    if crep == "fortran": return np.asfortranarray(np.array(rows, dtype=float))
    if crep == "readonly":
        a = np.array(rows, dtype=float); a.setflags(write=False); return a
    if crep == "strided":
        big = np.zeros((len(rows), 5), dtype=float); big[:, 1] = [r[0] for r in rows]; big[:, 3] = [r[1] for r in rows]
        return big[:, 1::2]
    return np.array(rows, dtype=float)


def _other_disk():
    """a small fixed disk used as 'another mesh' in the interleaving histories"""
    V = [[0.0, 0.0, 0.0], [2.0, 0.0, 0.5], [2.5, 1.5, 0.0], [0.5, 2.0, 0.25], [1.0, 0.75, 1.0]]
    F = [[0, 1, 4], [1, 2, 4], [2, 3, 4], [3, 0, 4]]
    return {"V": V, "F": F}


def _embed(mesh, case, corners, mode=None, cotan=None, between=None):
    import mouette as M, numpy as np
    kw = {}
    mode = mode or case["mode"]
    if cotan is not None:
        case = dict(case, cotan=cotan)
    carr = None
    if mode == "custom":
        carr = _custom_array(mesh, case)
        kw["custom_boundary"] = carr
    # with a custom boundary the documented behaviour is "the boundary_mode argument is ignored": both values are passed
    bm = "square" if (mode == "square" or (mode == "custom" and len(case["F"]) % 2 == 1)) else "circle"
    emb = M.parametrization.TutteEmbedding(mesh, boundary_mode=bm,
                                           use_cotan=bool(case["cotan"]), verbose=False, save_on_corners=corners, **kw)
    before = None if carr is None else np.array(carr, dtype=float, copy=True)
    if between is not None:
        between()       # something else happens between construction and run (state shared between instances?)
    emb.run()
    n = len(mesh.face_corners) if corners else len(mesh.vertices)
    uv = [(float(emb.uvs[i][0]), float(emb.uvs[i][1])) for i in range(n)]
    changed = carr is not None and not np.array_equal(before, np.array(carr, dtype=float))
    return emb, uv, changed


def _run(case):
    k = _key(case)
    if k in _CACHE: return _CACHE[k]
    rec = {"err": None, "hist_findings": []}
    hist = case.get("hist", "none")
    mesh = _build_mesh(case)
    rec["nV"] = len(mesh.vertices)
    try:
        from mouette.processing.border import extract_border_cycle
        rec["free"] = [int(v) for v in mesh.interior_vertices]
        rec["bv"] = [int(v) for v in mesh.boundary_vertices]
        rec["nE"] = len(mesh.edges)
        try:
            rec["bnd"] = rec["bv"] if case["mode"] == "custom" else [int(v) for v in extract_border_cycle(mesh)[0]]
        except Exception:  # noqa  (non-disks: the gate fires first, the list is irrelevant)
            rec["bnd"] = rec["bv"]
        between = None
        if hist == "second":
            # another embedder (other target, same storage) has already written its `uv_coords` on this mesh object
            _embed(mesh, case, bool(case["corners"]), mode=case.get("hist_mode", "circle"))
        if hist == "second-otherweights":
            # ... with the OTHER weights (a cotangent run leaves the persistent `cotan` attribute on the mesh)
            hm = case.get("hist_mode", "circle")
            _embed(mesh, case, bool(case["corners"]), mode=(hm if case["mode"] != "custom" else "custom"), cotan=not bool(case["cotan"]))
        if hist == "attrs":
            # the mesh already carries the persistent attributes other algorithms leave behind
            from mouette import attributes as A
            A.cotangent(mesh); A.face_area(mesh); A.corner_angles(mesh)
        if hist == "interleave":
            def between():
                import mouette as M
                o = _other_disk(); om = G.build_surface(o)
                M.parametrization.TutteEmbedding(om, boundary_mode="square", use_cotan=not bool(case["cotan"]), verbose=False,
                                                 save_on_corners=not bool(case["corners"])).run()
        emb, uv, changed = _embed(mesh, case, bool(case["corners"]), between=between)
        if changed:
            rec["hist_findings"].append(("input/custom-boundary-mutated", "run() modified the caller's custom_boundary array", ""))
        if hist == "rerun":
            emb.run()
            n = len(uv)
            uv2 = [(float(emb.uvs[i][0]), float(emb.uvs[i][1])) for i in range(n)]
            if uv2 != uv:
                rec["hist_findings"].append(("history/rerun/differs", "a second run() of the same embedder gives other coordinates than the first", ""))
            uv = uv2
        rec["uv"] = uv
        fm = emb.flat_mesh
        rec["flat"] = [tuple(float(c) for c in fm.vertices[v]) for v in range(rec["nV"])]
        if [[int(v) for v in f] for f in mesh.faces] != [list(f) for f in case["F"]] or \
                [tuple(float(c) for c in p) for p in mesh.vertices] != [tuple(float(c) for c in p) for p in case["V"]]:
            rec["hist_findings"].append(("input/mesh-mutated", "the input mesh (vertices or faces) was modified by the embedder", ""))
        if case["cotan"]:
            from mouette.attributes import cotangent
            cot = cotangent(mesh)
            rec["cot"] = [float(cot[c]) for c in range(len(mesh.face_corners))]
            rec["c2v"] = [int(mesh.face_corners[c]) for c in range(len(mesh.face_corners))]
    except Exception as e:  # noqa
        rec["err"] = _errname(e); rec["msg"] = repr(e)[:200]
    if rec["err"] is None:
        try:
            mesh2 = _build_mesh(case)
            _, uv2, _ = _embed(mesh2, case, not bool(case["corners"]))
            rec["uv_other"] = uv2
        except Exception as e:  # noqa
            rec["err_other"] = _errname(e)
    if len(_CACHE) > 64: _CACHE.clear()
    _CACHE[k] = rec
    return rec


def vertex_uv(case, rec):
    """per-vertex view of the main observation"""
    if not case["corners"]:
        return rec["uv"]
    out = [None] * rec["nV"]
    for t, f in enumerate(case["F"]):
        for i, v in enumerate(f):
            out[v] = rec["uv"][3 * t + i]
    return out


def stats(case):
    return G.surface_stats(len(case["V"]), case["F"])


def is_disk(case):
    st = stats(case)
    return st["manifold"] and st["components"] == 1 and st["chi"] == 1 and st["loops"] == 1 and st["unused"] == 0 \
        and all(len(f) == 3 for f in case["F"])


def orient2d(a, b, c):
    ax, ay = Fraction(a[0]), Fraction(a[1]); bx, by = Fraction(b[0]), Fraction(b[1]); cx, cy = Fraction(c[0]), Fraction(c[1])
    return (bx - ax) * (cy - ay) - (cx - ax) * (by - ay)


def square_param(p):
    """exact perimeter parameter in [0,4) of a point of the unit square's boundary, None if not on it"""
    x, y = Fraction(p[0]), Fraction(p[1])
    if not (0 <= x <= 1 and 0 <= y <= 1): return None
    if y == 0 and x < 1: return x
    if x == 1 and y < 1: return 1 + y
    if y == 1 and x > 0: return 2 + (1 - x)
    if x == 0 and y > 0: return 3 + (1 - y)
    return None


def _cyclic_monotone(ts):
    n = len(ts)
    if len(set(ts)) != n: return False
    asc = sum(1 for i in range(n) if ts[(i + 1) % n] < ts[i])
    desc = sum(1 for i in range(n) if ts[(i + 1) % n] > ts[i])
    return asc == 1 or desc == 1 or n <= 2


def own_weights(case):
    """w[i][j] for every edge: uniform 1, or (cot a + cot b)/2 from the 3D geometry (own formula)"""
    V, F = case["V"], case["F"]
    w = {}
    for f in F:
        for i in range(3):
            a, b, c = f[i], f[(i + 1) % 3], f[(i + 2) % 3]   # angle at c is opposite edge (a,b)
            if case["cotan"]:
                u = [V[a][t] - V[c][t] for t in range(3)]; v = [V[b][t] - V[c][t] for t in range(3)]
                dot = sum(x * y for x, y in zip(u, v))
                cr = [u[1] * v[2] - u[2] * v[1], u[2] * v[0] - u[0] * v[2], u[0] * v[1] - u[1] * v[0]]
                val = 0.5 * dot / math.sqrt(sum(x * x for x in cr))
            else:
                val = 0.5
            w.setdefault(a, {}); w.setdefault(b, {})
            w[a][b] = w[a].get(b, 0.0) + val
            w[b][a] = w[b].get(a, 0.0) + val
    return w


def oracle(case):
    out = []
    st = stats(case)
    rec = _run(case)
    kind = f"{case['mode']}/{'cotan' if case['cotan'] else 'uniform'}"
    for k_, v_, d_ in (("coords", "float", "coords:"), ("crep", "f64", "crep:"), ("hist", "none", "hist:")):
        if case.get(k_, v_) != v_: kind += "/" + d_ + case[k_]

    def bad(key, what, detail=""):
        out.append({"key": f"C17/{key}", "what": what, "detail": str(detail)[:400]})

    if not (st["manifold"] and all(len(f) == 3 for f in case["F"])):
        return out
    if st["chi"] != 1:
        if rec["err"] is None:
            bad(f"gate/not-rejected/chi{st['chi']}", "a surface whose Euler characteristic is not 1 was not rejected", st)
        elif rec["err"] != "err:Other(Exception)":
            # the refusal is the explicit gate (`raise Exception(...)`); an IndexError/ValueError from deeper inside is a crash
            bad(f"gate/crash-instead-of-rejection/{rec['err']}", "a surface whose Euler characteristic is not 1 was not rejected by the "
                "gate but crashed later", f"{st} {rec.get('msg')}")
        return out
    if not is_disk(case):
        return out
    if rec["err"]:
        bad(f"run/raises/{rec['err']}/{kind}", f"TutteEmbedding.run raised {rec['err']} on a triangulated disk", rec.get("msg"))
        return out
    for (hk, hw, hd) in rec.get("hist_findings", []):
        bad(hk, hw, hd)
    F = case["F"]
    uv = vertex_uv(case, rec)
    if any(p is None or not (math.isfinite(p[0]) and math.isfinite(p[1])) for p in uv):
        bad(f"output/not-finite/{kind}", "uv coordinates are missing or not finite", ""); return out
    cyc = border_cycle(F)
    n = len(cyc)
    bset = set(cyc)
    # 1. border vertices, in border order, on the shape at distinct positions
    pos = [uv[v] for v in cyc]
    if len({(Fraction(p[0]), Fraction(p[1])) for p in pos}) != n:
        dup = [cyc[i] for i in range(n) if pos.count(pos[i]) > 1]
        bad(f"border/duplicate-position/{case['mode']}/n%4={n % 4}", "two border vertices are placed at the same position", f"n={n} vertices {dup[:8]}")
    if case["mode"] == "circle":
        if any(abs(p[0] * p[0] + p[1] * p[1] - 1) > 1e-9 for p in pos):
            bad("border/off-shape/circle", "a border vertex is not on the unit circle", "")
        elif not _cyclic_monotone([math.atan2(p[1], p[0]) for p in pos]):
            bad("border/order/circle", "border vertices are not placed in border order around the circle", "")
    elif case["mode"] == "square":
        ts = [square_param(p) for p in pos]
        if any(t is None for t in ts):
            bad("border/off-shape/square", "a border vertex is not on the boundary of the unit square", "")
        elif not out and not _cyclic_monotone(ts):
            bad(f"border/order/square/n%4={n % 4}", "border vertices are not placed in border order around the square", f"n={n}")
    else:
        want = {int(v): (u, w) for v, u, w in case["custom"]}
        if any(tuple(uv[v]) != tuple(want[v]) for v in cyc):
            bad("border/custom-not-respected", "a border vertex is not at its prescribed custom position", "")
    # 2. interior vertices at the weighted average of their neighbours
    w = own_weights(case)
    # binary32 coordinates: the library computes the cotangents in binary32 (relative error ~6e-8 times the conditioning of
    # cot); the statement is about exact values, round-off is not modelled (T6) -> tolerance at binary32 level there
    rtol = 2e-5 if (case.get("coords") == "f32" and case["cotan"]) else 1e-9
    minw = min([w[i][j] for i in w for j in w[i] if i not in bset or j not in bset] or [1.0])
    for i in range(len(uv)):
        if i in bset: continue
        rx = sum(wij * (uv[j][0] - uv[i][0]) for j, wij in w[i].items())
        ry = sum(wij * (uv[j][1] - uv[i][1]) for j, wij in w[i].items())
        scale = sum(abs(wij) * (abs(uv[j][0]) + abs(uv[j][1]) + abs(uv[i][0]) + abs(uv[i][1])) for j, wij in w[i].items())
        if max(abs(rx), abs(ry)) > rtol * scale + 1e-12:
            bad(f"interior/not-weighted-average/{kind}", "an interior vertex is not at the weighted average of its neighbours",
                f"vertex {i} residual {(rx, ry)}"); break
    # 3. every triangle has the same strict orientation (exact)
    applicable = (not case["cotan"]) or minw >= 0
    if case["mode"] == "square":
        def oneside(f):
            # the statement's side condition: a triangle whose three vertices are BORDER vertices lying on one (closed) side
            if not all(v in bset for v in f): return False
            ps = [uv[v] for v in f]
            return any(all(p[ax] == val for p in ps) for ax in (0, 1) for val in (0.0, 1.0))
        if any(oneside(f) for f in F): applicable = False
    if applicable and not any(o["key"].startswith("C17/border") for o in out):
        signs = [orient2d(uv[f[0]], uv[f[1]], uv[f[2]]) for f in F]
        npos, nneg, nzero = sum(s > 0 for s in signs), sum(s < 0 for s in signs), sum(s == 0 for s in signs)
        pocket = False
        if case["mode"] == "square":
            hs = {(f[i], f[(i + 1) % 3]) for f in F for i in range(3)}
            for (a, b) in hs:
                if (b, a) in hs and a in bset and b in bset and \
                        any(uv[a][ax] == val and uv[b][ax] == val for ax in (0, 1) for val in (0.0, 1.0)):
                    pocket = True
        if nzero and pocket:
            # an interior edge joins two border vertices of ONE side of the square and interior vertices lie behind it: they are
            # harmonic with collinear boundary data, hence on that side; no triangle has three BORDER vertices on the side
            bad("fold/zero-area/square/pocket-behind-chord-on-one-side", "square target: an interior edge joins two border vertices of one "
                "side and the interior vertices behind it are flattened onto that side (zero-area triangles) although no triangle has "
                "its three vertices among the border vertices of that side", f"{nzero} of {len(F)} faces; first {signs.index(0)}")
        elif nzero:
            bad(f"fold/zero-area/{kind}", "a triangle has zero area in the embedding", f"{nzero} of {len(F)} faces; first {signs.index(0)}")
        elif npos and nneg:
            bad(f"fold/flipped/{kind}", "triangles do not all have the same orientation", f"{npos} positive, {nneg} negative")
    # 4. per-vertex and per-corner outputs agree; flat_mesh carries the same coordinates
    if "uv_other" in rec:
        vv = rec["uv_other"] if case["corners"] else rec["uv"]
        cc = rec["uv"] if case["corners"] else rec["uv_other"]
        for t, f in enumerate(F):
            if any(tuple(cc[3 * t + i]) != tuple(vv[f[i]]) for i in range(3)):
                bad("storage/corner-vs-vertex", "per-corner and per-vertex outputs differ", f"face {t}"); break
    else:
        bad(f"storage/other-raises/{rec.get('err_other')}", "the run with the other storage mode raised", "")
    if any(tuple(rec["flat"][v]) != (uv[v][0], uv[v][1], 0.0) for v in range(len(uv))):
        bad("storage/flat_mesh", "flat_mesh does not carry the uv coordinates", "")
    return out


def impl_observe(case):
    rec = _run(case)
    if rec["err"]:
        return rec["err"]
    return "ok " + " ".join(f"{G.frac(p[0])} {G.frac(p[1])}" if math.isfinite(p[0]) and math.isfinite(p[1]) else "nan nan" for p in rec["uv"])


MAX_FREE_MODEL = 30


def model_request(case):
    rec = _run(case)
    if "free" not in rec or "bnd" not in rec or len(rec["free"]) > MAX_FREE_MODEL:
        return None
    if rec["err"] and rec["err"] != "err:Other(Exception)" and stats(case)["chi"] == 1:
        return None
    F = case["F"]
    if any(len(f) != 3 for f in F):
        return None
    faces = " ".join([str(len(F))] + [" ".join(["3"] + [str(v) for v in f]) for f in F])
    nats = lambda l: " ".join([str(len(l))] + [str(int(x)) for x in l])
    if case["cotan"]:
        if "cot" not in rec or not all(math.isfinite(c) for c in rec["cot"]): return None
        cot = "C " + " ".join([str(len(rec["cot"]))] + [G.frac(c) for c in rec["cot"]])
    else:
        cot = "U"
    if case["mode"] == "custom":
        pos = {int(v): (u, w) for v, u, w in case["custom"]}
        if any(v not in pos for v in rec["bnd"]): return None
        cust = " ".join([str(len(rec["bnd"]))] + [f"{G.frac(pos[v][0])} {G.frac(pos[v][1])}" for v in rec["bnd"]])
    else:
        cust = "0"
    return (f"tutte {rec['nV']} {rec['nE']} {faces} {case['mode']} {nats(rec['free'])} {nats(rec['bnd'])} {cot} "
            f"{'C' if case['corners'] else 'V'} {cust}")


def _parse_model(model):
    parts = model.split(" ; ")
    b = parts[0].split()
    n = int(b[1])
    if b[0] == "T":
        turns = [Fraction(t) for t in b[2:2 + n]]
        pB = [(math.cos(2 * math.pi * float(t)), math.sin(2 * math.pi * float(t))) for t in turns]
    else:
        vals = [Fraction(t) for t in b[2:2 + 2 * n]]
        pB = [(float(vals[2 * i]), float(vals[2 * i + 1])) for i in range(n)]
    h = parts[1].split()
    nI = int(h[1]); rows = []; k = 2
    for _ in range(nI):
        m = int(h[k]); rows.append([Fraction(t) for t in h[k + 1:k + 1 + m]]); k += 1 + m
    s = parts[2].split()
    slots = s[2:2 + int(s[1])]
    return pB, rows, slots, parts[3]


def compare(case, model, impl):
    if impl.startswith("err") or model.startswith("err"):
        if model == impl: return None
        if model == "err:Singular" and "nan" in impl: return None
        return f"model {model[:60]} / implementation {impl[:60]}"
    pB, rows, slots, rflag = _parse_model(model)
    if rflag != "R1":
        return "the model's exact solution does not satisfy L_II H + L_IB = 0 (model defect)"
    toks = impl.split()[1:]
    if len(toks) != 2 * len(slots):
        return f"number of stored values differs: model {len(slots)} slots / implementation {len(toks) // 2}"
    interior = []
    for row in rows:
        fr = [float(h) for h in row]
        x = sum(h * p[0] for h, p in zip(fr, pB)); y = sum(h * p[1] for h, p in zip(fr, pB))
        sc = sum(abs(h) * (abs(p[0]) + abs(p[1])) for h, p in zip(fr, pB)) + 1.0
        interior.append((x, y, sc))
    for i, sl in enumerate(slots):
        if toks[2 * i] == "nan": return f"implementation value {i} is not finite"
        u, v = float(Fraction(toks[2 * i])), float(Fraction(toks[2 * i + 1]))
        if sl == "Z": ex, ey, sc = 0.0, 0.0, 1.0
        elif sl[0] == "B": ex, ey = pB[int(sl[1:])]; sc = 1.0 + abs(ex) + abs(ey)
        else: ex, ey, sc = interior[int(sl[1:])]
        if abs(u - ex) > 1e-9 * sc + 1e-12 or abs(v - ey) > 1e-9 * sc + 1e-12:
            return f"slot {i} ({sl}): implementation ({u}, {v}) / exact model ({ex}, {ey})"
    return None


def nontrivial(case, obs):
    return is_disk(case) and obs.startswith("ok") and len(border_cycle(case["F"])) < len(case["V"])


def classify(case, obs):
    st = stats(case)
    ks = [f"mode:{case['mode']}", f"weights:{'cotan' if case['cotan'] else 'uniform'}", f"storage:{'corner' if case['corners'] else 'vertex'}",
          "fam:" + case.get("tag", "?"), "coords:" + case.get("coords", "float"), "hist:" + case.get("hist", "none")]
    if case["mode"] == "custom":
        ks.append("crep:" + case.get("crep", "f64"))
        ks.append("custom-with-boundary_mode-arg:" + ("square" if len(case["F"]) % 2 == 1 else "circle"))
    if is_disk(case):
        n = len(border_cycle(case["F"]))
        ks += [f"border%4:{n % 4}", "border:" + ("3" if n == 3 else "<=8" if n <= 8 else "<=20" if n <= 20 else ">20"),
               "interior:" + ("0" if n == len(case["V"]) else ">0")]
        sides = {(f[i], f[(i + 1) % 3]) for f in case["F"] for i in range(3)}
        b = set(border_cycle(case["F"]))
        chords = sum(1 for (a, c) in sides if a < c and (c, a) in sides and a in b and c in b)
        ks.append("chords:" + ("0" if chords == 0 else ">0"))
    else:
        ks.append(f"nondisk:chi{st['chi']}")
    if obs.startswith("err"): ks.append(obs)
    ks.append("model:" + ("compared" if model_request(case) is not None else "oracle-only"))
    return ks


def describe(case):
    return {"tag": case.get("tag"), "nV": len(case["V"]), "nF": len(case["F"]), "mode": case["mode"], "cotan": case["cotan"],
            "corners": case["corners"], "coords": case.get("coords", "float"), "crep": case.get("crep"), "hist": case.get("hist", "none")}


def cases(rng, tier):
    n_disks, maxf = (150, 60) if tier == "quick" else (700, 300)
    for k in range(n_disks):
        bl = None
        if k % 3 == 0: bl = rng.randint(3, 24 if tier == "quick" else 60)
        d = CG.tri_disk(rng, rng.choice([10, 30, maxf]), border_len=bl)
        custom = make_custom(rng, d["F"])
        for mode in MODES:
            for cotan in (False, True):
                corners = rng.random() < 0.5
                c = {"V": d["V"], "F": d["F"], "mode": mode, "cotan": cotan, "corners": corners, "tag": d["tag"]}
                if mode == "custom": c["custom"] = custom
                yield c
    # representations (integer / binary32 coordinates, custom array dtypes and layouts) and histories (Part A of round 3)
    for k in range(40 if tier == "quick" else 300):
        d = CG.tri_disk(rng, rng.choice([10, 30, maxf]))
        base = {"V": d["V"], "F": d["F"], "tag": d["tag"]}
        # integer-valued coordinates: scale by 4 and round; keep only well shaped results
        Vi = [[float(round(4 * c)) for c in v] for v in d["V"]]
        sti = G.surface_stats(len(Vi), d["F"])
        if len({tuple(v) for v in Vi}) == len(Vi) and CG.min_angle_deg(Vi, d["F"]) >= 4.0:
            yield dict(base, V=Vi, coords="int", mode=rng.choice(["circle", "square"]), cotan=rng.random() < 0.6, corners=rng.random() < 0.5)
        yield dict(base, coords="f32", mode=rng.choice(["circle", "square"]), cotan=rng.random() < 0.6, corners=rng.random() < 0.5)
        custom = make_custom(rng, d["F"])
        crep = rng.choice(CREPS[1:])
        if crep == "int":   # integer custom positions: the dyadic positions (denominator 2^20) scaled to integers
            custom = [[v, float(round(u * (1 << 20))), float(round(w * (1 << 20)))] for v, u, w in custom]
        yield dict(base, mode="custom", custom=custom, crep=crep, cotan=rng.random() < 0.5, corners=rng.random() < 0.5)
        hist = rng.choice(HISTS[1:])
        mode = rng.choice(MODES)
        c = dict(base, mode=mode, cotan=rng.random() < 0.5, corners=rng.random() < 0.5, hist=hist)
        if mode == "custom": c["custom"] = make_custom(rng, d["F"])
        if hist in ("second", "second-otherweights"): c["hist_mode"] = rng.choice(["circle", "square"])
        yield c
        # weights histories on strongly non-equilateral geometry: cotangent run then uniform run on the same mesh and back
        c2 = dict(base, mode=rng.choice(["circle", "square"]), cotan=(k % 2 == 0), corners=rng.random() < 0.5,
                  hist=rng.choice(["second-otherweights", "attrs"]), hist_mode=rng.choice(["circle", "square"]))
        yield c2
    # needle triangles (round 5): an angle below 3 degrees, i.e. |cot| > 19 - the cotangent weights are recomputed independently
    # by the oracle, so anything done to large cotangents inside the library shows up as "not at the weighted average"
    for c in needle_cases(rng, 14 if tier == "quick" else 120):
        yield c
    for _ in range(40 if tier == "quick" else 200):
        s = CG.connected_tri_surface(rng, 30)
        if s["stats"]["chi"] == 1 and s["stats"]["loops"] == 1: continue
        yield {"V": s["V"], "F": s["F"], "mode": rng.choice(["circle", "square"]), "cotan": False, "corners": rng.random() < 0.5,
               "tag": "nondisk:" + s["tag"]}


def needle_cases(rng, n):
    """disks with at least one triangle angle in (0.4, 2.9) degrees: (a) rows of isosceles triangles (all angles acute: every
    cotangent weight positive, so the orientation clause applies as well), (b) a well-shaped disk stretched along one axis"""
    out = []
    tries = 0
    while len(out) < n and tries < 20 * n:
        tries += 1
        if tries % 2 == 0:
            nc, nr = rng.randint(3, 5), rng.randint(3, 5)
            base = 1.0
            ang = rng.choice([0.6, 1.0, 1.5, 2.0, 2.3, 2.7])                     # apex angle in degrees
            height = G.dy(base / (2 * math.tan(math.radians(ang) / 2)), 1 << 10)
            V = [[base * (i + 0.5 * (j % 2)), height * j, 0.0] for j in range(nr) for i in range(nc)]
            F = []
            for j in range(nr - 1):
                for i in range(nc - 1):
                    L0, L1, U0, U1 = j * nc + i, j * nc + i + 1, (j + 1) * nc + i, (j + 1) * nc + i + 1
                    F += [[L0, L1, U0], [L1, U1, U0]] if j % 2 == 0 else [[L0, U1, U0], [L0, L1, U1]]
            tag = "needle-rows"
        else:
            d = CG.tri_disk(rng, rng.choice([10, 30]))
            k = rng.choice([12.0, 20.0, 32.0, 50.0])
            ax = rng.randint(0, 1)
            V = [[c * (k if t == ax else 1.0) for t, c in enumerate(v)] for v in d["V"]]
            F = d["F"]
            tag = "needle-stretch"
        st = G.surface_stats(len(V), F)
        if not (st["manifold"] and st["components"] == 1 and st["chi"] == 1 and st["loops"] == 1 and st["unused"] == 0): continue
        ma = CG.min_angle_deg(V, F)
        if not (0.4 < ma < 2.9): continue
        out.append({"V": V, "F": F, "mode": rng.choice(["circle", "square"]), "cotan": True, "corners": rng.random() < 0.5, "tag": tag})
    return out


def shrink(case, still):
    cur = case
    for k, v in (("cotan", False), ("corners", False)):
        if cur.get(k) != v:
            t = dict(cur); t[k] = v
            if still(t): cur = t
    return cur


def search_on_break(rng, broken, mismatches):
    out = []
    for n in list(range(3, 30)):
        V, F = CG.fan_disk(rng, n, rng.randint(0, 1))
        if CG.min_angle_deg(V, F) < 2: continue
        for mode in ("square", "circle"):
            out.append({"V": [[float(c) for c in v] for v in V], "F": F, "mode": mode, "cotan": False, "corners": n % 2 == 0, "tag": "fan"})
    return out


# ------------------------------------------------------------------------------------------------
# translated fragment: the SQUARE branch of TutteEmbedding._initialize_boundary
# ------------------------------------------------------------------------------------------------
def _rat_expr(node, ivar):
    import ast
    from .. import translate as T
    if isinstance(node, ast.Constant) and isinstance(node.value, int) and not isinstance(node.value, bool):
        return f"({node.value} : Rat)"
    if isinstance(node, ast.Name) and node.id == "n": return "(n : Rat)"
    if isinstance(node, ast.Name) and node.id == ivar: return "(i : Rat)"
    ops = {ast.Add: "+", ast.Sub: "-", ast.Mult: "*", ast.Div: "/"}
    if isinstance(node, ast.BinOp) and type(node.op) in ops:
        return f"({_rat_expr(node.left, ivar)} {ops[type(node.op)]} {_rat_expr(node.right, ivar)})"
    raise T.TranslateError(f"unsupported expression in square boundary: {ast.dump(node)[:100]}")


def _translate_square():
    import ast
    from .. import translate as T
    tree, _ = T.load("mouette/processing/parametrization/tutte.py")
    fn = T.find_def(tree, "TutteEmbedding._initialize_boundary")
    branch = None
    for node in ast.walk(fn):
        if isinstance(node, ast.If) and isinstance(node.test, ast.Compare) and len(node.test.comparators) == 1 \
                and isinstance(node.test.comparators[0], ast.Attribute) and node.test.comparators[0].attr == "SQUARE":
            branch = node
    if branch is None: raise T.TranslateError("SQUARE branch of _initialize_boundary not found")
    body = branch.body
    if len(body) != 9: raise T.TranslateError(f"SQUARE branch: expected 9 statements (corners, 4 corner writes, 4 loops), found {len(body)}")
    a0 = body[0]
    if not (isinstance(a0, ast.Assign) and isinstance(a0.targets[0], ast.Name) and a0.targets[0].id == "corners"
            and isinstance(a0.value, ast.List) and len(a0.value.elts) == 4):
        raise T.TranslateError("SQUARE branch: `corners = [..4 entries..]` not recognised")
    corners = [T.lean_int_expr(e) for e in a0.value.elts]
    cu, cv = [], []
    for k, st in enumerate(body[1:5]):
        ok = isinstance(st, ast.Assign) and isinstance(st.targets[0], ast.Tuple) and len(st.targets[0].elts) == 2 \
            and isinstance(st.value, ast.Tuple) and len(st.value.elts) == 2
        if ok:
            tu, tv = st.targets[0].elts
            for t, nm in ((tu, "U"), (tv, "V")):
                ok = ok and isinstance(t, ast.Subscript) and isinstance(t.value, ast.Name) and t.value.id == nm \
                    and isinstance(t.slice, ast.Subscript) and isinstance(t.slice.value, ast.Name) and t.slice.value.id == "corners" \
                    and isinstance(t.slice.slice, ast.Constant) and t.slice.slice.value == k
        if not ok: raise T.TranslateError(f"SQUARE branch: corner write {k} not recognised")
        cu.append(_rat_expr(st.value.elts[0], "_")); cv.append(_rat_expr(st.value.elts[1], "_"))
    ranges, starts, lu, lv = [], [], [], []
    for k, st in enumerate(body[5:9]):
        if not isinstance(st, ast.For): raise T.TranslateError(f"SQUARE branch: loop {k} is not a for loop")
        it = st.iter
        if isinstance(st.target, ast.Name) and isinstance(it, ast.Call) and getattr(it.func, "id", None) == "range" and len(it.args) == 2:
            ivar = idx = st.target.id
            if not (isinstance(it.args[0], ast.Constant) and isinstance(it.args[0].value, int)):
                raise T.TranslateError(f"loop {k}: range start is not a literal")
            start = it.args[0].value; rng = it
        elif isinstance(st.target, ast.Tuple) and len(st.target.elts) == 2 and isinstance(it, ast.Call) \
                and getattr(it.func, "id", None) == "enumerate" and len(it.args) in (1, 2) and isinstance(it.args[0], ast.Call) \
                and getattr(it.args[0].func, "id", None) == "range" and len(it.args[0].args) == 2 and not it.keywords:
            ivar, idx = st.target.elts[0].id, st.target.elts[1].id
            start = 0
            if len(it.args) == 2:
                if not (isinstance(it.args[1], ast.Constant) and isinstance(it.args[1].value, int)):
                    raise T.TranslateError(f"loop {k}: enumerate start is not a literal")
                start = it.args[1].value
            rng = it.args[0]
        else:
            raise T.TranslateError(f"SQUARE branch: loop {k} header not recognised")
        ranges.append((T.lean_int_expr(rng.args[0]), T.lean_int_expr(rng.args[1]))); starts.append(start)
        eu = ev = None
        for b in st.body:
            if not (isinstance(b, ast.Assign) and isinstance(b.targets[0], ast.Subscript) and isinstance(b.targets[0].value, ast.Name)
                    and b.targets[0].value.id in ("U", "V") and isinstance(b.targets[0].slice, ast.Name) and b.targets[0].slice.id == idx):
                raise T.TranslateError(f"SQUARE branch: loop {k}: statement not recognised")
            e = _rat_expr(b.value, ivar)
            if b.targets[0].value.id == "U": eu = e
            else: ev = e
        lu.append(eu); lv.append(ev)

    def table(name, ty, vals, last=True):
        rows = "".join(f"  | {k} => {v}\n" for k, v in enumerate(vals[:-1]))
        return f"def {name} (n : Nat) : Nat → {ty}\n{rows}  | _ => {vals[-1]}\n"
    opt = lambda e: "none" if e is None else (f"some (fun (i : Nat) => {e})" if "(i : Rat)" in e else f"some (fun (_ : Nat) => {e})")
    body_l = ("namespace Mouette.Generated.C17\n\n"
              f"/-- `corners = [...]` -/\ndef corners (n : Nat) : List Nat := [{', '.join(corners)}]\n\n"
              f"/-- values written at the four corners -/\ndef cornerU : List Rat := [{', '.join(cu)}]\ndef cornerV : List Rat := [{', '.join(cv)}]\n\n"
              "/-- `range(a, b)` of the four loops -/\n" + table("rangeOf", "Nat × Nat", [f"({a}, {b})" for a, b in ranges]) +
              "\n/-- first value of the running index `i` of each loop -/\n" + table("startOf", "Nat", [str(x) for x in starts]).replace("(n : Nat) ", "(_n : Nat) ") +
              "\n/-- expression written into `U` / `V` by each loop, as a function of the running index -/\n" +
              table("loopU", "Option (Nat → Rat)", [opt(e) for e in lu]) + "\n" + table("loopV", "Option (Nat → Rat)", [opt(e) for e in lv]) +
              "\nend Mouette.Generated.C17\n")
    _, sha = T.write_generated("C17Tutte", body_l)
    return sha


def _sym_expr(node, names):
    """arithmetic over the given names (name -> Lean term) and numeric literals -> Lean Rat term"""
    import ast
    from .. import translate as T
    if isinstance(node, ast.Constant) and isinstance(node.value, (int, float)) and not isinstance(node.value, bool):
        fr = Fraction(node.value)
        return f"(({fr.numerator} : Rat) / ({fr.denominator} : Rat))" if fr.denominator != 1 else f"({fr.numerator} : Rat)"
    if isinstance(node, ast.Name) and node.id in names: return names[node.id]
    ops = {ast.Add: "+", ast.Sub: "-", ast.Mult: "*", ast.Div: "/"}
    if isinstance(node, ast.BinOp) and type(node.op) in ops:
        return f"({_sym_expr(node.left, names)} {ops[type(node.op)]} {_sym_expr(node.right, names)})"
    raise T.TranslateError(f"unsupported expression: {ast.dump(node)[:100]}")


def _translate_rest():
    """CIRCLE and CUSTOM branches of _initialize_boundary, the Euler gate and the choice of the border order in run()"""
    import ast
    from .. import translate as T
    tree, _ = T.load("mouette/processing/parametrization/tutte.py")
    fn = T.find_def(tree, "TutteEmbedding._initialize_boundary")

    def branch(attr):
        for node in ast.walk(fn):
            if isinstance(node, ast.If) and isinstance(node.test, ast.Compare) and len(node.test.comparators) == 1 \
                    and isinstance(node.test.ops[0], ast.Eq) and isinstance(node.test.comparators[0], ast.Attribute) \
                    and node.test.comparators[0].attr == attr:
                return node
        raise T.TranslateError(f"{attr} branch of _initialize_boundary not found")
    # --- CUSTOM: return self._custom_bnd[:,0], self._custom_bnd[:,1]
    cb = branch("CUSTOM").body
    ok = len(cb) == 1 and isinstance(cb[0], ast.Return) and isinstance(cb[0].value, ast.Tuple) and len(cb[0].value.elts) == 2
    cols = []
    if ok:
        for e in cb[0].value.elts:
            ok = ok and isinstance(e, ast.Subscript) and isinstance(e.value, ast.Attribute) and e.value.attr == "_custom_bnd" \
                and isinstance(e.slice, ast.Tuple) and len(e.slice.elts) == 2 and isinstance(e.slice.elts[0], ast.Slice) \
                and e.slice.elts[0].lower is None and e.slice.elts[0].upper is None and e.slice.elts[0].step is None \
                and isinstance(e.slice.elts[1], ast.Constant) and isinstance(e.slice.elts[1].value, int)
            if ok: cols.append(e.slice.elts[1].value)
    if not ok: raise T.TranslateError("CUSTOM branch: `return self._custom_bnd[:,a], self._custom_bnd[:,b]` not recognised")
    # --- CIRCLE: for i in range(n): rt = cmath.rect(R, ANGLE); U[i] = rt.real; V[i] = rt.imag
    cc = branch("CIRCLE").body
    if not (len(cc) == 1 and isinstance(cc[0], ast.For) and isinstance(cc[0].target, ast.Name) and isinstance(cc[0].iter, ast.Call)
            and getattr(cc[0].iter.func, "id", None) == "range" and len(cc[0].iter.args) == 1 and len(cc[0].body) == 3):
        raise T.TranslateError("CIRCLE branch: `for i in range(..)` with three statements not recognised")
    ivar = cc[0].target.id
    rng_hi = T.lean_int_expr(cc[0].iter.args[0])
    a0, a1, a2 = cc[0].body
    if not (isinstance(a0, ast.Assign) and isinstance(a0.targets[0], ast.Name) and isinstance(a0.value, ast.Call)
            and isinstance(a0.value.func, ast.Attribute) and a0.value.func.attr == "rect" and len(a0.value.args) == 2):
        raise T.TranslateError("CIRCLE branch: `rt = cmath.rect(r, angle)` not recognised")
    rt = a0.targets[0].id
    radius = _sym_expr(a0.value.args[0], {})
    angle = _sym_expr(a0.value.args[1], {"pi": "p", "n": "(n : Rat)", ivar: "(i : Rat)"})
    parts = {}
    for st in (a1, a2):
        if not (isinstance(st, ast.Assign) and isinstance(st.targets[0], ast.Subscript) and isinstance(st.targets[0].value, ast.Name)
                and st.targets[0].value.id in ("U", "V") and isinstance(st.targets[0].slice, ast.Name) and st.targets[0].slice.id == ivar
                and isinstance(st.value, ast.Attribute) and isinstance(st.value.value, ast.Name) and st.value.value.id == rt
                and st.value.attr in ("real", "imag")):
            raise T.TranslateError("CIRCLE branch: `U[i] = rt.real` / `V[i] = rt.imag` not recognised")
        parts[st.targets[0].value.id] = st.value.attr
    if set(parts) != {"U", "V"}: raise T.TranslateError("CIRCLE branch: U and V are not both assigned")
    # --- run(): gate and border order
    run = T.find_def(tree, "TutteEmbedding.run")
    gate = None
    for node in run.body:
        if isinstance(node, ast.If) and isinstance(node.test, ast.Compare) and isinstance(node.test.left, ast.Call) \
                and getattr(node.test.left.func, "id", None) == "euler_characteristic" and len(node.test.ops) == 1 \
                and isinstance(node.test.comparators[0], ast.Constant) and isinstance(node.test.comparators[0].value, int) \
                and len(node.body) == 1 and isinstance(node.body[0], ast.Raise):
            opn = {ast.NotEq: "!=", ast.Eq: "==", ast.Gt: ">", ast.Lt: "<", ast.GtE: ">=", ast.LtE: "<="}.get(type(node.test.ops[0]))
            if opn is None: raise T.TranslateError("gate: comparison operator not recognised")
            gate = (opn, node.test.comparators[0].value)
    if gate is None or run.body.index(next(n for n in run.body if isinstance(n, ast.If))) != 0 and not isinstance(run.body[0], ast.Expr):
        raise T.TranslateError("run(): `if euler_characteristic(self.mesh) <op> <int>: raise` not found as the first statement")
    bsrc = None
    for node in run.body:
        if isinstance(node, ast.If) and isinstance(node.test, ast.Compare) and isinstance(node.test.left, ast.Attribute) \
                and node.test.left.attr == "_bnd_mode" and isinstance(node.test.ops[0], ast.Eq) \
                and isinstance(node.test.comparators[0], ast.Attribute) and node.test.comparators[0].attr == "CUSTOM" \
                and len(node.body) == 1 and len(node.orelse) == 1:
            b, o = node.body[0], node.orelse[0]
            if isinstance(b, ast.Assign) and isinstance(b.value, ast.Attribute) and isinstance(o, ast.Assign) and isinstance(o.value, ast.Call):
                bsrc = (b.value.attr, getattr(o.value.func, "id", None))
    if bsrc is None: raise T.TranslateError("run(): choice of bndInds (CUSTOM -> attribute, else -> call) not recognised")
    leanop = {"!=": "!=", "==": "==", ">": ">", "<": "<", ">=": "≥", "<=": "≤"}[gate[0]]
    rej = f"decide (chi {leanop} {gate[1]})" if gate[0] not in ("!=", "==") else f"(chi {leanop} {gate[1]})"
    body = ("namespace Mouette.Generated.C17B\n\n"
            f"/-- `if euler_characteristic(self.mesh) {gate[0]} {gate[1]}: raise` -/\ndef rejects (chi : Int) : Bool := {rej}\n\n"
            f"/-- CUSTOM: columns of `custom_boundary` returned as (U, V) -/\ndef customCols : Nat × Nat := ({cols[0]}, {cols[1]})\n\n"
            f"/-- CIRCLE: `for {ivar} in range({rng_hi})` -/\ndef circleCount (n : Nat) : Nat := {rng_hi}\n\n"
            f"/-- first argument of `cmath.rect` -/\ndef circleRadius : Rat := {radius}\n\n"
            f"/-- second argument of `cmath.rect`, with `pi` as the parameter `p` -/\ndef circleAngle (p : Rat) (n i : Nat) : Rat := {angle}\n\n"
            f"/-- which part of the complex number goes to U and to V -/\ndef circleParts : String × String := (\"{parts['U']}\", \"{parts['V']}\")\n\n"
            f"/-- border order used for the rows: CUSTOM -> `mesh.{bsrc[0]}`, otherwise `{bsrc[1]}(mesh)` -/\n"
            f"def bndSource : String × String := (\"{bsrc[0]}\", \"{bsrc[1]}\")\n\nend Mouette.Generated.C17B\n")
    _, sha = T.write_generated("C17TutteB", body)
    return sha


def translate():
    from .. import translate as T
    from ..gen import c17_translate
    r1 = T.site("tutte.py: TutteEmbedding._initialize_boundary (SQUARE branch: corners, ranges, affine expressions)", _translate_square)
    r2 = T.site("tutte.py: _initialize_boundary CIRCLE + CUSTOM branches, run(): Euler gate and border order", _translate_rest)
    # a site that raised must not leave the fragments of an earlier tree on disk: a stub without definitions makes its bridges fail
    for r, name, ns in ((r1, "C17Tutte", "C17"), (r2, "C17TutteB", "C17B")):
        if not r["ok"]:
            T.write_generated(name, f"namespace Mouette.Generated.{ns}\n/- translation of the current tree FAILED: no definitions are emitted -/\n"
                                    f"end Mouette.Generated.{ns}\n")
    return [r1, r2] + c17_translate.sites()


_TUT = "mouette/processing/parametrization/tutte.py::TutteEmbedding."
_LAPF = "mouette/operators/laplacian_op.py::"
_BRD = "mouette/processing/border.py::"
SOURCE_MAP = {
    _TUT + "BoundaryMode.from_string": "translated",
    _TUT + "__init__": "translated",
    _TUT + "run": "translated",
    _TUT + "_initialize_boundary": "translated",
    "mouette/processing/parametrization/base.py::BaseParametrization.__init__": "translated: the keyword and default of save_on_corners (init_source); the other attribute initialisations are oracle-only",
    "mouette/processing/parametrization/base.py::BaseParametrization.run": "out-of-scope: abstract method",
    "mouette/processing/parametrization/base.py::BaseParametrization.flat_mesh": "translated: the keys read per corner / per vertex and the zero third coordinate; the lazy copy is oracle-only",
    _LAPF + "graph_laplacian": "out-of-scope: not used by TutteEmbedding",
    _LAPF + "graph_laplacian.add": "out-of-scope: not used by TutteEmbedding",
    _LAPF + "laplacian": "translated: the branch `connection is None` (the only one TutteEmbedding reaches)",
    _LAPF + "cotan_edge_diagonal": "out-of-scope: not used by TutteEmbedding",
    _LAPF + "laplacian_triangles": "out-of-scope: not used by TutteEmbedding",
    _LAPF + "laplacian_edges": "out-of-scope: not used by TutteEmbedding",
    _LAPF + "volume_laplacian": "out-of-scope: not used by TutteEmbedding",
    _LAPF + "laplacian_tetrahedra": "out-of-scope: not used by TutteEmbedding",
    _BRD + "extract_border_cycle": "oracle-only",
    _BRD + "extract_border_cycle_all": "out-of-scope: not used by TutteEmbedding (C15)",
    _BRD + "extract_boundary_of_surface": "out-of-scope: not used by TutteEmbedding (C15)",
    _BRD + "extract_boundary_of_volume": "out-of-scope: not used by TutteEmbedding (C03)",
}


MANIFEST = {
    "level_text": ("Proof, PARTIAL. Lean 4 theorems about an executable exact-rational model of TutteEmbedding: the Euler gate; "
                   "per-corner value = per-vertex value of the corner's vertex for all index lists (storage_agree); every row of the "
                   "assembled Laplacian (uniform or cotangent, any face list) sums to zero and therefore a solution of the system places "
                   "each free vertex at the weighted average of its neighbours (interior_is_weighted_average, linear algebra over Rat); "
                   "orient2d: antisymmetry, cyclic invariance, sign preserved exactly by orientation-preserving affine maps, zero iff "
                   "collinear, barycentric inside test (the certificate checker of the oracle); square target AFTER the repair: for every "
                   "border length n >= 4 the sequential array writes equal a closed form whose points lie on the unit square's boundary, "
                   "are pairwise distinct and follow the border order - and the same for the arrays assembled from the corner indices, "
                   "ranges, index starts and affine expressions re-translated from tutte.py on every run (square_boundary_source); "
                   "circle target over the reals (Mathlib Real.cos/Real.sin): the exact positions (cos 2 pi i/n, sin 2 pi i/n) are on the unit "
                   "circle, pairwise distinct, in strictly convex position (each is the unique maximiser of a linear functional and lies on "
                   "no segment between two others) and any three taken in border order are strictly counter-clockwise; the driver's exact "
                   "residual check R1 implies that every free vertex is at the weighted average of its neighbours for every border data "
                   "(accepted_case_weighted_average), so interior_is_weighted_average applies to every case the driver accepts; the CIRCLE "
                   "and CUSTOM branches, the Euler gate and the choice of the border order are re-translated from tutte.py on every run "
                   "with bridge theorems (gate_source, circle_boundary_source, custom_boundary_source). The property is also checked on "
                   "histories (run() twice, a second embedder on a mesh that already carries uv_coords) and representations (integer and "
                   "binary32 coordinates; custom arrays of dtype float32/int64, Fortran-ordered, read-only, strided), by value. "
                   "ROUND 4 - TIE: the Laplacian assembly of laplacian_op.py (uniform weights 0.5, cot/2 for (p,q,r), the pairing [(p,q,c),(q,r,a),(r,p,b)], "
                   "the four COO writes per pair, n_coeffs, flag-first selection of the cotangents), the sub-matrices lap[free,:][:,free] / lap[free,:][:,bnd], "
                   "the right-hand sides -LB.dot(Ubnd) / -LB.dot(Vbnd), the four storage loops of run(), the from_string table and the keys read by "
                   "flat_mesh are re-translated from the source on every run (Generated/C17Sys.lean) with bridge theorems (laplacian_source, "
                   "lap_row_sums_zero_source, system_source: a solution of the system AS WRITTEN puts every free vertex at the weighted average of its "
                   "neighbours; storage_source, from_string_source, flat_mesh_source). ROUND 4 - DISCRETE MAXIMUM PRINCIPLE on exact rationals: with "
                   "positive weights (uniform always; cotangent when every corner cotangent is positive), neighbours of free vertices free or on the "
                   "border, and every free vertex joined to the border through free vertices, every closed half-plane containing the border positions "
                   "contains every interior position (the interior lies in the convex hull of the border: max_principle_model, "
                   "interior_in_every_halfplane_of_border, tutte_interior_in_hull_source from the system as written), strictly as soon as the vertex "
                   "reaches a border vertex strictly inside the half-plane (interior_strictly_inside_halfplane); round 5: strictly convex border (at most two "
                   "border positions on a supporting line) + three reachable border vertices => strictly inside (interior_strictly_inside_of_strictly_convex_border); "
                   "square target: a free vertex that reaches the corners (0,0) and (1,1) lies in the OPEN unit square (interior_strictly_inside_unit_square); "
                   "__init__ of TutteEmbedding / BaseParametrization translated (init_source). "
                   "NOT proved - checked on every run: Tutte/Floater (every triangle has the same strict orientation: exact orient2d on "
                   "Fractions of the output floats, uniform weights always, cotangent weights when non-negative, square target when no "
                   "triangle has its three vertices on one side); that the solver's output solves the system (exact model solution compared "
                   "at 1e-9*scale+1e-12); that Gauss-Jordan always succeeds with a zero residual (re-checked exactly per case: R1); the float "
                   "evaluation of cmath.rect (cos/sin are applied by the harness to the model's i/n); distinctness/order for custom convex "
                   "borders (oracle)."),
    "level_note": ("Trusted: Lean kernel + propext/Classical.choice/Quot.sound, Mathlib tactic modules; the hand-written model tied to "
                   "tutte.py/laplacian_op.py by correspondence (disks with <= 30 interior vertices; larger ones oracle only) and by the "
                   "translated SQUARE branch; spsolve, cmath.rect, the cotangent attribute and extract_border_cycle are inputs; float "
                   "round-off not modelled."),
    "technique": "Lean 4 algebraic proofs (ring/linarith/omega) over an exact rational model + translated fragment with rfl bridges + differential correspondence + exact orientation oracle",
}
