"""C03 — volume connectivity answers agree with the cell list; boundary extraction.

Two kinds of cases
  t=vol   a conforming tetrahedral mesh; every connectivity accessor on every element is queried on ONE instance
          in a shuffled order with `connectivity.clear()` interleaved (history), then both boundary extractors;
          the model (Lean, `Model/Volume.lean`) answers the same questions from the prepared containers.
  t=lazy  a history of accessor calls on a FRESH instance (incl. every accessor as the first query); the model is
          the guard-table state machine over the table translated from the source (`Generated/C03.lean`).
The oracle re-states the property in Python by brute force over the cell list (independent of the Lean model).
"""
import functools, itertools, json, random
from fractions import Fraction

from ..gen import mesh as G
from ..gen import c03gen as GV
from . import c03_translate
from . import c03_source

PID = "C03"
TITLE = "Volume connectivity answers agree with the cell list"
LEAN_MODULES = ["Mouette.Props.C03", "Mouette.Props.C03Source", "Mouette.Props.C03Boundary", "Mouette.Props.C03Order", "Mouette.Props.C03Walk", "Mouette.Props.C03Manifold", "Mouette.Props.C03Link", "Mouette.Props.C03Small"]
REQUIRED_THEOREMS = [
    # translated tables
    "adjTable_eq_model", "subFace_eq_model", "adjTable_row_omits_index", "adjTable_agrees_with_slices",
    "completedTable_eq_adjTable", "completedTable_consistently_oriented",
    "bcOrient_rule_eq_model", "sbOrient_rule_eq_model",
    # lazy guards
    "history_safe", "volumeGuards_wellGuarded", "volumeGuards_init_covers_caches",
    # orientation algebra
    "outward_iff_det", "oriented_face_outward", "completedTable_inward_of_positive",
    # connectivity vs direct inspection
    "faceToCells_eq_spec", "cellToFace_opposite", "cellToCell_eq_spec", "vertexToCell_eq_spec",
    "border_faces_iff_one_cell", "face_partition", "vertex_partition", "edge_partition",
    "boundaryVertices_eq_spec", "boundaryEdges_eq_spec",
    "boundary_vertex_maps_inverse", "boundary_face_maps_inverse", "boundary_edge_maps_inverse", "boundary_faces_exactly_border",
    "edge_to_cell_face_sets_eq_spec", "edge_ring_sorted_partial", "edge_to_cell_rotational_order",
    # round 2
    "boundary_closed", "boundary_closed_exactly_two", "faceToCells_each_once",
    "other_face_side_eq_spec", "common_face_eq_spec", "in_cell_index_eq_spec", "in_cell_face_index_eq_spec",
    "cell_to_edge_eq_spec", "edge_to_face_order_open", "edge_to_face_order_ring",
    # round 3
    "volumeGuards_clear_restores_fresh", "history_after_clear_eq_fresh", "meshGuards_wellGuarded", "meshGuards_init_covers_attrs",
    "walkLoops_eq_model", "edgeMapDomain_eq_model",
    # round 3b
    "boundary_maps_are_instance_state", "instances_isolated", "volume_two_instances_safe",
    # round 4: bridges Generated (compiled from the bodies of volume.py) = Model
    "compute_cell_adj_F2C_bridge", "compute_cell_adj_C2F_bridge", "compute_cell_adj_inside", "face_to_cells_bridge", "cell_to_face_bridge",
    "vertex_to_cell_bridge", "compute_edge_id_E2F_bridge", "compute_edge_id_E2C_bridge", "compute_adjacent_cell_bridge", "cell_to_cell_bridge",
    "is_face_on_border_bridge", "is_face_on_border_star_bridge", "boundary_faces_bridge", "boundary_vertices_bridge", "boundary_edges_bridge",
    "border_lists_bridge", "is_vertex_on_border_bridge",
    # round 4: headline theorems restated on the definitions compiled from the source
    "face_to_cells_source_eq_spec", "cell_to_face_source_opposite", "cell_to_cell_source_eq_spec", "vertex_to_cell_source_eq_spec",
    "boundary_faces_source_iff_one_cell", "boundary_vertices_edges_source_eq_spec", "edge_sets_source_eq_spec",
    # round 4, part B: the edge-umbrella hypotheses derived from a decidable predicate
    "edge_to_cell_order_of_umbrella",
    # round 4, part B: value-level staleness / clear() as a history theorem over the translated guard table
    "volume_no_stale_read_after_clear", "volume_stale_read_without_clear",
    # round 5: whole bodies of the boundary extraction, loop by loop, bridged to the hand model
    "esb_loop1", "esb_loop2", "esb_loop3", "genFace_eq", "extract_surface_boundary_bridge",
    "ebv_loop1", "ebv_loop2", "ebv_loop3", "genFaceS_eq", "extract_boundary_of_volume_bridge",
    "bc_init_edge_maps", "bc_init_edge_table_bridge",
    "boundary_maps_inverse_source", "boundary_surface_source_outward", "boundary_surface_source_closed",
    # round 5, part B: order of edge_to_face and "at most two border faces around an edge" from decidable predicates
    "umbrellaData_spec", "edge_to_face_order_of_faceOrder", "walkChain_dropLast_interior", "border_faces_around_edge_le_two",
    # round 6: other_face_side and the two `while True` walks of _sort_edge_neighborhoods, compiled and bridged to walk / sortEdge
    "other_face_side_bridge", "while1_bridge", "while2_bridge", "sort_edge_bridge", "sort_edge_frame", "sort_edge_neighborhoods_bridge",
    "edge_to_face_order_source", "edge_to_cell_order_source",
    # round 6: the volume-side flag faceCover gives the surface-side edge-manifoldness, hence "exactly two"
    "faceCover_spec", "mem_e2f_of_hasEdge", "boundaryEdgeManifold_of_faceCover", "boundary_closed_exactly_two_of_faceCover",
    "manifold_of_allFaceCover",
    "edge_to_cell_face_bridge",
    # round 7: the edge-umbrella hypothesis from a walk-free predicate (cells around the edge connected through the faces around it)
    "face_through_edge", "otherFaceSide_back", "walk_closed", "reach_of_closure", "eface_of_mem_e2f",
    "edgeUmbrella_of_linkConnected", "edge_to_cell_order_of_linkConnected",
    # round 7: single-return bodies
    "cell_to_vertex_bridge", "n_F2C_bridge", "id_lists_bridge", "is_cell_tet_bridge", "is_tetrahedral_bridge",
    # round 8: sets as values, loop with early return, guarded *args
    "common_face_bridge", "find_range_eq_findIdx?", "in_cell_index_bridge", "in_cell_face_index_bridge", "is_edge_on_border_bridge",
    # round 9
    "cell_to_edge_bridge", "boundary_mesh_spec",
]

TRUSTED = [
    "Lean 4.33.0 kernel; axioms ⊆ {propext, Classical.choice, Quot.sound}",
    "hand-written model Mouette/Model/Volume.lean of mouette/mesh/datatypes/volume.py and processing/border.py:"
    "extract_boundary_of_volume, tied to the code by the correspondence of this run (all accessors × all elements, "
    "shuffled histories) and by the translated fragments (face table, sub-face slice, orientation rule, guard table)",
    "round 4: the BODIES of _compute_cell_adj / _compute_connectivity / _compute_edge_id / _compute_adjacent_cell, of the accessors "
    "face_to_cells / cell_to_face / vertex_to_cell / cell_to_cell, of is_face_on_border / is_vertex_on_border, of "
    "_compute_interior_boundary_faces/_vertices/_edges and of the six border-list properties are compiled statement by statement "
    "(vlib/props/c03_source.py -> Generated/C03S.lean) and PROVED equal to the hand model (Props/C03Source.lean: *_bridge) for every "
    "tetrahedral mesh; trusted there: the container vocabulary lean/Mouette/Model/VolSource.lean (dict of lists = list indexed by key, "
    "set = insertion log observed through eraseDups, Attribute = association list), the inherited face_id / edge_id / face_to_edges "
    "(Mesh.faceIdD / edgeIdD / faceToEdges: C01's subject), and the compiler itself",
    "translator vlib/props/c03_translate.py (Python ast → Lean terms): guard/read/call/write events are taken in source "
    "order and every branch is assumed to execute; reads inside a try/except-Exception body are not events; `self.<property>` is a call",
    "the prepared containers (faces, edges) are inputs of the model; their completeness is a checked hypothesis "
    "(`conforming`), their construction belongs to C02",
    "floats: coordinates are dyadic rationals so that the determinant sign is exact in binary64",
]
ASSUMPTIONS = ["agreement model/implementation is established on the meshes and histories explored in this run only",
               "rotational order around an edge is checked (oracle + correspondence, up to rotation and reversal: the statement fixes "
               "neither start nor direction) on edges whose cells form one fan or one cycle; on non-manifold edges only the sets are compared",
               "hypothesis of the connectivity theorems: `Conforming` (4 distinct in-range vertices per cell, face container = the vertex "
               "triples of the cells each once, every triangle in at most two cells); the driver evaluates it on every generated mesh"]
RULE = ("conforming tet meshes (single, pair, fans around an edge/vertex, Kuhn grids with removed cells, several components, pieces glued "
        "at one vertex, pieces glued along one edge (non-manifold edge); positive/negative/mixed orientation; random numbering and cell "
        "vertex order); all accessors on all elements in shuffled order with clear() interleaved and a re-ask after clear(); both "
        "sort_neighborhoods settings; both boundary extractors; lazy histories over the FULL public API of the volume connectivity (own + inherited surface/polyline accessors) incl. every accessor as first query on a fresh instance "
        "(thorough: every ordered pair of accessors). Round 3: raw cells as lists / tuples / numpy int32-int64 rows / from_arrays, integer "
        "coordinates, user-declared faces and edges, numpy integer scalars as query arguments, the empty mesh; USED objects: queries, "
        "in-place relabelling of cells, clear(), queries again; cached border lists read twice; boundary connectivity enabled twice; "
        "standalone extractor twice on a mesh whose caches are filled; mesh-level accessors (boundary_*/interior_*/is_*_on_border/"
        "enable_boundary_connectivity) inside the lazy histories; hexahedral grids (oracle only). Round 3b: ANOTHER mesh in use - a second, "
        "different VolumeMesh and a SurfaceMesh are built, enabled, queried and cleared between the construction of the mesh under "
        "test and its queries, between its queries, and between enable_boundary_connectivity() and the reading of its index maps. non-trivial = distinct mesh with >=2 cells and >=1 interior face (vol) or distinct "
        "history with >=2 distinct accessors (lazy)")

ERRS = {KeyError: "err:Key", IndexError: "err:Index", ValueError: "err:Value", TypeError: "err:Type"}


def _err(e):
    return ERRS.get(type(e), f"err:Other({type(e).__name__})")


# ------------------------------------------------------------------------------------------------
# cases
# ------------------------------------------------------------------------------------------------
LAZY_ARGS = {  # accessor -> argument builder from (nV, nE, nF, nC, rng)
    "clear": lambda d, r: [], "n_F2C": lambda d, r: [r.randrange(d["nF"])],
    "face_to_cells": lambda d, r: [r.randrange(d["nF"])], "cell_to_face": lambda d, r: [r.randrange(d["nC"])],
    "cell_to_cell": lambda d, r: [r.randrange(d["nC"])],
    "other_face_side": lambda d, r: [r.randrange(d["nC"]), r.randrange(d["nF"])],
    "common_face": lambda d, r: [r.randrange(d["nC"]), r.randrange(d["nC"])],
    "vertex_to_cell": lambda d, r: [r.randrange(d["nV"])], "cell_to_vertex": lambda d, r: [r.randrange(d["nC"])],
    "in_cell_index": lambda d, r: [r.randrange(d["nC"]), r.randrange(d["nV"])],
    "in_cell_face_index": lambda d, r: [r.randrange(d["nC"]), r.randrange(d["nF"])],
    "edge_to_face": lambda d, r: [r.randrange(d["nE"])], "cell_to_edge": lambda d, r: [r.randrange(d["nC"])],
    "edge_to_cell": lambda d, r: [r.randrange(d["nE"])],
    "edge_id": lambda d, r: [r.randrange(d["nV"]), r.randrange(d["nV"])],
    "face_id": lambda d, r: [r.randrange(d["nV"]), r.randrange(d["nV"]), r.randrange(d["nV"])],
    "face_to_edges": lambda d, r: [r.randrange(d["nF"])],
    # inherited from SurfaceMesh._Connectivity / PolyLine._Connectivity (corners: 3 per stored triangle)
    "vertex_to_faces": lambda d, r: [r.randrange(d["nV"])], "vertex_to_corners": lambda d, r: [r.randrange(d["nV"])],
    "vertex_to_corner_in_face": lambda d, r: [r.randrange(d["nV"]), r.randrange(d["nF"])],
    "previous_corner": lambda d, r: [r.randrange(3 * d["nF"])], "next_corner": lambda d, r: [r.randrange(3 * d["nF"])],
    "opposite_corner": lambda d, r: [r.randrange(3 * d["nF"])], "corner_to_half_edge": lambda d, r: [r.randrange(3 * d["nF"])],
    "corner_to_face": lambda d, r: [r.randrange(3 * d["nF"])],
    "half_edge_to_corner": lambda d, r: [r.randrange(d["nV"]), r.randrange(d["nV"])],
    "direct_face": lambda d, r: [r.randrange(d["nV"]), r.randrange(d["nV"])],
    "edge_to_faces": lambda d, r: [r.randrange(d["nV"]), r.randrange(d["nV"])],
    "opposite_face": lambda d, r: [r.randrange(d["nV"]), r.randrange(d["nV"]), r.randrange(d["nF"])],
    "common_edge": lambda d, r: [r.randrange(d["nF"]), r.randrange(d["nF"])],
    "face_to_vertices": lambda d, r: [r.randrange(d["nF"])],
    "in_face_index": lambda d, r: [r.randrange(d["nF"]), r.randrange(d["nV"])],
    "face_to_first_corner": lambda d, r: [r.randrange(d["nF"])], "face_to_corners": lambda d, r: [r.randrange(d["nF"])],
    "face_to_faces": lambda d, r: [r.randrange(d["nF"])],
    "other_edge_end": lambda d, r: [r.randrange(d["nE"]), r.randrange(d["nV"])],
    "vertex_to_vertices": lambda d, r: [r.randrange(d["nV"])], "vertex_to_edges": lambda d, r: [r.randrange(d["nV"])],
    "edge_to_vertices": lambda d, r: [r.randrange(d["nE"])],
    # mesh-level caches of VolumeMesh itself (prefix `mesh.`: second guard table)
    "mesh.boundary_faces": lambda d, r: [], "mesh.interior_faces": lambda d, r: [], "mesh.boundary_edges": lambda d, r: [],
    "mesh.interior_edges": lambda d, r: [], "mesh.boundary_vertices": lambda d, r: [], "mesh.interior_vertices": lambda d, r: [],
    "mesh.is_face_on_border": lambda d, r: [r.randrange(d["nF"])], "mesh.is_vertex_on_border": lambda d, r: [r.randrange(d["nV"])],
    "mesh.is_edge_on_border": lambda d, r: [r.randrange(d["nE"])], "mesh.is_tetrahedral": lambda d, r: [],
    "mesh.is_cell_tet": lambda d, r: [r.randrange(d["nC"])], "mesh.enable_boundary_connectivity": lambda d, r: [],
}
MESH_PROPS = {"boundary_faces", "interior_faces", "boundary_edges", "interior_edges", "boundary_vertices", "interior_vertices"}


@functools.lru_cache(maxsize=1)
def _alphabet():
    try:
        g = c03_translate.extract_guards()
        names = [g["names"][i] for i in g["alphabet"]]
        gm = c03_translate.extract_guards(c03_translate.MESH_HIER, all_attrs=True, has_clear=False)
        names += ["mesh." + gm["names"][i] for i in gm["alphabet"]]
    except Exception:  # noqa  (the broken site is reported by translate())
        names = list(LAZY_ARGS)
    return [n for n in names if n in LAZY_ARGS]


def _dims(V, C):
    fc = GV.face_cells(C)
    ne = len({(a, b) for c in C for a, b in itertools.combinations(sorted(c), 2)})
    return {"nV": len(V), "nE": ne, "nF": len(fc), "nC": len(C)}


def cases(rng, tier):
    n_vol, n_lazy, maxc = (900, 1800, 48) if tier == "quick" else (5000, 8000, 230)
    # fixed small cases first
    fixed = [{"V": [[0., 0., 0.], [1., 0., 0.], [0., 1., 0.], [0., 0., 1.]], "C": [[0, 1, 2, 3]], "tag": "single/positive"},
             {"V": [[0., 0., 0.], [1., 0., 0.], [0., 1., 0.], [0., 0., 1.]], "C": [[1, 0, 2, 3]], "tag": "single/negative"}]
    fixed.append({"V": [], "C": [], "tag": "empty/positive"})
    for k in range(n_vol):
        if k < len(fixed): base = fixed[k]
        elif k % 12 == 5: base = GV.glue_along_edge(rng)          # non-manifold edge: order is only checked per fan
        else: base = GV.random_volume(rng, max_cells=rng.choice([6, 12, maxc]))
        case = {"t": "vol", "V": base["V"], "C": base["C"], "tag": base["tag"], "sort": rng.random() < 0.85,
                "order": rng.randrange(1 << 30)}
        if base["C"]:
            case["pairs"], case["cf"], case["cv"] = GV.query_samples(rng, base["V"], base["C"])
            # round 3 families (each on a share of the cases)
            r = rng.random()
            if r < 0.30:
                case["repr"] = rng.choice(GV.REPRS[1:])            # container / dtype of the raw cells and coordinates
            elif r < 0.40:
                case["decl_faces"], case["decl_edges"] = GV.declared_elements(rng, base["C"], rng.randint(1, 4))
            if rng.random() < 0.25: case["npargs"] = True          # numpy integer scalars as query arguments
            if rng.random() < 0.30:                                 # ANOTHER mesh (a different volume + a surface) is built, enabled and queried
                o = GV.random_volume(rng, max_cells=rng.choice([3, 8]))   # between the construction of this mesh and its queries
                case["other"] = {"V": o["V"], "C": o["C"]}
            if rng.random() < 0.25:                                 # used object: query, relabel cells in place, clear(), query again
                case["pre_swaps"] = GV.random_swaps(rng, base["C"], rng.randint(1, 3))
        else:
            case["pairs"], case["cf"], case["cv"] = [], [], []
        yield case
    for k in range(6 if tier == "quick" else 60):                  # hexahedral cells (oracle only)
        g = GV.hex_grid(rng, rng.randint(1, 3), rng.randint(1, 2), rng.randint(1, 2))
        yield {"t": "hex", "V": g["V"], "C": g["C"], "tag": g["tag"], "sort": True}
    alpha = _alphabet()
    small = [GV.random_volume(rng, max_cells=6) for _ in range(8)]
    k = 0
    for a in alpha:                       # every accessor as the first query on a fresh instance
        for b in [None] + (alpha if tier == "thorough" else []):
            base = small[k % len(small)]; k += 1
            d = _dims(base["V"], base["C"])
            ops = [[a] + LAZY_ARGS[a](d, rng)] + ([[b] + LAZY_ARGS[b](d, rng)] if b else [])
            yield {"t": "lazy", "V": base["V"], "C": base["C"], "tag": base["tag"], "sort": True, "ops": ops}
    for _ in range(n_lazy):
        base = rng.choice(small)
        d = _dims(base["V"], base["C"])
        L = rng.randint(2, 9)
        ops = []
        for _ in range(L):
            a = rng.choice(alpha) if rng.random() > 0.12 else "clear"
            ops.append([a] + LAZY_ARGS[a](d, rng))
        case = {"t": "lazy", "V": base["V"], "C": base["C"], "tag": base["tag"], "sort": rng.random() < 0.8, "ops": ops}
        if rng.random() < 0.3:
            o = rng.choice(small)
            if o is not base: case["other"] = {"V": o["V"], "C": o["C"]}
        yield case


# ------------------------------------------------------------------------------------------------
# implementation side
# ------------------------------------------------------------------------------------------------
def _initial_cells(case):
    """cells the mesh is BUILT with: `pre_swaps` are undone (they are applied in place later, before clear())"""
    return GV.apply_swaps(case["C"], list(reversed(case.get("pre_swaps", []))))


def _build(case, final=True):
    import mouette as M
    import numpy as np
    M.config.sort_neighborhoods = bool(case.get("sort", True))
    C = case["C"] if final else _initial_cells(case)
    rep = case.get("repr", "list")
    V = case["V"]
    if rep == "intcoords" and not all(float(x).is_integer() for v in V for x in v): rep = "list"
    if rep == "from_arrays":
        return M.mesh.from_arrays(np.array(V, dtype=float), C=np.array(C, dtype=np.int64))
    d = M.mesh.RawMeshData()
    if rep == "intcoords": d.vertices += [M.Vec(*[int(x) for x in v]) for v in V]
    else: d.vertices += [M.Vec(*v) for v in V]
    if case.get("decl_edges"): d.edges += [tuple(e) for e in case["decl_edges"]]
    if case.get("decl_faces"): d.faces += [list(f) for f in case["decl_faces"]]
    if rep == "tuple": d.cells += [tuple(c) for c in C]
    elif rep == "nprow64": d.cells += list(np.array(C, dtype=np.int64))
    elif rep == "nprow32": d.cells += list(np.array(C, dtype=np.int32))
    else: d.cells += [list(c) for c in C]
    return M.mesh.VolumeMesh(d)


def _ints(x):
    return [int(v) for v in x]


def _call(fn, *a):
    try:
        return fn(*a)
    except Exception as e:  # noqa
        return _err(e)


def _norm(v):
    """JSON-able normal form of an accessor's answer"""
    if isinstance(v, str) or v is None: return v
    if isinstance(v, (bool,)): return bool(v)
    if hasattr(v, "__iter__"): return [None if x is None else int(x) for x in v]
    return int(v)


@functools.lru_cache(maxsize=4)
def _observe_cached(key):
    return _observe(json.loads(key))


def observe(case):
    return _observe_cached(json.dumps(case, sort_keys=True))


def _observe(case):
    """drive the real implementation; returns a dict (JSON-able)"""
    import mouette as M
    old = M.config.sort_neighborhoods
    try:
        return _observe_vol(case) if case["t"] == "vol" else _observe_hex(case) if case["t"] == "hex" else _observe_lazy(case)
    finally:
        M.config.sort_neighborhoods = old


def _accessors(m, npargs=False):
    import numpy as np
    c = m.connectivity
    nV, nE, nF, nC = len(m.vertices), len(m.edges), len(m.faces), len(m.cells)
    I = (lambda i: (np.int64(i) if i % 2 else np.int32(i))) if npargs else (lambda i: i)
    q = {}
    for f in range(nF): q[("F2C", f)] = (c.face_to_cells, I(f))
    for k in range(nC):
        q[("C2F", k)] = (c.cell_to_face, I(k))
        q[("C2C", k)] = (c.cell_to_cell, I(k))
        q[("C2E", k)] = (c.cell_to_edge, I(k))
    for v in range(nV): q[("V2C", v)] = (c.vertex_to_cell, I(v))
    for e in range(nE):
        q[("E2C", e)] = (c.edge_to_cell, I(e))
        q[("E2F", e)] = (c.edge_to_face, I(e))
    return q


LISTS = (("BF", "boundary_faces"), ("IF", "interior_faces"), ("BV", "boundary_vertices"),
         ("IV", "interior_vertices"), ("BE", "boundary_edges"), ("IE", "interior_edges"))


def _observe_vol(case):
    m = _build(case, final=False)
    c = m.connectivity
    other = _Other(case)
    other.use()
    if case.get("pre_swaps"):
        # a USED object: everything is queried on the initial cells, then cells are relabelled in place (i-th <-> j-th vertex
        # of a cell: same mesh, other local numbering / orientation), then clear() as its docstring asks; all that follows
        # must describe the cell list as it is now
        for fn, a in _accessors(m).values(): _call(fn, a)
        for _, prop in LISTS: _call(lambda p=prop: list(getattr(m, p)))
        for ci, i, j in case["pre_swaps"]:
            cell = list(m.cells[ci]); cell[i], cell[j] = cell[j], cell[i]
            m.cells[ci] = cell
        c.clear()
    nV, nE, nF, nC = len(m.vertices), len(m.edges), len(m.faces), len(m.cells)
    obs = {"edges": [_ints(e) for e in m.edges], "faces": [_ints(f) for f in m.faces], "cells": [_ints(k) for k in m.cells],
           "nV": nV}
    q = _accessors(m, case.get("npargs", False))
    keys = list(q)
    rnd = random.Random(case["order"])
    rnd.shuffle(keys)
    clear_at = {rnd.randrange(len(keys) + 1) for _ in range(2)}
    ans = {}
    for i, k in enumerate(keys):
        if i in clear_at: c.clear(); other.use()
        fn, a = q[k]
        ans[k] = _norm(_call(fn, a))
    # re-ask a sample after another clear(): answers must not depend on the history
    c.clear()
    changed = []
    for k in rnd.sample(keys, min(25, len(keys))):
        fn, a = q[k]
        again = _norm(_call(fn, a))
        if _canon_any(k[0], again) != _canon_any(k[0], ans[k]): changed.append([k[0], k[1], ans[k], again])
    obs["hist_changed"] = changed
    for sec, n in (("F2C", nF), ("C2F", nC), ("C2C", nC), ("C2E", nC), ("V2C", nV), ("E2C", nE), ("E2F", nE)):
        obs[sec] = [ans[(sec, i)] for i in range(n)]
    import numpy as np
    I = (lambda i: np.int64(i)) if case.get("npargs") else (lambda i: i)
    obs["OFS"] = [[_norm(_call(lambda k=k, f=f: c.other_face_side(I(k), I(f)))) for f in (obs["C2F"][k] if isinstance(obs["C2F"][k], list) else [])]
                  for k in range(nC)]
    obs["NF2C"] = [_norm(_call(c.n_F2C, I(f))) for f in range(nF)]
    obs["C2V"] = [_norm(_call(c.cell_to_vertex, I(k))) for k in range(nC)]
    obs["ISTET"] = [_norm(_call(lambda k=k: bool(m.is_cell_tet(I(k))))) for k in range(nC)] + [_norm(_call(lambda: bool(m.is_tetrahedral())))]
    obs["CF"] = [_norm(_call(c.common_face, I(a), I(b))) for a, b in case["pairs"]]
    obs["ICF"] = [_norm(_call(c.in_cell_face_index, I(a), I(min(b, nF - 1)))) for a, b in case["cf"]]
    obs["ICI"] = [_norm(_call(c.in_cell_index, I(a), I(b))) for a, b in case["cv"]]
    other.use()
    for name, prop in LISTS:
        obs[name] = _norm(_call(lambda p=prop: list(getattr(m, p))))
    obs["isF"] = [_norm(_call(m.is_face_on_border, I(f))) for f in range(nF)]
    obs["isF3"] = [_norm(_call(m.is_face_on_border, *obs["faces"][f])) for f in range(nF)]
    obs["isV"] = [_norm(_call(m.is_vertex_on_border, I(v))) for v in range(nV)]
    obs["isE"] = [_norm(_call(m.is_edge_on_border, I(e))) for e in range(nE)]
    obs["isE2"] = [_norm(_call(m.is_edge_on_border, *obs["edges"][e])) for e in range(nE)]
    obs["bc"] = _boundary_connectivity(m, other)
    # the standalone extractor on a fresh instance
    obs["sb"] = _standalone(_build(case))
    # used object: second read of the cached lists, second boundary connectivity, standalone extractor (twice) on the
    # mesh whose caches are all filled
    other.use()
    obs["lists_again"] = {name: _norm(_call(lambda p=prop: list(getattr(m, p)))) for name, prop in LISTS}
    obs["bc_reread"] = _read_boundary_maps(m)     # maps of the FIRST boundary connectivity, read again later
    obs["bc2"] = _boundary_connectivity(m, other)
    obs["sb_used"] = _standalone(m)
    obs["sb_used2"] = _standalone(m)
    return obs


def _observe_hex(case):
    m = _build(case)
    c = m.connectivity
    nV, nF, nC = len(m.vertices), len(m.faces), len(m.cells)
    obs = {"faces": [_ints(f) for f in m.faces], "cells": [_ints(k) for k in m.cells], "nV": nV}
    obs["F2C"] = [_norm(_call(c.face_to_cells, f)) for f in range(nF)]
    obs["C2F"] = [_norm(_call(c.cell_to_face, k)) for k in range(nC)]
    obs["C2C"] = [_norm(_call(c.cell_to_cell, k)) for k in range(nC)]
    obs["V2C"] = [_norm(_call(c.vertex_to_cell, v)) for v in range(nV)]
    obs["BF"] = _norm(_call(lambda: list(m.boundary_faces)))
    obs["BV"] = _norm(_call(lambda: list(m.boundary_vertices)))
    c.clear()
    obs["C2C_again"] = [_norm(_call(c.cell_to_cell, k)) for k in range(nC)]
    return obs


class _Other:
    """A second, different VolumeMesh (and a SurfaceMesh) alive next to the mesh under test. `use()` builds them on the
    first call and then enables / queries / clears everything on them: nothing of this may change an answer of the
    mesh under test (no state shared between instances)."""

    def __init__(self, case):
        self.desc = case.get("other")
        self.vol = self.surf = None
        self.n = 0

    def use(self):
        if not self.desc: return
        import mouette as M
        try:
            if self.vol is None:
                self.vol = G.build_volume({"V": self.desc["V"], "C": self.desc["C"]})
                d = M.mesh.RawMeshData()
                d.vertices += [M.Vec(0., 0., 0.), M.Vec(1., 0., 0.), M.Vec(0., 1., 0.), M.Vec(0., 0., 1.), M.Vec(2., 2., 2.)]
                d.faces += [[0, 2, 1], [0, 1, 3], [1, 2, 3], [0, 3, 2]]
                self.surf = M.mesh.SurfaceMesh(d)
            else:
                self.vol.connectivity.clear(); self.surf.connectivity.clear()
            o = self.vol
            for fn, a in _accessors(o).values(): _call(fn, a)
            for _, prop in LISTS: _call(lambda p=prop: list(getattr(o, p)))
            o.enable_boundary_connectivity()
            b = o.boundary_connectivity
            _call(lambda: [b.vertex_to_vertices(v) for v in list(b.m2b_vertex)[:3]])
            from mouette.processing.border import extract_boundary_of_volume
            _call(extract_boundary_of_volume, o)
            sc = self.surf.connectivity
            for v in range(4): _call(sc.vertex_to_vertices, v); _call(sc.vertex_to_faces, v)
            for e in range(len(self.surf.edges)): _call(sc.edge_id, *self.surf.edges[e])
            _call(lambda: list(self.surf.boundary_edges))
            self.n += 1
        except Exception:  # noqa  (a failure of the OTHER mesh is not an observation of this case)
            pass


def _boundary_connectivity(m, other=None):
    try:
        m.enable_boundary_connectivity()
        if other is not None: other.use()        # the maps of `m` are read AFTER the other mesh enabled its own
        b = m.boundary_connectivity
        bm = b.mesh
        out = {"faces": [_ints(f) for f in bm.faces], "edges": [_ints(e) for e in bm.edges], "nV": len(bm.vertices)}
        for name in ("m2b_vertex", "b2m_vertex", "m2b_face", "b2m_face", "m2b_edge", "b2m_edge"):
            out[name] = sorted([int(k), None if v is None else int(v)] for k, v in getattr(b, name).items())
        out["same_points"] = all(list(bm.vertices[i]) == list(m.vertices[v]) for i, v in getattr(b, "b2m_vertex").items())
        out["boundary_mesh_is_mesh"] = m.boundary_mesh is bm
        return out
    except Exception as e:  # noqa
        return {"err": _err(e)}


def _read_boundary_maps(m):
    try:
        b = m.boundary_connectivity
        return {name: sorted([int(k), None if v is None else int(v)] for k, v in getattr(b, name).items())
                for name in ("m2b_vertex", "b2m_vertex", "m2b_face", "b2m_face", "m2b_edge", "b2m_edge")}
    except Exception as e:  # noqa
        return {"err": _err(e)}


def _standalone(m):
    try:
        from mouette.processing.border import extract_boundary_of_volume
        s, m2b, b2m = extract_boundary_of_volume(m)
        return {"faces": [_ints(f) for f in s.faces], "nV": len(s.vertices),
                "m2b": sorted([int(k), int(v)] for k, v in m2b.items()),
                "b2m": sorted([int(k), int(v)] for k, v in b2m.items()),
                "same_points": all(list(s.vertices[i]) == list(m.vertices[v]) for i, v in b2m.items())}
    except Exception as e:  # noqa
        return {"err": _err(e)}


def _lazy_outcome(fn, args):
    try:
        return "ok", _norm(fn(*args))
    except AttributeError as e:
        return "err:Attribute", str(e)
    except TypeError as e:
        return ("err:NoneRead" if "NoneType" in str(e) else "err:Type"), str(e)
    except Exception as e:  # noqa
        return _err(e), str(e)


def _lazy_fn(m, name):
    """the callable behind an operation name of a lazy history (`mesh.x`: VolumeMesh level, else connectivity)"""
    if name.startswith("mesh."):
        n = name[5:]
        if n in MESH_PROPS: return lambda: list(getattr(m, n))
        if n == "is_tetrahedral": return lambda: bool(m.is_tetrahedral())
        return getattr(m, n)
    return getattr(m.connectivity, name)


def _observe_lazy(case):
    m = _build(case)
    other = _Other(case)
    out = []
    for op in case["ops"]:
        other.use()
        st, val = _lazy_outcome(_lazy_fn(m, op[0]), op[1:])
        out.append([st, val])
    return {"steps": out}


def impl_observe(case):
    return json.dumps(observe(case), sort_keys=True)


# ------------------------------------------------------------------------------------------------
# model side
# ------------------------------------------------------------------------------------------------
def _ll(ls):
    return " ".join([str(len(ls))] + [" ".join([str(len(l))] + [str(x) for x in l]) for l in ls])


def model_request(case):
    if case["t"] == "hex":
        return None
    if case["t"] == "lazy":
        return "lazy " + " ".join([str(len(case["ops"]))] + [op[0] for op in case["ops"]])
    obs = observe(case)
    toks = ["vol", "1" if case["sort"] else "0", str(len(case["V"]))]
    for v in case["V"]:
        toks += [G.frac(x) for x in v]
    nF = max(1, len(obs["faces"]))
    cf = [[a, min(b, nF - 1)] for a, b in case["cf"]]
    return " ".join(toks + [_ll(obs["edges"]), _ll(obs["faces"]), _ll(obs["cells"]), _ll(case["pairs"]), _ll(cf), _ll(case["cv"])])


def parse_reply(rep):
    """sections of the model reply -> dict name -> payload tokens"""
    return {s.split(" ", 1)[0]: s.split(" ", 1)[1].split(" ") if " " in s else [] for s in rep.split(" ; ")}


def _p_list(toks, i):
    n = int(toks[i]); i += 1
    return [int(t) for t in toks[i:i + n]], i + n


def _p_ll(toks):
    if toks and toks[0] == "err": return "err"
    n = int(toks[0]); i = 1; out = []
    for _ in range(n):
        l, i = _p_list(toks, i); out.append(l)
    return out


def _p_ol(toks):
    if toks and toks[0] == "err": return "err"
    n = int(toks[0]); i = 1; out = []
    for _ in range(n):
        if toks[i] == "E": out.append("err"); i += 1
        else:
            l, i = _p_list(toks, i); out.append(l)
    return out


def _p_on(toks):
    return [None if t == "N" else int(t) for t in toks[1:]]


def _p_l(toks):
    if toks and toks[0] == "err": return "err"
    return _p_list(toks, 0)[0]


# ------------------------------------------------------------------------------------------------
# canonicalisation (what the statement does not fix is forgotten, on both sides alike)
# ------------------------------------------------------------------------------------------------
def canon_ring(l, closed):
    if not isinstance(l, list) or not l: return l
    if not closed: return min(l, l[::-1])
    rots = [l[i:] + l[:i] for i in range(len(l))]
    r = l[::-1]
    rots += [r[i:] + r[:i] for i in range(len(r))]
    return min(rots)


def canon_tri(t):
    if not isinstance(t, list) or len(t) != 3: return t
    i = t.index(min(t))
    return t[i:] + t[:i]


def _is_err(x):
    return isinstance(x, str) and x.startswith("err")


def _canon_any(sec, v):
    if _is_err(v): return "err"
    if sec in ("F2C", "C2C", "V2C", "C2E"): return sorted(v)
    if sec in ("E2C", "E2F"): return sorted(v)      # refined with ring structure in compare()/oracle
    return v


def _edge_closed(case_cells):
    """edge key -> True when no border face contains it (cells around it form a cycle)"""
    fc = GV.face_cells(case_cells)
    closed = {}
    for k, cs in fc.items():
        for a, b in itertools.combinations(k, 2):
            closed[(a, b)] = closed.get((a, b), True) and len(cs) == 2
    return closed


def compare(case, model, impl):
    obs = json.loads(impl)
    if case["t"] == "lazy":
        got = [s[0] for s in obs["steps"]]
        # the abstract machine only knows ok / err:Attribute / err:NoneRead; other outcomes (e.g. None argument) are `ok` for it
        got = [g if g in ("err:Attribute", "err:NoneRead") else "ok" for g in got]
        want = model.split(" ")
        return None if got == want else f"lazy history: guard-table machine says {want}, implementation did {[s[0] for s in obs['steps']]}"
    M = parse_reply(model)
    diffs = []
    if M["wf"] != ["1", "1"]:
        diffs.append(f"model says the generated mesh violates the hypotheses: wf={M['wf']}")
    closed = _edge_closed(obs["cells"])
    ekey = [tuple(sorted(e)) for e in obs["edges"]]

    def same(sec, mv, iv, canon):
        if mv == "err" or _is_err(iv):
            if not (mv == "err" and _is_err(iv)): diffs.append(f"{sec}: model {str(mv)[:80]} / impl {str(iv)[:80]}")
            return
        if len(mv) != len(iv): diffs.append(f"{sec}: lengths {len(mv)} / {len(iv)}"); return
        for i, (a, b) in enumerate(zip(mv, iv)):
            ca = "err" if (a == "err" or _is_err(a)) else canon(i, a)
            cb = "err" if (b == "err" or _is_err(b)) else canon(i, b)
            if ca != cb:
                diffs.append(f"{sec}[{i}]: model {a} / impl {b}"); return
    srt = lambda i, x: sorted(x)
    idt = lambda i, x: x
    same("F2C", _p_ll(M["F2C"]), obs["F2C"], srt)
    same("C2F", _p_ll(M["C2F"]), obs["C2F"], idt)
    same("C2C", _p_ll(M["C2C"]), obs["C2C"], srt)
    same("V2C", _p_ll(M["V2C"]), obs["V2C"], srt)
    same("C2E", _p_ll(M["C2E"]), obs["C2E"], srt)
    fans = GV.edge_fans(obs["cells"])
    ring = (lambda i, x: canon_ring(x, closed.get(ekey[i], False)) if fans.get(ekey[i], 1) == 1 else sorted(x)) if case["sort"] else srt
    same("E2C", _p_ol(M["E2C"]), obs["E2C"], ring)
    same("E2F", _p_ol(M["E2F"]), obs["E2F"], ring)
    nC = len(obs["cells"])
    same("OFS", [[None if x == nC else x for x in l] for l in _p_ll(M["OFS"])], obs["OFS"], idt)
    for sec in ("BF", "IF", "BV", "IV", "BE", "IE"):
        mv, iv = _p_l(M[sec]), obs[sec]
        if (mv == "err") != _is_err(iv) or (mv != "err" and sorted(mv) != sorted(iv)):
            diffs.append(f"{sec}: model {str(mv)[:80]} / impl {str(iv)[:80]}")
    for sec in ("CF", "ICF", "ICI"):
        if _p_on(M[sec]) != obs[sec]: diffs.append(f"{sec}: model {_p_on(M[sec])} / impl {obs[sec]}")
    dets = [int(t) for t in M["DET"][1:]]
    if dets != [G.tet_sign(case["V"], c) for c in obs["cells"]]:
        diffs.append("DET: model determinant signs differ from exact Fractions")
    # boundary surfaces: faces in volume vertex ids, rotation forgotten, numbering of boundary vertices forgotten
    bs = _p_ol(M["BS"]); bf = _p_l(M["BF"])
    mfaces = {f: (canon_tri(t) if t != "err" else "err") for f, t in zip(bf, bs)}
    bc = obs["bc"]
    if "err" in bc:
        diffs.append(f"boundary connectivity raised {bc['err']}")
    else:
        b2v = dict(bc["b2m_vertex"]); b2f = dict(bc["b2m_face"])
        try:
            ifaces = {b2f[i]: canon_tri([b2v[v] for v in F]) for i, F in enumerate(bc["faces"])}
        except KeyError:
            ifaces = None
        if ifaces != mfaces: diffs.append(f"boundary_mesh faces: model {str(mfaces)[:120]} / impl {str(ifaces)[:120]}")
        if sorted(b2v.values()) != sorted(_p_l(M["BVL"])): diffs.append("boundary vertex set differs")
        if len(bc["edges"]) != int(M["NBE"][0]): diffs.append("number of edges of the boundary surface differs")
        be = _p_l(M["BE"])
        if be != "err":
            em_m = [int(t) for t in M["EM"][1:]]
            m2e = dict(bc["m2b_edge"]); b2e = dict(bc["b2m_edge"])
            em_i = [1 if (m2e.get(e) is not None and b2e.get(m2e.get(e)) == e) else 0 for e in be]
            if em_m != em_i: diffs.append(f"edge index maps: model {em_m} / impl {em_i}")
    sb = obs["sb"]
    if "err" in sb:
        diffs.append(f"extract_boundary_of_volume raised {sb['err']}")
    else:
        b2v = dict(sb["b2m"])
        try:
            ifs = sorted(canon_tri([b2v[v] for v in F]) for F in sb["faces"])
        except KeyError:
            ifs = None
        if ifs != sorted(mfaces.values(), key=str) and ifs != sorted(v for v in mfaces.values() if v != "err"):
            diffs.append(f"extract_boundary_of_volume faces: model {str(sorted(mfaces.values(), key=str))[:120]} / impl {str(ifs)[:120]}")
    if obs["hist_changed"]:
        diffs.append(f"answers changed after clear(): {obs['hist_changed'][:2]}")
    return "; ".join(diffs[:4]) if diffs else None


# ------------------------------------------------------------------------------------------------
# oracle: the property stated directly on the implementation (brute force over the cell list)
# ------------------------------------------------------------------------------------------------
def _fr(V):
    return [[Fraction(x) for x in v] for v in V]


def _outward(P, a, b, c, d):
    """((pB-pA)x(pC-pA)).(pA-pD), exact"""
    u = [P[b][k] - P[a][k] for k in range(3)]; v = [P[c][k] - P[a][k] for k in range(3)]; w = [P[a][k] - P[d][k] for k in range(3)]
    cr = [u[1] * v[2] - u[2] * v[1], u[2] * v[0] - u[0] * v[2], u[0] * v[1] - u[1] * v[0]]
    return sum(cr[k] * w[k] for k in range(3))


def _F(key, what, detail=""):
    return {"key": key, "what": what, "detail": str(detail)[:500]}


def _family_key(case, key):
    """structural key of the case family a violation was seen in (used object / representation / declared elements)"""
    rest = key[len("C03/"):]
    if case.get("other"): return "C03/other-mesh-in-use/" + rest
    if case.get("pre_swaps"): return "C03/used-after-clear/" + rest
    if case.get("repr", "list") != "list": return f"C03/repr:{case['repr']}/" + rest
    if case.get("decl_faces") or case.get("decl_edges"): return "C03/declared/" + rest
    if case.get("npargs"): return "C03/numpy-args/" + rest
    return key


def oracle(case):
    obs = observe(case)
    if case["t"] == "lazy":
        out = _oracle_lazy(case, obs)
        for f in out: f["key"] = _family_key({"other": case.get("other")}, f["key"])
        return out
    if case["t"] == "hex": return _oracle_hex(case, obs)
    out = _oracle_vol(case, obs)
    for f in out: f["key"] = _family_key(case, f["key"])
    return out


def _oracle_hex(case, obs):
    """hexahedral cells (outside the tetrahedral statement proper: only what `_compute_cell_adj` / `_compute_adjacent_cell`
    promise for any cell type): faces <-> cells incidence, neighbours across faces, border faces / vertices"""
    out = []
    C = obs["cells"]
    nC, nF, nV = len(C), len(obs["faces"]), obs["nV"]
    fc = GV.hex_face_cells(C)
    fkey = [tuple(sorted(f)) for f in obs["faces"]]
    if sorted(fkey) != sorted(fc.keys()):
        return [_F("C03/hex/faces", "faces container of a hexahedral mesh is not the set of its quadrilateral cell faces")]
    fid = {k: i for i, k in enumerate(fkey)}
    for sec in ("F2C", "C2F", "C2C", "V2C", "C2C_again"):
        errs = [x for x in obs[sec] if _is_err(x)]
        if errs: return [_F(f"C03/hex/raises/{sec}/{errs[0]}", f"{sec} raises {errs[0]} on a hexahedral mesh")]
    for f in range(nF):
        if sorted(obs["F2C"][f]) != sorted(fc[fkey[f]]):
            out.append(_F("C03/hex/f2c", "face_to_cells differs from direct inspection on a hexahedral mesh", f"face {f}")); break
    for c in range(nC):
        want = sorted(fid[tuple(sorted(C[c][i] for i in f))] for f in GV.HEX_FACES)
        if sorted(obs["C2F"][c]) != want:
            out.append(_F("C03/hex/c2f", "cell_to_face (as a set) differs from direct inspection on a hexahedral mesh", f"cell {c}")); break
    for c in range(nC):
        want = sorted({d for f in GV.HEX_FACES for d in fc[tuple(sorted(C[c][i] for i in f))] if d != c})
        for sec in ("C2C", "C2C_again"):
            if sorted(obs[sec][c]) != want:
                out.append(_F("C03/hex/c2c" + ("/after-clear" if sec != "C2C" else ""), "cell_to_cell differs from direct inspection on a hexahedral mesh",
                              f"cell {c}: {obs[sec][c]} vs {want}")); break
        if out: break
    for v in range(nV):
        if sorted(obs["V2C"][v]) != [c for c in range(nC) if v in C[c]]:
            out.append(_F("C03/hex/v2c", "vertex_to_cell differs from direct inspection on a hexahedral mesh", f"vertex {v}")); break
    bf = sorted(fid[k] for k, cs in fc.items() if len(cs) == 1)
    if _is_err(obs["BF"]) or sorted(obs["BF"]) != bf:
        out.append(_F("C03/hex/border/faces", "boundary_faces of a hexahedral mesh are not the faces lying in one cell"))
    bv = sorted({v for f in bf for v in fkey[f]})
    if _is_err(obs["BV"]) or sorted(obs["BV"]) != bv:
        out.append(_F("C03/hex/border/vertices", "boundary_vertices of a hexahedral mesh are not the vertices of its border faces"))
    return out


WARM = ["face_id", "edge_id", "face_to_cells", "cell_to_face", "cell_to_cell", "vertex_to_cell", "edge_to_cell",
        "edge_to_face", "cell_to_edge"]


def _oracle_lazy(case, obs):
    """every query of the history must answer what it answers on an instance on which everything was already queried"""
    out = []
    ref = _build(case)
    d = _dims(case["V"], case["C"])
    r0 = random.Random(0)
    for w in WARM:
        try: getattr(ref.connectivity, w)(*[0 for _ in LAZY_ARGS[w](d, r0)][:3] if w != "face_id" else (0, 1, 2))
        except Exception: pass  # noqa
    for n in sorted(MESH_PROPS):
        try: list(getattr(ref, n))
        except Exception: pass  # noqa
    for i, (op, (st, val)) in enumerate(zip(case["ops"], obs["steps"])):
        if op[0] == "clear": continue
        rst, rval = _lazy_outcome(_lazy_fn(ref, op[0]), op[1:])
        sec = _SEC.get(op[0], "")
        if st != "ok" and rst == "ok":
            fresh = all(o[0] == "clear" for o in case["ops"][:i])
            out.append(_F(f"C03/history/{op[0]}/{st}",
                          f"connectivity.{op[0]} raises on a {'fresh' if fresh else 'partially queried'} VolumeMesh but succeeds after other queries "
                          f"(the answer depends on which queries were made before)", f"step {i} of {case['ops']}: {val}"))
            break
        if st == "ok" and rst == "ok" and _canon_any(sec, val) != _canon_any(sec, rval):
            out.append(_F(f"C03/history/{op[0]}/answer", f"connectivity.{op[0]} answers differently depending on the history",
                          f"step {i} of {case['ops']}: {val} vs {rval}"))
            break
        if st != "ok" and rst != "ok":
            out.append(_F(f"C03/raises/{op[0]}/{st}", f"connectivity.{op[0]} raises {st} on valid arguments", f"{op}: {val}"))
            break
    return out


_SEC = {**{"mesh." + n: "F2C" for n in MESH_PROPS}, "face_to_cells": "F2C", "cell_to_cell": "C2C", "vertex_to_cell": "V2C", "cell_to_edge": "C2E",
        "edge_to_cell": "E2C", "edge_to_face": "E2F"}


def _oracle_vol(case, obs):
    out = []
    V, C = case["V"], obs["cells"]
    P = _fr(V)
    faces, edges = obs["faces"], obs["edges"]
    nV, nE, nF, nC = obs["nV"], len(edges), len(faces), len(C)
    if C != [list(c) for c in case["C"]]:
        out.append(_F("C03/cells-changed", "the cell container differs from the input cell list")); return out
    fkey = [tuple(sorted(f)) for f in faces]
    fc = GV.face_cells(C)
    if sorted(fkey) != sorted(fc.keys()) or len(set(fkey)) != nF:
        out.append(_F("C03/prepare/faces", "faces container is not the set of cell triangles, each once", f"{len(fkey)} faces vs {len(fc)} triangles"))
        return out
    ekey = [tuple(sorted(e)) for e in edges]
    esp = {(a, b) for k in fkey for a, b in itertools.combinations(k, 2)}
    if sorted(ekey) != sorted(esp) or len(set(ekey)) != nE:
        out.append(_F("C03/prepare/edges", "edges container is not the set of triangle sides, each once")); return out
    fid = {k: i for i, k in enumerate(fkey)}
    eid = {k: i for i, k in enumerate(ekey)}

    def chk(sec, i, got, want, how, key=None, canon=None):
        if not _is_err(got) and canon: got = _canon_any(canon, got)
        if _is_err(got):
            out.append(_F(f"C03/raises/{sec}/{got}", f"{how} raises {got} on a conforming tetrahedral mesh", f"element {i}, mesh {case['tag']}")); return False
        if got != want:
            out.append(_F(key or f"C03/{sec}", f"{how} differs from direct inspection of the cell list", f"element {i}: got {got}, expected {want}")); return False
        return True

    # face -> cells, cell -> faces, cell -> cells, vertex -> cells
    for f in range(nF):
        if not chk("f2c", f, obs["F2C"][f], sorted(fc[fkey[f]]), "face_to_cells", canon="F2C"): break
    for c in range(nC):
        got = obs["C2F"][c]
        want = [fid[tuple(sorted(C[c][:i] + C[c][i + 1:]))] for i in range(4)]
        if not chk("c2f", c, got, want, "cell_to_face (i-th face opposite the i-th vertex)", "C03/c2f/opposite"): break
    for c in range(nC):
        want = sorted(d for d in range(nC) if d != c and len(set(C[c]) & set(C[d])) == 3)
        if not chk("c2c", c, obs["C2C"][c], want, "cell_to_cell", canon="C2C"): break
    for v in range(nV):
        if not chk("v2c", v, obs["V2C"][v], [c for c in range(nC) if v in C[c]], "vertex_to_cell", canon="V2C"): break
    for c in range(nC):
        want = sorted(eid[k] for k in itertools.combinations(sorted(C[c]), 2))
        if not chk("c2e", c, obs["C2E"][c], want, "cell_to_edge", canon="C2E"): break
    for c in range(nC):
        want = []
        for i in range(4):
            cs = fc[tuple(sorted(C[c][:i] + C[c][i + 1:]))]
            want.append(None if len(cs) != 2 else (cs[0] if cs[1] == c else cs[1]))
        if not chk("ofs", c, obs["OFS"][c], want, "other_face_side"): break
    # round 7: n_F2C, cell_to_vertex, is_cell_tet / is_tetrahedral against the cell list itself
    for f in range(nF):
        if not chk("n_f2c", f, obs["NF2C"][f], len(fc[fkey[f]]), "n_F2C (number of cells of a face)"): break
    for c in range(nC):
        if not chk("c2v", c, obs["C2V"][c], list(C[c]), "cell_to_vertex"): break
    if obs["ISTET"] != [len(k) == 4 for k in C] + [all(len(k) == 4 for k in C)]:
        errs = [g for g in obs["ISTET"] if _is_err(g)]
        out.append(_F("C03/raises/is_tet/" + errs[0] if errs else "C03/is_tet", "is_cell_tet / is_tetrahedral disagree with the number of vertices of the cells",
                      f"{obs['ISTET'][:6]}"))
    for (a, b), got in zip(case["pairs"], obs["CF"]):
        common = set(C[a]) & set(C[b])
        want = fid[tuple(sorted(common))] if len(common) == 3 else None
        if not chk("common_face", (a, b), got, want, "common_face"): break
    for (c, f), got in zip(case["cf"], obs["ICF"]):
        f = min(f, nF - 1)
        want = next((i for i in range(4) if set(C[c]) - {C[c][i]} == set(fkey[f])), None)
        if not chk("in_cell_face_index", (c, f), got, want, "in_cell_face_index"): break
    for (c, v), got in zip(case["cv"], obs["ICI"]):
        want = C[c].index(v) if v in C[c] else None
        if not chk("in_cell_index", (c, v), got, want, "in_cell_index"): break
    # edge -> cells / faces, rotational order
    bfaces = sorted(fid[k] for k, cs in fc.items() if len(cs) == 1)
    fans = GV.edge_fans(C)
    for e in range(nE):
        a, b = ekey[e]
        wc = sorted(c for c in range(nC) if a in C[c] and b in C[c])
        wf = sorted(f for f in range(nF) if a in fkey[f] and b in fkey[f])
        gc, gf = obs["E2C"][e], obs["E2F"][e]
        if not chk("e2c", e, gc, wc, "edge_to_cell (as a set)", "C03/e2c/set", canon="E2C"): break
        if not chk("e2f", e, gf, wf, "edge_to_face (as a set)", "C03/e2f/set", canon="E2F"): break
        if case["sort"] and fans.get((a, b), 1) == 1:
            border = any(f in bfaces for f in wf)
            bad = _ring_defect(gc, gf, C, fkey, fc, border, (a, b))
            if bad:
                out.append(_F(f"C03/{bad[0]}/order", f"{'edge_to_cell' if bad[0] == 'e2c' else 'edge_to_face'} is not in rotational order around the edge",
                              f"edge {e}={ekey[e]}: cells {gc} faces {gf}: {bad[1]}")); break
    # border / interior classification
    bverts = sorted({v for f in bfaces for v in fkey[f]})
    bedges = sorted({eid[k] for f in bfaces for k in itertools.combinations(fkey[f], 2)})
    for sec, got, want in (("faces", obs["BF"], bfaces), ("faces", obs["IF"], [f for f in range(nF) if f not in bfaces]),
                           ("vertices", obs["BV"], bverts), ("vertices", obs["IV"], [v for v in range(nV) if v not in bverts]),
                           ("edges", obs["BE"], bedges), ("edges", obs["IE"], [e for e in range(nE) if e not in bedges])):
        chk(f"border/{sec}", "-", sorted(got) if isinstance(got, list) else got, want, f"boundary/interior {sec}", f"C03/border/{sec}")
    for sec, got, want in (("faces", obs["isF"], [f in bfaces for f in range(nF)]), ("faces", obs["isF3"], [f in bfaces for f in range(nF)]),
                           ("vertices", obs["isV"], [v in bverts for v in range(nV)]), ("edges", obs["isE"], [e in bedges for e in range(nE)]),
                           ("edges", obs["isE2"], [e in bedges for e in range(nE)])):
        errs = [g for g in got if _is_err(g)]
        if errs: out.append(_F(f"C03/raises/is_on_border/{sec}/{errs[0]}", f"is_*_on_border raises on {sec}"))
        elif [bool(g) for g in got] != want: out.append(_F(f"C03/border/{sec}/predicate", f"is_*_on_border disagrees with direct inspection on {sec}"))
    if obs["hist_changed"]:
        out.append(_F(f"C03/history/{obs['hist_changed'][0][0]}/answer", "an accessor answers differently after clear()", obs["hist_changed"][:2]))
    # boundary surfaces
    opp = {}
    for f in bfaces:
        c = fc[fkey[f]][0]
        opp[fkey[f]] = next(v for v in C[c] if v not in fkey[f])
    allpos = all(G.tet_sign(V, c) > 0 for c in C)
    out += _check_surface("bc", obs["bc"], bfaces, fkey, opp, P, True, V, bverts, bedges, ekey, obs)
    out += _check_surface("standalone", obs["sb"], bfaces, fkey, opp, P, allpos, V, bverts, bedges, ekey, obs)
    # used object: the n-th call must satisfy what the first call on a fresh object satisfies
    for name, again in obs["lists_again"].items():
        if again != obs[name]:
            out.append(_F(f"C03/history/border-lists/{name}", "a boundary/interior list changes between two reads on the same mesh", f"{obs[name]} then {again}"))
    rr = obs["bc_reread"]
    if "err" in rr:
        out.append(_F(f"C03/raises/boundary/bc/reread/{rr['err']}", "reading the boundary index maps again raises"))
    elif "err" not in obs["bc"] and any(rr[k] != obs["bc"][k] for k in rr):
        out.append(_F("C03/history/boundary-maps/changed", "the index maps of an enabled boundary connectivity changed between two reads "
                      "(nothing was done to this mesh in between)", [k for k in rr if rr[k] != obs["bc"][k]]))
    out += _check_surface("bc/second-call", obs["bc2"], bfaces, fkey, opp, P, True, V, bverts, bedges, ekey, obs)
    out += _check_surface("standalone/used-mesh", obs["sb_used"], bfaces, fkey, opp, P, allpos, V, bverts, bedges, ekey, obs)
    out += _check_surface("standalone/used-mesh-second-call", obs["sb_used2"], bfaces, fkey, opp, P, allpos, V, bverts, bedges, ekey, obs)
    return out


def _ring_defect(gc, gf, C, fkey, fc, border, ab):
    """None if cells/faces are in rotational order around the edge (cycle for an interior edge, fan from border face
    to border face for a border edge); direction and starting element are free."""
    a, b = ab
    if not isinstance(gc, list) or not isinstance(gf, list): return None
    n = len(gc)

    def share(c1, c2):
        s = set(C[c1]) & set(C[c2])
        return len(s) == 3 and a in s and b in s
    for i in range(n - 1):
        if not share(gc[i], gc[i + 1]): return ("e2c", f"cells {gc[i]} and {gc[i+1]} are consecutive but share no face through the edge")
    if not border and n > 2 and not share(gc[-1], gc[0]): return ("e2c", "ring of an interior edge does not close")
    if border and n > 1:
        for end in (gc[0], gc[-1]):
            if not any(len(fc[tuple(sorted(set(C[end]) - {v}))]) == 1 for v in C[end] if v not in ab):
                return ("e2c", f"fan of a border edge does not end on the border (cell {end})")

    def cocell(f1, f2):
        s = set(fkey[f1]) | set(fkey[f2])
        return len(s) == 4 and any(set(c) == s for c in C)
    m = len(gf)
    for i in range(m - 1):
        if not cocell(gf[i], gf[i + 1]): return ("e2f", f"faces {gf[i]} and {gf[i+1]} are consecutive but bound no common cell")
    if not border and m > 2 and not cocell(gf[-1], gf[0]): return ("e2f", "face ring of an interior edge does not close")
    if border and m > 1 and not (len(fc[fkey[gf[0]]]) == 1 and len(fc[fkey[gf[-1]]]) == 1):
        return ("e2f", "face fan of a border edge does not start and end with border faces")
    return None


def _check_surface(name, s, bfaces, fkey, opp, P, must_be_outward, V, bverts, bedges, ekey, obs):
    out = []
    K = f"C03/boundary/{name}"
    if "err" in s:
        return [_F(f"C03/raises/boundary/{name}/{s['err']}", f"boundary extraction ({name}) raises {s['err']}")]
    kind = "bc" if name.startswith("bc") else "standalone"
    m2b = dict(s["m2b_vertex"] if kind == "bc" else s["m2b"]); b2m = dict(s["b2m_vertex"] if kind == "bc" else s["b2m"])
    # vertex maps mutually inverse, onto the border vertices, numbering 0..n-1, same points
    if sorted(m2b) != bverts or sorted(b2m) != list(range(len(bverts))) or s["nV"] != len(bverts) \
            or any(b2m.get(i) != v for v, i in m2b.items()) or any(m2b.get(v) != i for i, v in b2m.items()) or not s["same_points"]:
        out.append(_F(f"{K}/maps/vertex", f"vertex index maps of the boundary surface ({name}) are not mutually inverse bijections onto the border vertices"))
        return out
    tris = [[b2m[v] for v in F] for F in s["faces"]]
    if sorted(tuple(sorted(t)) for t in tris) != sorted(fkey[f] for f in bfaces):
        out.append(_F(f"{K}/faces", f"boundary surface ({name}) does not consist of exactly the border faces",
                      f"{len(tris)} faces vs {len(bfaces)} border faces")); return out
    # closed: every side is matched by exactly the opposite side an equal number of times; even incidence
    dirs = {}
    for t in tris:
        for i in range(3): dirs[(t[i], t[(i + 1) % 3])] = dirs.get((t[i], t[(i + 1) % 3]), 0) + 1
    und = {}
    for (a, b), n in dirs.items(): und[tuple(sorted((a, b)))] = und.get(tuple(sorted((a, b))), 0) + n
    if any(n % 2 for n in und.values()):
        out.append(_F(f"{K}/closed", f"boundary surface ({name}) is not closed (an edge lies in an odd number of boundary faces)"))
    inward = [t for t in tris if _outward(P, t[0], t[1], t[2], opp[tuple(sorted(t))]) <= 0]
    if inward and must_be_outward:
        out.append(_F(f"{K}/orientation", f"boundary surface ({name}) is not oriented outwards"
                      + (" although all cells are positively oriented" if kind == "standalone" else ""),
                      f"{len(inward)} of {len(tris)} faces point inward, e.g. {inward[0]} (opposite vertex {opp[tuple(sorted(inward[0]))]})"))
    if kind == "bc":
        m2f = dict(s["m2b_face"]); b2f = dict(s["b2m_face"])
        if sorted(m2f) != bfaces or sorted(b2f) != list(range(len(bfaces))) or any(b2f.get(i) != f for f, i in m2f.items()) \
                or any(tuple(sorted(tris[i])) != fkey[f] for i, f in b2f.items()):
            out.append(_F(f"{K}/maps/face", "face index maps of the boundary surface are not mutually inverse / do not map a boundary face to the same triangle"))
        m2e = dict(s["m2b_edge"]); b2e = dict(s["b2m_edge"])
        bek = [tuple(sorted(b2m[v] for v in e)) for e in s["edges"]]
        if sorted(m2e) != bedges or sorted(b2e) != list(range(len(s["edges"]))) or len(s["edges"]) != len(bedges) \
                or any(i is None or b2e.get(i) != e for e, i in m2e.items()) or any(bek[i] != ekey[e] for i, e in b2e.items() if i is not None and i < len(bek)):
            out.append(_F(f"{K}/maps/edge", "edge index maps of the boundary surface are not mutually inverse / do not map a boundary edge to the same vertex pair"))
        if not s["boundary_mesh_is_mesh"]:
            out.append(_F(f"{K}/boundary_mesh", "VolumeMesh.boundary_mesh is not boundary_connectivity.mesh"))
    return out


# ------------------------------------------------------------------------------------------------
def nontrivial(case, obs):
    if case["t"] == "lazy":
        return len({o[0] for o in case["ops"]}) >= 2
    if case["t"] == "hex":
        return len(case["C"]) >= 2
    return len(case["C"]) >= 2 and any(len(v) == 2 for v in GV.face_cells(case["C"]).values())


def classify(case, obs):
    if case["t"] == "lazy":
        o = json.loads(obs)
        return ["lazy", f"lazy:len{min(len(case['ops']), 9)}", "lazy:first:" + case["ops"][0][0]] + ["lazy:outcome:" + s[0] for s in o["steps"]] \
            + (["lazy:another-mesh-in-use"] if case.get("other") else [])
    if case["t"] == "hex":
        return ["hex", "hex:cells:" + str(min(len(case["C"]), 12))]
    n = len(case["C"])
    size = "0" if n == 0 else "1" if n == 1 else "2-5" if n <= 5 else "6-20" if n <= 20 else "21-60" if n <= 60 else ">60"
    fc = GV.face_cells(case["C"])
    ks = ["vol", "vol:cells:" + size, "vol:fam:" + case["tag"].split("/")[0], "vol:orient:" + case["tag"].split("/")[1].split("+")[0],
          "vol:sort:" + str(case["sort"])]
    ks += ["vol:mod:" + t for t in case["tag"].split("+")[1:]]
    if any(len(v) == 2 for v in fc.values()): ks.append("vol:has-interior-face")
    closed = _edge_closed(case["C"])
    if any(closed.values()): ks.append("vol:has-interior-edge")
    bv = {v for k, cs in fc.items() if len(cs) == 1 for v in k}
    if len(bv) < len({v for c in case["C"] for v in c}): ks.append("vol:has-interior-vertex")
    rep = case.get("repr", "list")
    if rep == "intcoords" and not all(float(x).is_integer() for v in case["V"] for x in v): rep = "list"
    ks.append("vol:repr:" + rep)
    if case.get("decl_faces") or case.get("decl_edges"): ks.append("vol:declared-faces-edges")
    if case.get("npargs"): ks.append("vol:numpy-int-arguments")
    if case.get("pre_swaps"): ks.append("vol:used-object:relabel+clear")
    if case.get("other"): ks.append("vol:another-mesh-in-use")
    ks += ["vol:used-object:second-boundary-connectivity", "vol:used-object:standalone-on-filled-caches"]
    return ks


def describe(case):
    if case["t"] == "lazy":
        return {"t": "lazy", "tag": case["tag"], "cells": len(case["C"]), "ops": case["ops"]}
    d = {"t": case["t"], "tag": case["tag"], "vertices": len(case["V"]), "cells": len(case["C"]), "sort": case["sort"]}
    if case.get("other"): d["other_mesh_cells"] = len(case["other"]["C"])
    for k in ("repr", "npargs", "pre_swaps", "decl_faces", "decl_edges"):
        if case.get(k): d[k] = case[k]
    return d


def shrink(case, still):
    if case["t"] == "lazy":
        ops = list(case["ops"]); i = 0
        while i < len(ops) and len(ops) > 1:
            trial = dict(case, ops=ops[:i] + ops[i + 1:])
            if still(trial): ops = trial["ops"]
            else: i += 1
        return dict(case, ops=ops)
    cur = case
    progress = True
    while progress and len(cur["C"]) > 1:
        progress = False
        for i in range(len(cur["C"])):
            D = cur["C"][:i] + cur["C"][i + 1:]
            used = sorted({v for c in D for v in c})
            mp = {o: n for n, o in enumerate(used)}
            V2 = [cur["V"][o] for o in used]; D2 = [[mp[v] for v in c] for c in D]
            if cur["t"] == "hex":
                trial = dict(cur, V=V2, C=D2)
            else:
                if GV.edge_manifold(cur["C"]) and not GV.edge_manifold(D2): continue
                trial = dict(cur, V=V2, C=D2, pairs=[[0, 0]], cf=[[0, 0]], cv=[[0, D2[0][0]]])
                if cur.get("pre_swaps"):
                    trial["pre_swaps"] = [[ci - (ci > i), a, b] for ci, a, b in cur["pre_swaps"] if ci != i] or [[0, 0, 1]]
                tri = set(GV.face_cells(D2).keys())
                if cur.get("decl_faces") is not None:
                    trial["decl_faces"] = [f2 for f2 in ([mp.get(v) for v in f] for f in cur["decl_faces"])
                                           if None not in f2 and tuple(sorted(f2)) in tri]
                    trial["decl_edges"] = [e2 for e2 in ([mp.get(v) for v in e] for e in cur.get("decl_edges", []))
                                           if None not in e2 and any(e2[0] in t and e2[1] in t for t in tri)]
                    if not trial["decl_faces"] and not trial["decl_edges"]:
                        t0 = sorted(tri)[0]; trial["decl_faces"] = [[t0[1], t0[0], t0[2]]]
            if still(trial):
                cur = trial; progress = True; break
    return cur


def search_on_break(rng, broken, mismatches):
    """extra failing-input search when a theorem / translated site / the correspondence broke"""
    out = []
    for _ in range(60):
        base = GV.random_volume(rng, max_cells=rng.choice([4, 10, 30]))
        pairs, cf, cv = GV.query_samples(rng, base["V"], base["C"])
        out.append({"t": "vol", "V": base["V"], "C": base["C"], "tag": base["tag"], "sort": True,
                    "order": rng.randrange(1 << 30), "pairs": pairs, "cf": cf, "cv": cv})
    alpha = _alphabet()
    base = GV.random_volume(rng, max_cells=4)
    d = _dims(base["V"], base["C"])
    for a in alpha:
        for b in alpha:
            out.append({"t": "lazy", "V": base["V"], "C": base["C"], "tag": base["tag"], "sort": True,
                        "ops": [[a] + LAZY_ARGS[a](d, rng), [b] + LAZY_ARGS[b](d, rng)]})
    return out


# ------------------------------------------------------------------------------------------------
# SOURCE_MAP: every function of the anchor files -> how it is tied to the check
#   translated  : a definition of Generated/C03S.lean (or the guard table of Generated/C03.lean) is compiled from the BODY on every
#                 run and a bridge theorem of Props/C03Source.lean (or a theorem over the table) uses it
#   modelled    : hand-written in Model/Volume.lean / Model/VolLazy.lean, tied by the correspondence run (+ fragment sites where noted)
# ------------------------------------------------------------------------------------------------
def _source_map():
    V, B, D = "mouette/mesh/datatypes/volume.py::", "mouette/processing/border.py::", "mouette/mesh/mesh_data.py::RawMeshData."
    m = {}
    for q in c03_source.TRANSLATED + c03_source.TRANSLATED_R5 + c03_source.TRANSLATED_R6 + c03_source.TRANSLATED_R7: m[V + q] = "translated"
    for q in c03_source.TRANSLATED_R5_BORDER: m[B + q] = "translated"
    # whole body = the events of the guard table (super().__init__/clear + `self._x = None` stores); theorems
    # volumeGuards_init_covers_caches / volumeGuards_clear_restores_fresh speak about the extracted table
    m[V + "VolumeMesh._Connectivity.__init__"] = "translated"
    m[V + "VolumeMesh._Connectivity.clear"] = "translated"
    # same standard for the mesh-level table (meshGuards): `VolumeMesh.__init__` is the base constructor call + attribute stores, all of
    # them events of the extracted table (meshGuards_init_covers_attrs); `enable_boundary_connectivity` is one store (a `write` event)
    m[V + "VolumeMesh.__init__"] = "translated"
    m[V + "VolumeMesh.enable_boundary_connectivity"] = "translated"
    C = V + "VolumeMesh._Connectivity."
    for q, note in (("cell_to_edge", "Mesh.cellToEdge"),):
        m.setdefault(C + q, "modelled: " + note)
    M = V + "VolumeMesh."
    for q, note in (("__init__", "events of the body in the translated mesh guard table (meshGuards)"),
                    ("enable_boundary_connectivity", "mesh guard table"), 
                    ("id_vertices", "List.range nV"), ("id_edges", "List.range nE"), ("id_faces", "List.range nF"), ("id_cells", "List.range nC"),
                    ("is_vertex_on_border", "Conn.isVertexOnBorder (the flags it reads are translated)"),
                    ("is_cell_tet", "Mesh.isTetrahedral"), ("is_tetrahedral", "Mesh.isTetrahedral"),
                    ("interior_edges", "guarded read of a translated list"), ("boundary_edges", "guarded read of a translated list"),
                    ("boundary_vertices", "guarded read of a translated list"), ("interior_vertices", "guarded read of a translated list")):
        m.setdefault(M + q, "modelled: " + note)
    m[M + "__str__"] = "out-of-scope: display only"
    m[M + "id_corners"] = "out-of-scope: face corners are not part of the volume connectivity statement"
    BC = V + "VolumeMesh._BoundaryConnectivity."
    m.setdefault(BC + "__init__", "modelled")
    m.setdefault(BC + "_extract_surface_boundary", "modelled")
    for q in ("vertex_to_vertices", "vertex_to_edges", "vertex_to_faces", "face_to_vertices", "in_face_index", "face_to_edges", "face_to_faces"):
        m[BC + q] = "out-of-scope: wrapper composing the index maps with the SurfaceMesh accessors (C01's subject); not named by the statement"
    m[BC + "vertex_to_face_quad"] = "out-of-scope: raises NotImplementedError"
    for q in ("extract_border_cycle", "extract_border_cycle_all", "extract_boundary_of_surface"):
        m[B + q] = "out-of-scope: surface-mesh border functions (C15)"
    m.setdefault(B + "extract_boundary_of_volume", "modelled")
    for q in ("_generate_cell_faces", "_complete_faces_from_cells"):
        m[D + q] = "modelled: tetra face table re-extracted (completedTable / cellFacesTable, read-only; the function belongs to C02)"
    for q in ("__init__", "id_vertices", "id_edges", "id_faces", "id_cells", "id_facecorners", "id_cellcorners", "dimensionality",
              "_compute_dimensionality", "prepare", "_prepare_vertices", "_prepare_edges", "_prepare_edges.is_valid", "_prepare_faces",
              "_generate_face_corners", "_prepare_cells", "_generate_cell_corners", "_complete_edges_from_faces"):
        m[D + q] = "out-of-scope: RawMeshData preparation is C02's subject; its result (face/edge containers) is a checked hypothesis (`conforming`) here"
    return m


SOURCE_MAP = _source_map()


def translate():
    return c03_translate.run() + c03_source.run()


MANIFEST = {
    "level_text": ("Proof. Lean 4 theorems about an executable model of VolumeMesh._Connectivity, the border/interior partitions, "
                   "_BoundaryConnectivity and extract_boundary_of_volume: face_to_cells / cell_to_face (i-th face opposite the i-th vertex) / "
                   "cell_to_cell / vertex_to_cell equal direct inspection of the cell list for every conforming tetrahedral mesh; border faces = "
                   "faces in one cell, border vertices/edges = those of border faces, partitions disjoint and exhaustive; boundary surface = "
                   "exactly the border faces, closed (every edge in an even number of boundary faces: the dd=0 mod 2 counting argument), vertex/face/edge index maps mutually inverse; other_face_side / common_face / in_cell_index / in_cell_face_index / cell_to_edge equal direct inspection; edge_to_cell/edge_to_face equal direct inspection as sets; the orientation rule makes every boundary face point "
                   "outwards for either cell orientation (ring identity), while the completed face table points inward for positive cells; "
                   "no history of lazy queries can read a missing or None cache (guard-table state machine, finite reachable set checked by "
                   "decide over the table translated from the source, induction over histories). Translated fragments: tetra face table, "
                   "sub-face slice, orientation rule of both extractors, guard table with the __init__/clear attribute sets. The model is tied "
                   "to the code by a correspondence over all accessors × all elements in shuffled histories and a brute-force oracle. "
                   "Round 4: the bodies of the four _compute_* methods, of the cache accessors, of is_face_on_border / is_vertex_on_border and of the "
                   "border/interior computations of VolumeMesh are compiled from the working tree on every run into state-passing Lean definitions "
                   "and proved equal to the model (bridge theorems), so the connectivity / border theorems are restated on what the source says; "
                   "the edge-umbrella hypotheses of the rotational-order theorem follow from a decidable predicate; no stale read after clear() "
                   "for every history with in-place changes of the cells (stamped guard-table machine), and a stale read without clear() is exhibited. "
                   "Round 5: the whole bodies of _BoundaryConnectivity._extract_surface_boundary / __init__ and of processing.border.extract_boundary_of_volume "
                   "are compiled loop by loop (Generated/C03B.lean) and proved equal to the model (face / vertex maps, points, one oriented triangle per border "
                   "face; edge maps modulo the inherited edge_id of the boundary surface), so 'exactly the border faces', 'maps mutually inverse', 'oriented "
                   "outwards' and the closedness count are restated on what the source computes; the order of edge_to_face and 'at most two border faces "
                   "around an edge' follow from decidable predicates evaluated on the mesh (faceOrder, faceCover). "
                   "Round 6: other_face_side and the whole body of _sort_edge_neighborhoods (guard, edge loop, the two `while True` walks with their break on a "
                   "fuel argument, the resets, the two sort(key=..) calls) and the accessors edge_to_face / edge_to_cell are compiled (Generated/C03W.lean) and "
                   "proved equal to the model's walk / sortEdge / edgeToCellFace, so faceOrder / edgeUmbrella now speak about what the source computes; "
                   "faceCover on every stored edge (volume side, decidable) implies edge-manifoldness of the extracted surface, hence 'every side of every "
                   "boundary triangle lies in exactly two boundary triangles' without any surface-side hypothesis. "
                   "Round 7: the cover half of the edge-umbrella hypothesis is derived from a walk-free decidable predicate (linkConnected: the cells around "
                   "the edge are connected through the faces around it; a tetrahedron has exactly two faces through an edge and a walk leaves each cell through "
                   "the one it did not enter by); what remains walk-defined is only that the two walks return. cell_to_vertex, n_F2C, id_*, is_cell_tet, "
                   "is_tetrahedral compiled and bridged; n_F2C / cell_to_vertex / is_cell_tet now also compared with the cell list by the oracle."),
    "level_note": ("Trusted: Lean kernel + propext/Classical.choice/Quot.sound; the hand-written model (checked against the code on the meshes "
                   "of each run only); the ast translator; prepared face/edge containers as checked hypotheses (C02). Proved under explicit walk hypotheses: "
                   "rotational order of edge_to_cell / edge_to_face (the edge-umbrella hypothesis - the two walks reach every cell / face "
                   "around the edge - is an assumption of the theorems, checked by the oracle on every generated mesh). 'Exactly two faces "
                   "per boundary edge' is derived from the proved evenness under the decidable hypothesis that no boundary edge lies in "
                   "more than two boundary triangles."),
    "technique": "Lean 4 refinement-to-spec proofs over an executable model + decide over translated tables + ring identities; differential correspondence",
}
