"""Translated fragments for C09 (mouette/processing/paths.py, mouette/utils/priority_queue.py).

Re-extracted from $MOUETTE_REPO with `ast` on every run and written to lean/Mouette/Generated/C09Loop.lean:
  * the initialisation, the `while not queue.empty()` skeleton and the relaxation body of BOTH Dijkstra loops
    (shortest_path, shortest_path_to_vertex_set), statement by statement, as Lean state transformers over the
    model's `State` (dicts -> total maps with `upd`, `float("inf")` -> `none`);
  * `PriorityItem.__lt__` (which field, which operator, which operand order).
Bridge theorems in Props/C09Bridge.lean prove that the generated terms ARE the hand-written model the theorems
of Props/C09 speak about (`Generated… = Dijkstra.relax / step / init`) and that "no pending item is `__lt__` the
popped one" (heapq's contract w.r.t. the translated `__lt__`) gives the `min` clause of the pop contract.
A statement shape outside the small vocabulary below raises TranslateError (broken obligation), never skipped.
"""
import ast

from .. import translate as T

FIELDS = {"distance": "dist", "visited": "visited", "path": "pred", "parent": "pred"}


def _is_name(n, *ids):
    return isinstance(n, ast.Name) and (not ids or n.id in ids)


def _sub(n):
    """Subscript(Name dict, Name key) -> (dict name, key name) else None"""
    if isinstance(n, ast.Subscript) and _is_name(n.value) and _is_name(n.slice):
        return n.value.id, n.slice.id
    return None


class Loop:
    """translation context of one Dijkstra loop"""

    def __init__(self, fn):
        self.fn = fn
        self.v = None       # popped vertex variable
        self.nv = None      # neighbour variable
        self.locals = set()

    # ---- expressions -------------------------------------------------------------------------
    def weight(self, n):
        """weight of the edge (v, nv) being relaxed -> `e.2`"""
        if isinstance(n, ast.Call) and _is_name(n.func, "edge_length") and len(n.args) == 2 and \
                _is_name(n.args[0], self.v) and _is_name(n.args[1], self.nv) and not n.keywords:
            return "e.2"
        if isinstance(n, ast.Subscript) and _sub(n.value) == ("connectivity", self.v) and _is_name(n.slice, self.nv):
            return "e.2"
        raise T.TranslateError(f"{self.fn}: edge weight expression not recognised: {ast.dump(n)[:120]}")

    def dist_expr(self, n):
        """expression of type `Option Rat` (a float or inf)"""
        if _is_name(n) and n.id in self.locals:
            return n.id
        s = _sub(n)
        if s and s[0] == "distance":
            return f"(s.dist {s[1]})"
        if isinstance(n, ast.BinOp) and isinstance(n.op, ast.Add):
            l = _sub(n.left)
            if l and l[0] == "distance":
                return f"(addW (s.dist {l[1]}) {self.weight(n.right)})"
        if isinstance(n, ast.Constant) and n.value in (0, 0.0) and not isinstance(n.value, bool):
            return "(some 0)"
        raise T.TranslateError(f"{self.fn}: distance expression not recognised: {ast.dump(n)[:120]}")

    def test(self, n):
        if isinstance(n, ast.Compare) and len(n.ops) == 1:
            a, b = self.dist_expr(n.left), self.dist_expr(n.comparators[0])
            if isinstance(n.ops[0], ast.Gt): return f"gt {a} {b}"
            if isinstance(n.ops[0], ast.Lt): return f"gt {b} {a}"
            raise T.TranslateError(f"{self.fn}: comparison operator {type(n.ops[0]).__name__} (only > and < are strict improvements)")
        if isinstance(n, ast.UnaryOp) and isinstance(n.op, ast.Not):
            s = _sub(n.operand)
            if s and s[0] == "visited": return f"!(s.visited {s[1]})"
        s = _sub(n)
        if s and s[0] == "visited": return f"(s.visited {s[1]})"
        raise T.TranslateError(f"{self.fn}: test not recognised: {ast.dump(n)[:120]}")

    # ---- statements --------------------------------------------------------------------------
    def stmt(self, n, ind):
        pad = " " * ind
        if isinstance(n, ast.Assign) and len(n.targets) == 1:
            t = n.targets[0]
            if _is_name(t):
                self.locals.add(t.id)
                return [f"{pad}let {t.id} := {self.dist_expr(n.value)}"]
            s = _sub(t)
            if s and s[0] == "distance":
                return [f"{pad}let s := {{ s with dist := upd s.dist {s[1]} {self.dist_expr(n.value)} }}"]
            if s and s[0] in ("path", "parent") and _is_name(n.value):
                return [f"{pad}let s := {{ s with pred := upd s.pred {s[1]} (some {n.value.id}) }}"]
            if s and s[0] == "visited" and isinstance(n.value, ast.Constant) and n.value.value is True:
                return [f"{pad}let s := {{ s with visited := upd s.visited {s[1]} true }}"]
        if isinstance(n, ast.If) and not n.orelse:
            saved = set(self.locals)
            body = []
            for b in n.body: body += self.stmt(b, ind + 7)
            self.locals = saved
            body[0] = " " * (ind + 6) + "(" + body[0][ind + 7:]
            return [f"{pad}let s := if {self.test(n.test)} then"] + body + [" " * (ind + 7) + "s) else s"]
        if isinstance(n, ast.Expr) and isinstance(n.value, ast.Call):
            c = n.value
            if isinstance(c.func, ast.Attribute) and _is_name(c.func.value, "queue") and c.func.attr == "push" and \
                    len(c.args) == 2 and _is_name(c.args[0]) and not c.keywords:
                return [f"{pad}let s := {{ s with queue := push s.queue {c.args[0].id} (prioOf {self.dist_expr(c.args[1])}) }}"]
        raise T.TranslateError(f"{self.fn}: statement not recognised: {ast.dump(n)[:140]}")

    # ---- the loop ----------------------------------------------------------------------------
    def loop(self, w, tag):
        if not (isinstance(w.test, ast.UnaryOp) and isinstance(w.test.op, ast.Not) and isinstance(w.test.operand, ast.Call)
                and isinstance(w.test.operand.func, ast.Attribute) and _is_name(w.test.operand.func.value, "queue")
                and w.test.operand.func.attr == "empty"):
            raise T.TranslateError(f"{self.fn}: loop condition is not `not queue.empty()`")
        body = list(w.body)
        # v = queue.get().x
        a = body.pop(0)
        ok = isinstance(a, ast.Assign) and len(a.targets) == 1 and _is_name(a.targets[0]) and \
            isinstance(a.value, ast.Attribute) and a.value.attr == "x" and isinstance(a.value.value, ast.Call) and \
            isinstance(a.value.value.func, ast.Attribute) and _is_name(a.value.value.func.value, "queue") and \
            a.value.value.func.attr in ("get", "pop") and not a.value.value.args
        if not ok: raise T.TranslateError(f"{self.fn}: first statement of the loop is not `v = queue.get().x`")
        self.v = a.targets[0].id
        self.popname = a.value.value.func.attr
        # if visited[v] : continue
        g = body.pop(0)
        ok = isinstance(g, ast.If) and not g.orelse and len(g.body) == 1 and isinstance(g.body[0], ast.Continue) and \
            _sub(g.test) == ("visited", self.v)
        if not ok: raise T.TranslateError(f"{self.fn}: lazy-deletion guard `if visited[v]: continue` not found")
        # the inner for loop is the last statement
        f = body.pop()
        if not (isinstance(f, ast.For) and _is_name(f.target) and not f.orelse):
            raise T.TranslateError(f"{self.fn}: relaxation loop `for nv in …` not found at the end of the while body")
        self.nv = f.target.id
        it = f.iter
        ok = (isinstance(it, ast.Call) and isinstance(it.func, ast.Attribute) and it.func.attr == "vertex_to_vertices"
              and len(it.args) == 1 and _is_name(it.args[0], self.v)) or _sub(it) == ("connectivity", self.v)
        if not ok: raise T.TranslateError(f"{self.fn}: neighbour iteration not recognised: {ast.dump(it)[:100]}")
        relax = [f"def relax_{tag} ({self.v} : Nat) (s : State) (e : Nat × Rat) : State :=", f"  let {self.nv} := e.1"]
        for st in f.body: relax += self.stmt(st, 2)
        relax += ["  s", ""]
        self.locals = set()
        step = [f"def step_{tag} (pop : Pop) (adj : Adj) (s : State) : Option State :=",
                "  match pop s.queue with", "  | none => none", "  | some (item, q') =>",
                "    let s := { s with queue := q' }", f"    let {self.v} := item.1",
                f"    if s.visited {self.v} then some s else"]
        for st in body: step += self.stmt(st, 4)
        step += [f"    some ((adj {self.v}).foldl (relax_{tag} {self.v}) s)", ""]
        return relax + step


def _dict_init(n):
    """`name = dict([(_i, CONST) for _i in mesh.id_vertices])` -> (name, const) else None"""
    if not (isinstance(n, ast.Assign) and len(n.targets) == 1 and _is_name(n.targets[0]) and n.targets[0].id in FIELDS): return None
    v = n.value
    if not (isinstance(v, ast.Call) and _is_name(v.func, "dict") and len(v.args) == 1 and isinstance(v.args[0], ast.ListComp)): return None
    lc = v.args[0]
    if not (isinstance(lc.elt, ast.Tuple) and len(lc.elt.elts) == 2 and len(lc.generators) == 1): return None
    g = lc.generators[0]
    if not (_is_name(g.target) and _is_name(lc.elt.elts[0], g.target.id) and isinstance(g.iter, ast.Attribute) and g.iter.attr == "id_vertices" and not g.ifs):
        return None
    c = lc.elt.elts[1]
    if isinstance(c, ast.Constant) and c.value is False: return n.targets[0].id, "false"
    if isinstance(c, ast.Constant) and c.value is None: return n.targets[0].id, "none"
    if isinstance(c, ast.Call) and _is_name(c.func, "float") and len(c.args) == 1 and isinstance(c.args[0], ast.Constant) and c.args[0].value == "inf":
        return n.targets[0].id, "none"
    raise T.TranslateError(f"dict initialiser with an unexpected default: {ast.dump(c)[:80]}")


def _function(tree, fn, tag):
    f = T.find_def(tree, fn)
    whiles = [n for n in f.body if isinstance(n, ast.While)]
    loops = [w for w in whiles if any(isinstance(x, ast.For) for x in w.body)]
    if len(loops) != 1:
        raise T.TranslateError(f"{fn}: expected exactly one Dijkstra loop at the top level of the function, found {len(loops)}")
    w = loops[0]
    idx = f.body.index(w)
    # initialisation: the dict initialisers, `distance[start] = 0.` and `queue.push(start, 0.)` before the loop
    inits, extra = {}, []
    L = Loop(fn)
    # use site 1 of the queue class: `queue = PriorityQueue()` (exactly once, before the loop, never re-bound)
    created = [n for n in ast.walk(f) if isinstance(n, ast.Assign) and any(_is_name(t, "queue") for t in n.targets)]
    if not (len(created) == 1 and created[0] in f.body[:idx] and isinstance(created[0].value, ast.Call) and _is_name(created[0].value.func, "PriorityQueue")
            and not created[0].value.args and not created[0].value.keywords):
        raise T.TranslateError(f"{fn}: `queue = PriorityQueue()` (once, before the loop) not found")
    for n in f.body[:idx]:
        d = _dict_init(n)
        if d and d[0] in FIELDS:
            inits[FIELDS[d[0]]] = d[1]; continue
        s = _sub(n.targets[0]) if isinstance(n, ast.Assign) and len(n.targets) == 1 else None
        if s and s[0] == "distance" and s[1] == "start":
            extra += L.stmt(n, 2); continue
        if isinstance(n, ast.Expr) and isinstance(n.value, ast.Call) and isinstance(n.value.func, ast.Attribute) and \
                _is_name(n.value.func.value, "queue") and n.value.func.attr == "push":
            extra += L.stmt(n, 2); continue
    if set(inits) != {"dist", "visited", "pred"}:
        raise T.TranslateError(f"{fn}: initialisation of visited / path / distance over mesh.id_vertices not found ({sorted(inits)})")
    init = [f"def init_{tag} (start : Nat) : State :=",
            f"  let s : State := {{ visited := fun _ => {inits['visited']}, pred := fun _ => {inits['pred']}, "
            f"dist := fun _ => {inits['dist']}, queue := [] }}"] + extra + ["  s", ""]
    lines = init + L.loop(w, tag)
    POPNAME[tag] = L.popname
    return lines


POPNAME = {}


def _heap_variant(lines, tag):
    """the same translated loop with the four use sites of PriorityQueue bound to the class AS TRANSLATED by property C20
    (Generated/C20PQ.lean over the binary-heap model of heapq): PriorityQueue() -> initData, push -> push, get/pop -> get_/pop_,
    empty -> empty"""
    out = []
    pop = {"get": "C20PQ.get_", "pop": "C20PQ.pop_"}[POPNAME[tag]]
    for l in lines:
        l = l.replace(f"def init_{tag} ", f"def initH_{tag} ").replace(f"def relax_{tag} ", f"def relaxH_{tag} ")
        l = l.replace(f"def step_{tag} (pop : Pop) (adj : Adj)", f"def stepH_{tag} (adj : Adj)")
        l = l.replace("queue := [] }", "queue := C20PQ.initData }").replace("queue := push s.queue", "queue := C20PQ.push s.queue")
        l = l.replace(f"(relax_{tag} ", f"(relaxH_{tag} ")
        if l.strip() == "match pop s.queue with":
            out.append("  if C20PQ.empty s.queue then none else")          # `while not queue.empty()`
            l = f"  match {pop} s.queue with"
        out.append(l)
    return out


def _item_lt(tree):
    f = T.find_def(tree, "PriorityItem.__lt__")
    if not (len(f.body) == 1 and isinstance(f.body[0], ast.Return) and isinstance(f.body[0].value, ast.Compare)
            and len(f.body[0].value.ops) == 1):
        raise T.TranslateError("PriorityItem.__lt__ is not a single comparison")
    c = f.body[0].value
    args = [a.arg for a in f.args.args]

    def side(n):
        if isinstance(n, ast.Attribute) and _is_name(n.value) and n.value.id in args and n.attr == "priority":
            return "a.2" if n.value.id == args[0] else "b.2"
        raise T.TranslateError(f"__lt__ compares something else than the priorities: {ast.dump(n)[:80]}")
    l, r = side(c.left), side(c.comparators[0])
    op = {ast.Lt: "prioLt {l} {r}", ast.Gt: "prioLt {r} {l}", ast.LtE: "Prio.le {l} {r}", ast.GtE: "Prio.le {r} {l}"}.get(type(c.ops[0]))
    if op is None: raise T.TranslateError("__lt__ uses an unsupported operator")
    return ["/-- `PriorityItem.__lt__(a, b)` as read from source -/",
            "def itemLt (a b : Nat × Prio) : Bool := " + op.format(l=l, r=r), ""]


HEADER = """import Mouette.Model.Dijkstra
/-
Statement-by-statement translation of the two Dijkstra loops of mouette/processing/paths.py and of
PriorityItem.__lt__ (mouette/utils/priority_queue.py). Bridges: Mouette/Props/C09Bridge.lean.
-/
namespace Mouette.Generated.C09
open Mouette.Dijkstra Mouette.PQ

/-- strict order on priorities (`float.__lt__` with ±inf) -/
def prioLt : Prio → Prio → Bool
  | .posInf, _ => false
  | _, .negInf => false
  | .negInf, _ => true
  | _, .posInf => true
  | .fin a, .fin b => decide (a < b)

"""



def _stub(name, ns, sites):
    """a translation site failed: do not leave the file of an EARLIER tree on disk; the stub has no definitions, so every bridge
    that needs them fails to build and the build log talks about THIS tree"""
    bad = "; ".join(f"{s['site']}: {str(s.get('detail'))[:160]}" for s in sites if not s["ok"]).replace("-/", "- /")
    T.write_generated(name, f"/- TRANSLATION FAILED on the current source tree, no definitions emitted.\n{bad}\n-/\nnamespace {ns}\nend {ns}\n")

HEADER_HEAP = """import Mouette.Model.Dijkstra
import Mouette.Generated.C20PQ
/-
The two Dijkstra loops of mouette/processing/paths.py, statement by statement as in C09Loop.lean, with the four use sites of
`PriorityQueue` (constructor, push, get, empty) bound to mouette/utils/priority_queue.py AS TRANSLATED by property C20
(Generated/C20PQ.lean: heapq's heappush / heappop on a list). Bridges and theorems: Mouette/Props/C09Heap.lean.
-/
namespace Mouette.Generated.C09H
open Mouette.Dijkstra Mouette.PQ Mouette.Generated

"""


def translate():
    sites = []
    out = {}

    def run(name, fn):
        rec = T.site(name, fn)
        sites.append(rec)
        return rec["ok"]

    def paths():
        tree, _ = T.load("mouette/processing/paths.py")
        return tree
    ok = True
    for fn, tag in (("shortest_path", "sp"), ("shortest_path_to_vertex_set", "set")):
        def f(fn=fn, tag=tag):
            out[tag] = _function(paths(), fn, tag)
            return f"{len(out[tag])} lines"
        ok &= run(f"paths.py:{fn} (init + while skeleton + relaxation body)", f)

    def g():
        tree, _ = T.load("mouette/utils/priority_queue.py")
        out["lt"] = _item_lt(tree)
        return out["lt"][1]
    ok &= run("priority_queue.py:PriorityItem.__lt__", g)
    if ok:
        body = "\n".join(out["sp"] + out["set"] + out["lt"]) + "\nend Mouette.Generated.C09\n"
        T.write_generated("C09Loop", body, HEADER)
    else:
        _stub("C09Loop", "Mouette.Generated.C09", sites)
    # round 6: the loops on the queue class as translated by property C20 (re-run here so that C20PQ.lean is of THIS tree)
    from ..gen import c20_translate
    pq = T.site("priority_queue.py: PriorityItem / PriorityQueue (translation of property C20, re-run because Generated.C09H uses it)",
                c20_translate.site_priority_queue)
    sites.append(pq)
    if ok and pq["ok"]:
        body = "\n".join(_heap_variant(out["sp"], "sp") + _heap_variant(out["set"], "set")) + "\nend Mouette.Generated.C09H\n"
        T.write_generated("C09Heap", body, HEADER_HEAP)
    else:
        _stub("C09Heap", "Mouette.Generated.C09H", sites)
    return sites
