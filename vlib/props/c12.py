"""C12 — geometric primitives and boxes obey their algebra, with no side effects."""
import cmath, math, random
from fractions import Fraction

from ..gen import points as G
from .c12_translate import translate as _translate_exprs  # translated expressions of the primitives, see that module
from ..gen import c12_source as _BOX                      # translated BODIES of every AABB method (round 4): Generated/C12Box.lean


def translate():
    return _translate_exprs() + _BOX.translate() + _BOX.translate_maths() + _BOX.translate_prims() + _BOX.translate_writes() + _BOX.translate_vec() + _BOX.translate_rot() + _BOX.translate_circ()


PID = "C12"
TITLE = "Geometric primitives and boxes obey their algebra, with no side effects"
LEAN_MODULES = ["Mouette.Props.C12", "Mouette.Props.C12R", "Mouette.Props.C12G", "Mouette.Props.C12T", "Mouette.Props.C12H", "Mouette.Props.C12S", "Mouette.Props.C12M", "Mouette.Props.C12V", "Mouette.Props.C12Rt", "Mouette.Props.C12Ci"]
REQUIRED_THEOREMS = [
    "project_in_box", "project_realises_l1", "project_realises_linf", "project_realises_l2", "contained_dist_zero",
    "union_contains", "inter_is_overlap", "doIntersect_iff_overlap", "ofPoints_contains", "ofPoints_tight",
    "cross_orthogonal", "lagrange_identity", "det3_eq_triple", "det2_antisymm",
    "rot2_isometry", "rot2_compose", "rotAxis_isometry", "rotAxis_fixes_axis", "rotAxis_compose",
    "circumcenter_equidistant", "circumcenter_axis_equidistant",
    "frame_repaired", "pad_only_own_box", "mkWrap_aliases_caller", "normalizedRepaired_frame", "normalizedOriginal_clobbers",
    # angle clauses over the reals (Props/C12R.lean)
    "principalAngle_spec", "angleDiff_spec", "atan2_range_of_nonneg", "angle3_symmetric", "angle_3pts_range_symm",
    "signedAngle_antisymm", "signedAngle_not_antisymm_witness", "cotan_reciprocal_tan", "roots_pow",
    # bridges Generated (translated from the current source) = Model (Props/C12G.lean)
    "gen_cross_eq", "gen_det2_eq", "gen_det3_eq", "gen_rot2_eq", "gen_rotax_eq", "gen_thresholds_eq",
    # round 2 (Props/C12T.lean): executable turn-based models linked to the real specifications; AABB.pad
    "principalTurn_exact", "principalTurn_spec", "angleDiffTurn_exact", "angleDiffTurn_spec", "rootTurns_pow",
    "cotanPair_scale", "cotanPair_eq_angle3", "pad_clamped", "pad_superset", "padv_frame", "padAt_box",
    # round 3 (Props/C12H.lean): histories by value - results are fresh, every other box keeps its value
    "results_fresh", "other_boxes_unchanged", "result_and_operands_independent",
    # round 4 (Props/C12S.lean): the BODIES of the AABB methods translated on every run (Generated/C12Box.lean) = box algebra;
    # the box laws restated on the extracted methods
    "ctor_bridge", "ctor_copies", "dim_bridge", "infinite_bridge", "unitCube_bridge", "ofPoints_bridge", "span_bridge", "center_bridge",
    "inter_bridge", "union_bridge", "andOr_bridge", "doIntersect_bridge", "padVec_bridge", "padFloat_bridge", "containsPoint_bridge",
    "project_bridge", "distance_bridge", "isEmpty_bridge",
    "project_in_box_source", "project_realises_source", "contained_dist_zero_source", "union_contains_source", "inter_is_overlap_source",
    "doIntersect_iff_overlap_source", "ofPoints_source", "pad_superset_source",
    # round 4 (Props/C12M.lean): bodies of maths.py (principal_angle, angle_diff, roots) and of closed-form primitives of geometry.py
    # (Generated/C12Maths.lean, C12Prim.lean) = the real / rational specifications; what is assumed about float `%`, atan2 is explicit
    "principalAngle_bridge", "angleDiff_bridge", "principalAngle_source_spec", "angleDiff_source_spec", "rootArgs_bridge",
    "roots_source_pow", "principalAngle_turn_bridge", "angleDiff_turn_bridge", "rootArgs_turn_bridge",
    "sign0_bridge", "projectToPlane_bridge", "intersect2_bridge", "clamp_bridge", "distSeg2_bridge", "area2_bridge", "angle3_bridge",
    "signedAngle_bridge", "angle_3pts_source_range_symm", "signed_angle_source_antisymm",
    # relative parallelism test of intersect_2lines2D (repair be27fa8): extracted form, scale invariance, result on both lines
    "gen_parallel_relative", "gen_parallel_test", "parallel2_scale_invariant", "parallel2_of_det_zero", "intersect2_on_both_lines",
    # frame conditions read off the source (Generated/C12W.lean): write sets reaching arguments, numpy.seterr calls
    "source_write_sets", "source_write_sets_cover", "source_no_seterr",
    # round 5 (Props/C12V.lean): bodies of Vec.* and of norm / dot / distance / cotan / face_basis (Generated/C12Vec.lean)
    "normG_box", "vecNorm_eq_normG", "dot_bridge", "distance_bridge", "normalized_bridge", "normalized_frame", "normalize_frame",
    "cotan_bridge", "cotan_source_reciprocal_tan", "faceBasis_orthogonal", "faceBasis_normal_is_circumcenter_axis", "vec_new_is_view",
    "accessor_table",
    # round 7: FloatOps (the ONE statement of what is assumed about floats: Lemmas/FloatOpsR.lean), whole bodies of rotations.py (Props/C12Rt.lean)
    "float_assumptions_consistent", "rotate2d_bridge", "rotateAroundAxis_bridge", "rotate_2d_source_isometry", "rotate_2d_source_compose",
    "rotate_around_axis_source_isometry", "rotate_around_axis_source_fixes_axis", "rotate_around_axis_source_compose",
    # round 7: whole body of circumcenter (Generated/C12Circ.lean, the frame of face_basis as parameters; Props/C12Ci.lean)
    "circumcenter_source_equidistant", "circumcenter_source_raises_iff",
]

# Which function of the anchor files is tied to the model how.  "translated": a definition of Generated/C12*.lean is emitted from
# that body on every run and a bridge theorem of Props/C12G.lean / C12S.lean / C12M.lean uses it.
_G = "mouette/geometry/geometry.py::"
_A = "mouette/geometry/aabb.py::AABB."
_V = "mouette/geometry/vector.py::Vec."
SOURCE_MAP = {
    _A + "__init__": "translated", _A + "dim": "translated", _A + "mini": "translated", _A + "maxi": "translated",
    _A + "unit_cube": "translated", _A + "infinite": "translated", _A + "of_points": "translated", _A + "span": "translated",
    _A + "center": "translated", _A + "intersection": "translated", _A + "__and__": "translated", _A + "do_intersect": "translated",
    _A + "union": "translated", _A + "__or__": "translated", _A + "pad": "translated", _A + "contains_point": "translated",
    _A + "project": "translated", _A + "distance": "translated", _A + "is_empty": "translated",
    _A + "of_mesh": "out-of-scope: needs a Mesh object (same formula as of_points, which is translated)",
    _A + "__repr__": "out-of-scope: printing",
    _A + "IncompatibleDimensionError.__init__": "out-of-scope: exception class",
    _G + "cross": "translated", _G + "det_2x2": "translated", _G + "det_3x3": "translated",          # Generated/C12.lean (expressions), C12G
    _G + "sign0": "translated", _G + "project_to_plane": "translated", _G + "intersect_2lines2D": "translated",
    _G + "distance_to_segment2D": "translated", _G + "triangle_area_2D": "translated", _G + "angle_3pts": "translated",
    _G + "signed_angle_2vec3D": "translated",                                                        # Generated/C12Prim.lean, C12M
    _G + "norm": "translated",            # Box.normL1 / normLinf / normL2sq (l2 squared), BoxS.normOf
    _G + "dot": "translated",             # V2.dot / V3.dot of Model/Prim.lean (np.dot)
    _G + "distance": "translated",        # squared norm of the difference
    _G + "cotan": "translated",           # Prim.cotanPair (the code normalises first: cotanPair_scale)
    _G + "circumcenter": "translated",  # Generated/C12Circ.lean: whole body, the three vectors returned by face_basis as parameters (Props/C12Ci.lean:
                                        # circumcenter_source_equidistant for every orthonormal frame normal to the triangle, circumcenter_source_raises_iff)
    _G + "face_basis": "translated",   # reached through circumcenter only
    _G + "sign": "out-of-scope: not used by a clause of the statement",
    _G + "signed_angle_3pts": "out-of-scope: thin wrapper of signed_angle_2vec3D, not exercised",
    _G + "angle_2vec2D": "out-of-scope: not in the statement", _G + "angle_2vec3D": "out-of-scope: not in the statement",
    _G + "triangle_area": "out-of-scope: not in the statement (triangle_area_2D is translated)",
    _G + "quad_area": "out-of-scope: not in the statement", _G + "aspect_ratio": "out-of-scope: not in the statement",
    "mouette/geometry/rotations.py::rotate_2d": "translated", "mouette/geometry/rotations.py::rotate_around_axis": "translated",
    "mouette/geometry/rotations.py::axis_rot_from_z": "out-of-scope: not in the statement",
    "mouette/geometry/rotations.py::match_rotation": "out-of-scope: scipy Rotation groups, not in the statement",
    _V + "__new__": "translated",          # heap model of Model/BoxHist.lean: Vec(x) is a view of an ndarray, a copy of a list/tuple
    _V + "normalized": "translated",       # normalizedRepaired (numpy error state restored on return and on raise)
    _V + "normalize": "translated",     # documented to modify its own object; monitored for other effects
    _V + "norm": "translated", _V + "dot": "translated",       # Generated/C12Vec.lean (vecNorm_eq_normG, dot_bridge)
    _V + "x": "translated", _V + "y": "translated", _V + "z": "translated",      # component access (getters); setters are used by rotate_* only
    _V + "xy": "out-of-scope: accessor not used by the anchored functions",
    _V + "outer": "out-of-scope: not in the statement", _V + "from_complex": "out-of-scope: constructor not used by the anchored functions",
    _V + "random": "out-of-scope: random constructor", _V + "zeros": "out-of-scope: constructor not used by the anchored functions",
    _V + "X": "out-of-scope: constant constructor", _V + "Y": "out-of-scope: constant constructor", _V + "Z": "out-of-scope: constant constructor",
    "mouette/utils/maths.py::principal_angle": "translated", "mouette/utils/maths.py::angle_diff": "translated",
    "mouette/utils/maths.py::roots": "translated",
    "mouette/utils/maths.py::solve_quadratic": "out-of-scope: not in the statement",
}

TRUSTED = [
    "Lean 4.33.0 kernel; axioms ⊆ {propext, Classical.choice, Quot.sound}",
    "hand-written models Mouette/Model/AABB.lean, BoxHist.lean (heap + numpy error state), Prim.lean tied to mouette/geometry/{aabb,vector,geometry,rotations}.py by the history correspondence of this run",
    "floating point not modelled: inputs are small dyadic rationals (box operations are then exact in binary64); sqrt/cos/sin/atan2 are applied by the harness to the model's exact rational outputs and compared at |impl-exact| <= 1e-9*scale+1e-12",
    "numpy view/copy rules and numpy.geterr() are observed from outside (bytes + identity snapshots around every call)",
    "translator vlib/props/c12_translate.py (Python ast -> Lean term, verbatim) for the expressions of cross, det_2x2, det_3x3, rotate_2d, rotate_around_axis and the 1e-12 thresholds",
    "round 4: vlib/gen/c12_source.py re-extracts on every run the BODIES of every AABB method (Generated/C12Box.lean), of principal_angle / angle_diff / roots "
    "(Generated/C12Maths.lean) and of sign0, project_to_plane, intersect_2lines2D, distance_to_segment2D, triangle_area_2D, angle_3pts, signed_angle_2vec3D "
    "(Generated/C12Prim.lean); Props/C12S.lean, C12M.lean prove them equal to the box algebra / the real and rational specifications. Trusted there: the translator "
    "and the vocabulary of Model/BoxSource.lean (numpy componentwise operations as zipWith over ℚ∪{±∞}); float `%` with a positive modulus is x − m⌊x/m⌋, math.pi is π, "
    "cmath.polar/rect are (|c|, arg c) / exp(iθ), atan2 of a norm is represented by (norm², c): all exact, rounding not modelled",
]
ASSUMPTIONS = ["agreement model/implementation is established on the histories explored in this run only",
               "box laws are claimed for boxes with mini <= maxi in every dimension (inverted boxes are only checked for side effects and against the model)",
               "Vec.normalize / AABB.pad are documented to modify their own object; AABB.mini/maxi return the internal arrays by design"]
RULE = ("(a) histories of 4-14 operations on 3-6 caller arrays (dimension 1-6, dyadic, incl. zero vectors and arrays of a second dimension) "
        "and the boxes built from them (constructor, infinite, unit_cube, of_points, intersection, union, do_intersect, pad float/vector incl. "
        "negative, contains_point, project, distance l1/linf/l2, is_empty, center, span, Vec.normalized incl. the zero vector); every call is "
        "wrapped by a monitor that snapshots all arrays (bytes, identity) and numpy.geterr() before/after, also when the call raises; "
        "(b) single primitive calls (cross, det_2x2, det_3x3, rotate_2d, rotate_around_axis, circumcenter, intersect_2lines2D, "
        "project_to_plane, distance_to_segment2D, triangle_area_2D, angle_3pts, signed_angle_2vec3D, cotan, principal_angle, angle_diff, roots; "
        "the last three also on EXACT inputs given in turns, multiples of pi/k, compared with the executable turn models; pad vectors given "
        "as float / caller ndarray / Vec view, incl. negative entries); round 3: the caller's arrays as float64 / float32 / int64 / Python "
        "lists (same values), every box and caller object the caller holds compared BY VALUE after every operation, pad right after "
        "union/intersection (result vs operands), primitives called with int Vec / int ndarray / float ndarray / lists / tuples / float32 "
        "where the unchanged code accepts them, the same object passed as two arguments) "
        "on random and degenerate inputs, compared with exact arithmetic and with their identities; scale family: intersect_2lines2D with directions / points "
        "and circumcenter with triangles of size 2^-23 (~1e-7) ... 2^20 (~1e6) (parallel iff the directions are, never because they are short; circumcenter "
        "must not raise on a well-shaped triangle of any size); non-trivial = distinct case with at least "
        "one box operation on an existing box returning a value (a) / a non-degenerate primitive evaluation (b)")

DEFAULT_ERR = {"divide": "warn", "over": "warn", "under": "ignore", "invalid": "warn"}

# Round 4, soundness of the oracle: clauses that the STATEMENT of C12 does not contain are no longer findings (a deviation there is
# still seen by the correspondence with the model, i.e. at worst `no-failing-input-found`, and is counted below for information):
# the value of pad / span / center / normalized, project_to_plane, triangle_area_2D, and how many distinct values `roots` returns.
_BEYOND = {"pad/value", "pad/superset", "span/current-bounds", "center/current-bounds", "normalized/value", "project_to_plane/in-plane",
           "area2/exact", "roots/count", "roots/distinct", "norm/flattened-definition"}
_BEYOND_SEEN = {}


def _report_beyond():
    if _BEYOND_SEEN:
        print("C12 deviations on clauses beyond the statement (informational, not findings):", dict(sorted(_BEYOND_SEEN.items())))


import atexit
atexit.register(_report_beyond)


# ------------------------------------------------------------------------------------------------
# monitor: side effects of one call
# ------------------------------------------------------------------------------------------------
def _arrays_in(obj, acc, depth=0):
    import numpy as np
    from mouette.geometry import AABB
    if depth > 3: return
    if isinstance(obj, np.ndarray):
        acc.append(obj)
        b = obj.base
        while isinstance(b, np.ndarray):
            acc.append(b); b = b.base
    elif isinstance(obj, AABB):
        _arrays_in(obj._p1, acc, depth + 1); _arrays_in(obj._p2, acc, depth + 1)
    elif isinstance(obj, (list, tuple)):
        for o in obj: _arrays_in(o, acc, depth + 1)


class Monitor:
    """Wraps calls; records mutations of any watched array that the call is not documented to modify, and changes of
    numpy.geterr(), on return and on raise."""

    def __init__(self):
        self.effects = []   # (key-suffix, detail)
        self.watched = []   # (label, array) arrays that no call may change (caller arrays, other boxes)
        self.last_err = None

    def call(self, name, fn, args, may_modify=()):
        import numpy as np
        snaps = []
        seen = set()
        pool = [(f"arg{i}", a) for i, a in enumerate(args)] + list(self.watched)
        for label, a in pool:
            acc = []
            _arrays_in(a, acc)
            for arr in acc:
                if id(arr) in seen: continue
                seen.add(id(arr))
                if any(arr is m for m in may_modify): continue
                snaps.append((label, arr, arr.tobytes(), arr.shape, arr.dtype))
        before = dict(np.geterr())
        how, out = "return", None
        try:
            out = fn(*args)
        except Exception as e:  # noqa
            how, out = "raise", e
        after = dict(np.geterr())
        self.last_err = after
        if after != before:
            self.effects.append((f"geterr/{name}/{how}", f"numpy.geterr() before {before} after {after}"))
            np.seterr(**before)      # put it back so that the rest of the history is observed from the caller's state
        for label, arr, b, sh, dt in snaps:
            if arr.tobytes() != b or arr.shape != sh or arr.dtype != dt:
                self.effects.append((f"mutates/{name}/{'argument' if label.startswith('arg') else 'caller-array' if not label.startswith('box') else 'other-box'}",
                                     f"{label} changed during {name} ({how})"))
        return how, out


def _effect_finding(key, detail):
    parts = key.split("/")
    if parts[0] == "geterr":
        what = f"numpy's floating-point error configuration is changed by {parts[1]} (on {parts[2]})"
    else:
        what = f"{parts[1]} changes an array it must not modify ({parts[2]})"
    return {"key": "C12/effect/" + key, "what": what, "detail": detail}


# which representations of the vector arguments each primitive accepts on the unchanged tree (probed; Vec is the documented type)
_PRIM_REPS = {
    "cross": ["vecint", "ndint", "nd", "list", "intlist", "tuple", "f32"], "det2": ["vecint", "ndint", "nd", "list", "intlist", "tuple", "f32"],
    "det3": ["vecint", "ndint", "nd", "list", "intlist", "tuple", "f32"], "area2": ["vecint", "ndint", "nd", "f32"],
    "isect": ["vecint"], "pplane": ["vecint", "ndint", "nd"], "dseg": ["vecint", "ndint", "nd"],
    "angle3": ["vecint", "ndint", "nd", "list", "intlist", "tuple"], "sangle": ["vecint", "ndint", "nd", "list", "intlist", "tuple"],
    "circ": ["vecint", "ndint", "nd"], "cotan": ["vecint", "ndint", "nd", "list", "intlist", "tuple"],
    # (float32 inputs make rotate_* compute in single precision - numpy's weak promotion of Python floats - so no f32 there)
    "rot2": ["vecint", "ndint", "nd", "list", "intlist", "tuple"], "rotax": ["vecint", "ndint", "nd", "list", "intlist", "tuple"],
}


def _prim_rep(case):
    rep = case.get("rep", "vec")
    if rep == "vec" or rep not in _PRIM_REPS.get(case["f"], []): return "vec"
    nv = {"rot2": 1, "rotax": 2}.get(case["f"], len(case["args"]))
    vals = [Fraction(c) for a in case["args"][:nv] if isinstance(a, list) for c in a]
    if rep in ("vecint", "ndint", "intlist") and not all(v.denominator == 1 for v in vals): return "vec"
    if rep == "f32" and not all(v.denominator in (1, 2, 4, 8) and abs(v) <= 64 for v in vals): return "vec"
    return rep


def _hist_rep(case):
    """representation of the caller's arrays in a box history (same values); falls back to float64 when the values do not fit"""
    rep = case.get("rep", "float64")
    vals = [Fraction(c) for a in case["arrs"] for c in a]
    if rep == "int" and not all(v.denominator == 1 for v in vals): rep = "float64"
    if rep == "float32" and not all(v.denominator in (1, 2, 4, 8) and abs(v) <= 64 for v in vals): rep = "float64"
    return rep


def _reset_err():
    import numpy as np
    np.seterr(**DEFAULT_ERR)


# ------------------------------------------------------------------------------------------------
# (a) box histories
# ------------------------------------------------------------------------------------------------
def _fr(x):
    x = float(x)
    if x == math.inf: return "+inf"
    if x == -math.inf: return "-inf"
    if x != x: return "nan"
    return G.fs(Fraction(x))


def _fmt_vec(v):
    return " ".join([str(len(v))] + [_fr(x) for x in v])


def _fmt_box(b):
    return f"B {_fmt_vec(b.mini)} / {_fmt_vec(b.maxi)}"


def _err_code(e=None):
    import numpy as np
    e = e or np.geterr()
    return "".join(e[k][0] for k in ("divide", "over", "under", "invalid"))


def _map_exc(e):
    n = type(e).__name__
    if n == "Exception" and "Expected an array of points" in str(e): return "err:Value"
    if n == "IncompatibleDimensionError" or (n == "Exception" and "dimension" in str(e).lower()):
        return "err:Size"
    if n == "ValueError": return "err:Value"
    return f"err:Other({n})"


def _run_hist(case, want_oracle):
    """Executes the history on the real code. Returns (records, findings)."""
    import numpy as np
    from mouette.geometry import AABB, Vec
    _reset_err()
    findings = []
    rep = _hist_rep(case)
    if rep == "int": arrs = [np.array([int(Fraction(c)) for c in a], dtype=np.int64) for a in case["arrs"]]
    elif rep == "float32": arrs = [np.array([float(Fraction(c)) for c in a], dtype=np.float32) for a in case["arrs"]]
    elif rep == "list": arrs = [[float(Fraction(c)) for c in a] for a in case["arrs"]]
    else: arrs = [np.array([float(Fraction(c)) for c in a], dtype=float) for a in case["arrs"]]
    loose = 1e-6 if rep == "float32" else 1e-9

    def valof(a):
        return a.tobytes() if isinstance(a, np.ndarray) else repr(a)
    init = [valof(a) for a in arrs]
    boxes = []
    recs = []
    mon = Monitor()
    mon.watched = [(f"caller{i}", a) for i, a in enumerate(arrs)]

    def box_arg(b):
        return boxes[b % len(boxes)] if boxes else None

    def others(*own):
        return [(f"box{k}", bx) for k, bx in enumerate(boxes) if not any(bx is o for o in own)]

    def law(key, what, detail):
        if key in _BEYOND: _BEYOND_SEEN[key] = _BEYOND_SEEN.get(key, 0) + 1; return
        findings.append({"key": "C12/" + key, "what": what, "detail": detail})

    def bounds(bx):
        return [Fraction(float(x)) if math.isfinite(float(x)) else float(x) for x in bx.mini], \
               [Fraction(float(x)) if math.isfinite(float(x)) else float(x) for x in bx.maxi]

    def valid(bx):
        lo, hi = bounds(bx)
        return all(l <= h for l, h in zip(lo, hi)) and all(l != math.inf for l in lo) and all(h != -math.inf for h in hi)

    try:
        for step, o in enumerate(case["ops"]):
            k = o[0]
            res = None
            mon.last_err = None
            exact = [[Fraction(float(x)) for x in a] for a in arrs]     # current values (a defective call may have changed them)
            mon.watched = [(f"caller{i}", a) for i, a in enumerate(arrs)]
            # BY VALUE, per name the caller holds: every caller object and every box held before this operation
            held_arrs = [valof(a) for a in arrs]
            held_boxes = [_fmt_box(bx) for bx in boxes]
            tgt = (o[1] % len(boxes)) if (k in ("padf", "padv", "padV") and boxes) else None
            if k == "mk":
                mon.watched += others()
                how, out = mon.call("AABB", AABB, (arrs[o[1]], arrs[o[2]]))
                if how == "return": boxes.append(out); res = _fmt_box(out)
                else: res = _map_exc(out)
            elif k == "inf":
                how, out = mon.call("AABB.infinite", AABB.infinite, (o[1],)); boxes.append(out); res = _fmt_box(out)
            elif k == "cube":
                how, out = mon.call("AABB.unit_cube", AABB.unit_cube, (o[1], bool(o[2]))); boxes.append(out); res = _fmt_box(out)
            elif k == "ofp":
                mon.watched += others()
                pts = np.array([arrs[i] for i in o[1]]) if o[1] else np.zeros((0,))
                how, out = mon.call("AABB.of_points", AABB.of_points, (pts, float(Fraction(o[2]))))
                if how == "return":
                    boxes.append(out); res = _fmt_box(out)
                    if want_oracle:
                        P = [exact[i] for i in o[1]]; pad = Fraction(o[2])
                        lo, hi = bounds(out)
                        for a in range(len(P[0])):
                            col = [p[a] for p in P]
                            if lo[a] != min(col) - pad or hi[a] != max(col) + pad:
                                law("of_points/tight", "of_points is not the tight box of the points (± padding)", f"step {step} axis {a}")
                else: res = _map_exc(out)
            elif k in ("inter", "union", "doint"):
                a, b = box_arg(o[1]), box_arg(o[2])
                if a is None: res = "nobox"
                else:
                    mon.watched += [(f"box{i}", bx) for i, bx in enumerate(boxes)]
                    fn = {"inter": AABB.intersection, "union": AABB.union, "doint": AABB.do_intersect}[k]
                    how, out = mon.call("AABB." + fn.__name__, fn, (a, b))
                    if how == "raise": res = _map_exc(out)
                    elif k == "doint":
                        res = "1" if bool(out) else "0"
                        if want_oracle and valid(a) and valid(b):
                            (alo, ahi), (blo, bhi) = bounds(a), bounds(b)
                            ext = all(min(h1, h2) >= max(l1, l2) for l1, h1, l2, h2 in zip(alo, ahi, blo, bhi))
                            if bool(out) != ext:
                                law("do_intersect/overlap", "do_intersect differs from 'overlap extent >= 0 in every dimension'", f"step {step}")
                    else:
                        boxes.append(out); res = _fmt_box(out)
                        if want_oracle:
                            (alo, ahi), (blo, bhi), (rlo, rhi) = bounds(a), bounds(b), bounds(out)
                            if k == "inter":
                                if rlo != [max(x, y) for x, y in zip(alo, blo)] or rhi != [min(x, y) for x, y in zip(ahi, bhi)]:
                                    law("intersection/overlap", "intersection is not the componentwise overlap", f"step {step}")
                            else:
                                if not (all(r <= x and r <= y for r, x, y in zip(rlo, alo, blo)) and
                                        all(r >= x and r >= y for r, x, y in zip(rhi, ahi, bhi))):
                                    law("union/contains", "union does not contain both operands", f"step {step}")
            elif k in ("padf", "padv", "padV"):
                b = box_arg(o[1])
                if b is None: res = "nobox"
                else:
                    mon.watched += others(b)
                    # padding given as float / as the caller's ndarray / as a Vec view of the caller's ndarray
                    arg = float(Fraction(o[2])) if k == "padf" else arrs[o[2]] if k == "padv" else Vec(arrs[o[2]])
                    before = bounds(b)
                    # every box the caller holds under another name (position in the history), by VALUE: a box that an earlier
                    # call returned as an alias of its operand is still "another box" for the caller
                    tgt = o[1] % len(boxes)
                    held = [(i, _fmt_box(bx)) for i, bx in enumerate(boxes) if i != tgt]
                    how, out = mon.call("AABB.pad", b.pad, (arg,), may_modify=(b._p1, b._p2))
                    for i, was in held:
                        if _fmt_box(boxes[i]) != was and not any(e[0] == "mutates/AABB.pad/other-box" for e in mon.effects):
                            mon.effects.append(("mutates/AABB.pad/other-box", f"box{i} changed during pad of box{tgt} (step {step}): was {was}, now {_fmt_box(boxes[i])}"))
                    res = "-" if how == "return" else _map_exc(out)
                    if want_oracle and how == "return":
                        p = [Fraction(o[2])] * b.dim if k == "padf" else exact[o[2]]
                        p = [max(x, 0) for x in p]
                        lo, hi = bounds(b)
                        want_lo = [l - x if l not in (math.inf, -math.inf) else l for l, x in zip(before[0], p)]
                        want_hi = [h + x if h not in (math.inf, -math.inf) else h for h, x in zip(before[1], p)]
                        if lo != want_lo or hi != want_hi:
                            law("pad/value", "pad does not enlarge the box by max(pad,0) on each side", f"step {step}")
                        if not (all(x <= y for x, y in zip(lo, before[0])) and all(x >= y for x, y in zip(hi, before[1]))):
                            law("pad/superset", "the padded box does not contain the original box", f"step {step}")
            elif k in ("contains", "project", "dist"):
                b = box_arg(o[1])
                if b is None: res = "nobox"
                else:
                    mon.watched += [(f"box{i}", bx) for i, bx in enumerate(boxes)]
                    pt = arrs[o[2]]; ex = exact[o[2]]
                    shp = case.get("ptshape")
                    if shp == "row" or (shp == "col" and len(ex) == 1):
                        # representation family (blind C12-j): the same point as a (1,d) row / a (1,1) column - `pt.size == dim`, so the
                        # size check accepts it; the values (hence every law) are those of the flat point
                        pt = np.asarray(pt).reshape((1, -1) if shp == "row" else (-1, 1))
                    else:
                        shp = None
                    if k == "contains":
                        how, out = mon.call("AABB.contains_point", b.contains_point, (pt,))
                        res = ("1" if bool(out) else "0") if how == "return" else _map_exc(out)
                    elif k == "project":
                        how, out = mon.call("AABB.project", b.project, (pt,))
                        if how == "raise": res = _map_exc(out)
                        else:
                            if shp: out = np.asarray(out).reshape(-1)
                            res = "V " + _fmt_vec(out)
                            if want_oracle and valid(b) and all(math.isfinite(float(x)) for x in out):
                                lo, hi = bounds(b)
                                pr = [Fraction(float(x)) for x in out]
                                if not all(l <= x <= h for l, x, h in zip(lo, pr, hi)):
                                    law("project/in-box", "the projection of a point does not lie in the closed box", f"step {step}")
                                diff = [abs(x - y) for x, y in zip(pr, ex)]
                                for which, val in (("l1", sum(diff)), ("linf", max(diff)), ("l2", sum(d * d for d in diff))):
                                    d = float(b.distance(pt, which))
                                    # the projection is finite here, so a non-finite distance cannot be the distance it realises
                                    okd = math.isfinite(d) and ((Fraction(d) == val) if which != "l2" else abs(d - math.sqrt(val)) <= loose * (1 + math.sqrt(val)))
                                    if not okd:
                                        law(f"project/realises-distance/{which}", f"|p - project(p)| differs from distance(p,'{which}')", f"step {step}")
                                if bool(b.contains_point(pt)) and float(b.distance(pt)) != 0.0:
                                    law("distance/contained-zero", "a contained point is not at distance zero", f"step {step}")
                    else:
                        how, out = mon.call("AABB.distance", b.distance, (pt, o[3]))
                        if how == "raise": res = _map_exc(out)
                        else: res = ("fl:" if o[3] == "l2" else "") + _fr(out)
            elif k in ("empty", "center", "span", "get"):
                b = box_arg(o[1])
                if b is None: res = "nobox"
                else:
                    mon.watched += [(f"box{i}", bx) for i, bx in enumerate(boxes)]
                    if k == "empty":
                        how, out = mon.call("AABB.is_empty", b.is_empty, ()); res = "1" if bool(out) else "0"
                    elif k == "get":
                        res = _fmt_box(b)
                    else:
                        how, out = mon.call("AABB." + k, lambda bb=b, kk=k: getattr(bb, kk), ())
                        res = "V " + _fmt_vec(out) if all(math.isfinite(float(x)) for x in list(b.mini) + list(b.maxi)) else "undef"
                        if want_oracle and res != "undef":
                            # the n-th use of a used box: computed from the CURRENT bounds (after every pad so far)
                            lo, hi = bounds(b)
                            want = [(l + h) / 2 for l, h in zip(lo, hi)] if k == "center" else [h - l for l, h in zip(lo, hi)]
                            if [Fraction(float(x)) for x in out] != want:
                                law(f"{k}/current-bounds", f"{k} is not computed from the current bounds of the box (stale after an in-place change?)", f"step {step}")
            elif k == "nrm":
                mon.watched += [(f"box{i}", bx) for i, bx in enumerate(boxes)]
                how, out = mon.call("Vec.normalized", Vec.normalized, (arrs[o[1]],))
                if how == "raise": res = _map_exc(out)
                else:
                    res = "-"
                    if want_oracle:
                        n2 = sum(c * c for c in exact[o[1]])
                        want = [float(c) / math.sqrt(n2) for c in exact[o[1]]]
                        if any(abs(float(x) - w) > loose for x, w in zip(out, want)):
                            law("normalized/value", "normalized(v) is not v/|v|", f"step {step}")
            else:
                raise ValueError(f"unknown op {o}")
            fname = {"mk": "AABB", "inf": "AABB.infinite", "cube": "AABB.unit_cube", "ofp": "AABB.of_points", "inter": "AABB.intersection",
                     "union": "AABB.union", "doint": "AABB.do_intersect", "padf": "AABB.pad", "padv": "AABB.pad", "padV": "AABB.pad",
                     "contains": "AABB.contains_point", "project": "AABB.project", "dist": "AABB.distance", "empty": "AABB.is_empty",
                     "center": "AABB.center", "span": "AABB.span", "get": "AABB.mini", "nrm": "Vec.normalized"}.get(k, k)
            for i, was in enumerate(held_boxes):
                if i != tgt and _fmt_box(boxes[i]) != was and not any(e[0] == f"mutates/{fname}/other-box" for e in mon.effects):
                    mon.effects.append((f"mutates/{fname}/other-box", f"box{i} changed (by value) during {k} at step {step}: was {was}, now {_fmt_box(boxes[i])}"))
            for i, was in enumerate(held_arrs):
                if valof(arrs[i]) != was and not any(e[0].startswith(f"mutates/{fname}/") for e in mon.effects):
                    mon.effects.append((f"mutates/{fname}/caller-array", f"caller object {i} changed (by value) during {k} at step {step}"))
            changed = [i for i, (a, b0) in enumerate(zip(arrs, init)) if valof(a) != b0]
            recs.append(f"{res} ; {' '.join([str(len(changed))] + [str(i) for i in changed])} ; {_err_code(mon.last_err)}")
    finally:
        _reset_err()
    findings += [_effect_finding(k_, d_) for k_, d_ in mon.effects]
    return recs, findings


# ------------------------------------------------------------------------------------------------
# (b) primitives
# ------------------------------------------------------------------------------------------------
def _well_shaped(ex, thr=Fraction(1, 10 ** 6)):
    """exact test on the three points: |e1 x e2|^2 >= thr * |e1|^2 * |e2|^2 with e_i the edges at the first point (sin^2 of their angle)"""
    e1 = [y - x for x, y in zip(ex[0], ex[1])]; e2 = [y - x for x, y in zip(ex[0], ex[2])]
    n = [e1[1] * e2[2] - e1[2] * e2[1], e1[2] * e2[0] - e1[0] * e2[2], e1[0] * e2[1] - e1[1] * e2[0]]
    a, b = sum(x * x for x in e1), sum(x * x for x in e2)
    return a > 0 and b > 0 and sum(x * x for x in n) >= thr * a * b


def _fv(v):
    return [Fraction(c) for c in v]


_LOOSE = [1.0]     # multiplied into the comparison tolerance (float32 inputs: single precision results)


def _tol(scale):
    return (1e-9 * scale + 1e-12) * _LOOSE[0]


def _run_prim(case, want_oracle):
    """Returns (observation, findings)."""
    import numpy as np
    import mouette.geometry as g
    from mouette.geometry import Vec
    from mouette.geometry import rotations as R
    from mouette.utils import maths
    _reset_err()
    f = case["f"]; A = case["args"]
    findings = []
    mon = Monitor()

    def law(key, what, detail=""):
        if key in _BEYOND: _BEYOND_SEEN[key] = _BEYOND_SEEN.get(key, 0) + 1; return
        findings.append({"key": "C12/" + key, "what": what, "detail": detail})

    prep = _prim_rep(case)
    made = {}

    def vec(i):
        # the same OBJECT for arguments listed in case['same']
        src = case.get("same", {}).get(str(i), i)
        if src in made: return made[src]
        vals = [Fraction(c) for c in A[src]]
        if prep == "vecint": o_ = Vec(np.array([int(v) for v in vals], dtype=np.int64))
        elif prep == "ndint": o_ = np.array([int(v) for v in vals], dtype=np.int64)
        elif prep == "nd": o_ = np.array([float(v) for v in vals], dtype=float)
        elif prep == "list": o_ = [float(v) for v in vals]
        elif prep == "intlist": o_ = [int(v) for v in vals]
        elif prep == "tuple": o_ = tuple(float(v) for v in vals)
        elif prep == "f32": o_ = Vec(np.array([float(v) for v in vals], dtype=np.float32))
        else: o_ = Vec(np.array([float(v) for v in vals], dtype=float))
        made[src] = o_
        return o_
    obs = None
    try:
        if f == "normnd":
            # norm / distance on (n,d) arrays against the definition on the FLATTENED array (docstring: "will be flattened"); informational
            # (the statement speaks of the norms through the point-box distance: see the row/column point family of the histories)
            rows = [[Fraction(c) for c in r] for r in A[0]]
            X = np.array([[float(c) for c in r] for r in rows], dtype=float)
            if A[2] == "dist":
                how, out = mon.call("distance", g.distance, (np.zeros_like(X), X, A[1]))
            else:
                how, out = mon.call("norm", g.norm, (X, A[1]))
            flat = [abs(c) for r in rows for c in r]
            want = sum(flat) if A[1] == "l1" else max(flat) if A[1] == "linf" else math.sqrt(sum(c * c for c in flat))
            if how == "raise": obs = _map_exc(out)
            else:
                obs = "ok"
                if abs(float(out) - float(want)) > 1e-9 * (1 + float(want)):
                    law("norm/flattened-definition", f"{A[2]} on an (n,d) array is not the {A[1]} norm of the flattened array", f"{float(out)} vs {float(want)}")
        elif f == "nrmz":
            # Vec.normalize(which): documented to modify ITS OWN object; watched: a second array with the same values, numpy.geterr()
            vals = [float(Fraction(c)) for c in A[0]]
            v = Vec(list(vals))                       # a fresh array (Vec of a list copies): nothing of the caller is aliased
            twin = np.array(vals, dtype=float)
            mon.watched.append(("twin", twin))
            own = []
            _arrays_in(v, own)
            how, out = mon.call("Vec.normalize", Vec.normalize, (v, A[1]), may_modify=tuple(own))
            obs = _map_exc(out) if how == "raise" else "ok"
        elif f in ("cross", "det2", "det3", "area2", "isect", "pplane", "dseg", "angle3", "sangle", "circ", "cotan"):
            n = {"cross": 2, "det2": 2, "det3": 3, "area2": 3, "isect": 4, "pplane": 3, "dseg": 3, "angle3": 3, "sangle": 3, "circ": 3, "cotan": 3}[f]
            vs = [vec(i) for i in range(n)]
            ex = [_fv(A[i]) for i in range(n)]
            fn = {"cross": g.cross, "det2": g.det_2x2, "det3": g.det_3x3, "area2": g.triangle_area_2D, "isect": g.intersect_2lines2D,
                  "pplane": g.project_to_plane, "dseg": g.distance_to_segment2D, "angle3": g.angle_3pts, "sangle": g.signed_angle_2vec3D,
                  "circ": g.circumcenter, "cotan": g.cotan}[f]
            how, out = mon.call(fn.__name__, fn, tuple(vs))
            if how == "raise":
                obs = _map_exc(out)
                if f == "circ" and want_oracle and _well_shaped(ex):
                    # "circumcentres are equidistant", for triangles of EVERY size: a well-shaped triangle has a circumcentre
                    law("circumcenter/raises-on-well-shaped-triangle",
                        "circumcenter raises on a triangle whose edges at the first vertex make an angle with sin^2 >= 1e-6 "
                        "(parallelism of the bisectors judged by an absolute bound on a determinant that scales with the square of the size?)",
                        f"{obs}; edge lengths^2 {[str(sum((y - x) ** 2 for x, y in zip(ex[0], e))) for e in ex[1:]]}")
            elif f in ("cross", "pplane"):
                obs = "V " + _fmt_vec(out) if all(math.isfinite(float(x)) for x in out) else "degenerate"
                if want_oracle and f == "cross":
                    a, b = ex
                    want = [a[1] * b[2] - a[2] * b[1], a[2] * b[0] - a[0] * b[2], a[0] * b[1] - a[1] * b[0]]
                    if [Fraction(float(x)) for x in out] != want:
                        law("cross/exact", "cross(A,B) differs from the exact cross product", f"got {[str(Fraction(float(x))) for x in out]} want {[str(x) for x in want]}")
                if want_oracle and f == "pplane" and obs != "degenerate":
                    P_, N_, o_ = ex
                    res_ = [Fraction(float(x)) for x in out]
                    off = sum((r - o) * n for r, o, n in zip(res_, o_, N_))
                    sc = float(sum(n * n for n in N_)) ** 0.5 * (1 + max(abs(float(x)) for x in res_ + o_))
                    if abs(float(off)) > 1e-9 * sc + 1e-12:
                        law("project_to_plane/in-plane", "project_to_plane(P,N,o) is not in the plane through o with normal N", str(float(off)))
            elif f in ("det2", "det3", "area2"):
                obs = _fr(out)
                if want_oracle:
                    if f == "det2":
                        want = ex[0][0] * ex[1][1] - ex[0][1] * ex[1][0]
                    elif f == "area2":
                        u = [y - x for x, y in zip(ex[0], ex[1])]; w = [y - x for x, y in zip(ex[0], ex[2])]
                        want = abs(u[0] * w[1] - u[1] * w[0]) / 2
                    else:
                        (a, b, c) = ex
                        want = (a[0] * (b[1] * c[2] - b[2] * c[1]) - a[1] * (b[0] * c[2] - b[2] * c[0]) + a[2] * (b[0] * c[1] - b[1] * c[0]))
                    if Fraction(float(out)) != want:
                        law(f"{f}/exact", f"{f} differs from the exact value", f"got {Fraction(float(out))} want {want}")
            elif f == "isect":
                obs = "none" if out is None else "V " + _fmt_vec(out)
            elif f == "dseg":
                obs = "fl:" + _fr(out)
            elif f == "circ":
                obs = "V " + _fmt_vec(out) if all(math.isfinite(float(x)) for x in out) else "degenerate"
                e1 = [y - x for x, y in zip(ex[0], ex[1])]; e2 = [y - x for x, y in zip(ex[0], ex[2])]
                nrm_ = [e1[1] * e2[2] - e1[2] * e2[1], e1[2] * e2[0] - e1[0] * e2[2], e1[0] * e2[1] - e1[1] * e2[0]]
                if want_oracle and obs != "degenerate" and any(x != 0 for x in nrm_):
                    c = [float(x) for x in out]
                    d = [math.dist(c, [float(x) for x in e]) for e in ex]
                    if max(d) - min(d) > _tol(max(d) + 1) * 1e3:
                        law("circumcenter/equidistant", "the circumcentre is not equidistant from the three points", f"distances {d}")
                    elif "scale" in case and _well_shaped(ex, Fraction(1, 10000)):
                        # scale family: the tolerance follows the size of the triangle (no absolute floor)
                        size = max(math.dist([float(x) for x in ex[0]], [float(x) for x in e]) for e in ex[1:])
                        if max(d) - min(d) > 1e-6 * (max(d) + size):
                            law("circumcenter/equidistant", "the circumcentre is not equidistant from the three points", f"distances {d} (triangle of size {size})")
            elif f == "angle3":
                obs = "fl:" + _fr(out)
                if want_oracle:
                    how2, out2 = mon.call("angle_3pts", g.angle_3pts, (vs[2], vs[1], vs[0]))
                    if not (0.0 <= float(out) <= math.pi): law("angle_3pts/range", "angle_3pts outside [0, pi]", str(out))
                    if how2 == "return" and abs(float(out) - float(out2)) > 1e-9: law("angle_3pts/symmetric", "angle_3pts(A,B,C) != angle_3pts(C,B,A)")
            elif f == "sangle":
                obs = "fl:" + _fr(out)
                if want_oracle:
                    how2, out2 = mon.call("signed_angle_2vec3D", g.signed_angle_2vec3D, (vs[1], vs[0], vs[2]))
                    if how2 == "return":
                        dlt = (float(out) + float(out2)) % (2 * math.pi)
                        if min(dlt, 2 * math.pi - dlt) > 1e-9:
                            S = [ex[0][1] * ex[1][2] - ex[0][2] * ex[1][1], ex[1][0] * ex[0][2] - ex[1][2] * ex[0][0], ex[0][0] * ex[1][1] - ex[0][1] * ex[1][0]]
                            sn = sum(a * b for a, b in zip(S, ex[2]))
                            law("signed_angle/antisymmetric/" + ("normal-in-plane" if sn == 0 else "generic"),
                                "signed_angle(V1,V2,N) != -signed_angle(V2,V1,N) (mod 2pi)" + (" when N is orthogonal to V1 x V2 (sign0(0)=+1 for both orders)" if sn == 0 else ""),
                                f"{float(out)} vs {float(out2)}")
            elif f == "cotan":
                obs = "fl:" + _fr(out)
                if want_oracle and math.isfinite(float(out)):
                    ang = float(g.angle_3pts(*vs))
                    t = math.tan(ang)
                    if abs(t) > 1e-6 and abs(float(out)) > 1e-6 and abs(float(out) * t - 1) > 1e-6:
                        law("cotan/reciprocal-tangent", "cotan(A,B,C) is not 1/tan(angle_3pts(A,B,C))", f"{float(out)} vs {1/t}")
                elif want_oracle and _well_shaped([ex[1], ex[0], ex[2]], Fraction(1, 10000)):
                    # round 5: a non-finite cotangent although the angle at B is far from 0 and pi (exact test: sin^2 >= 1e-4), where
                    # 1/tan(angle) is a finite number: the clause fails (before, a non-finite value was taken for a degenerate input)
                    law("cotan/reciprocal-tangent", "cotan(A,B,C) is not 1/tan(angle_3pts(A,B,C))", f"{float(out)} for an angle whose sin^2 >= 1e-4")
        elif f in ("rot2", "rotax"):
            v = vec(0); ang = float(Fraction(A[-1]))
            if f == "rot2":
                how, out = mon.call("rotate_2d", R.rotate_2d, (v, ang))
            else:
                ax = vec(1)
                how, out = mon.call("rotate_around_axis", R.rotate_around_axis, (v, ax, ang))
            if how == "raise": obs = _map_exc(out)
            else:
                obs = "V " + _fmt_vec(out)
                if want_oracle:
                    nv, no = float(np.linalg.norm(v)), float(np.linalg.norm(out))
                    if abs(nv - no) > _tol(nv + 1): law(f"{f}/isometry", "rotation does not preserve the norm", f"{nv} vs {no}")
                    ang2 = float(Fraction(case.get("angle2", "0")))
                    if f == "rot2":
                        o2 = R.rotate_2d(R.rotate_2d(v, ang), ang2); o3 = R.rotate_2d(v, ang + ang2)
                    else:
                        o2 = R.rotate_around_axis(R.rotate_around_axis(v, ax, ang), ax, ang2); o3 = R.rotate_around_axis(v, ax, ang + ang2)
                        fx = R.rotate_around_axis(ax, ax, ang)
                        if float(np.linalg.norm(np.asarray(fx) - np.asarray(ax))) > _tol(float(np.linalg.norm(ax)) + 1):
                            law("rotax/fixes-axis", "rotation around an axis does not fix the axis")
                    if float(np.linalg.norm(np.asarray(o2) - np.asarray(o3))) > _tol(nv + 1) * 10:
                        law(f"{f}/compose", "rotations about the same axis do not compose additively")
        elif f in ("pangle", "adiff"):
            a = float(Fraction(A[0])); b = float(Fraction(A[1])) if f == "adiff" else 0.0
            if f == "pangle":
                how, out = mon.call("principal_angle", maths.principal_angle, (a,)); ref = a
            else:
                how, out = mon.call("angle_diff", maths.angle_diff, (a, b)); ref = a - b
            obs = "fl:" + _fr(out)
            if want_oracle:
                if not (-math.pi - 1e-12 <= out <= math.pi + 1e-12): law(f"{f}/range", f"{f} outside [-pi, pi]", str(out))
                kk = (ref - out) / (2 * math.pi)
                if abs(kk - round(kk)) > 1e-9 * (1 + abs(kk)): law(f"{f}/congruent", f"{f} is not congruent to its input modulo 2pi", f"{ref} -> {out}")
        elif f in ("pangleT", "adiffT"):
            # exact inputs: angles given in TURNS (rationals), a = 2*pi*t
            a = 2 * math.pi * float(Fraction(A[0])); b = 2 * math.pi * float(Fraction(A[1])) if f == "adiffT" else 0.0
            if f == "pangleT":
                how, out = mon.call("principal_angle", maths.principal_angle, (a,)); ref = Fraction(A[0])
            else:
                how, out = mon.call("angle_diff", maths.angle_diff, (a, b)); ref = Fraction(A[0]) - Fraction(A[1])
            obs = "fl:" + _fr(out)
            if want_oracle:
                if not (-math.pi - 1e-12 <= out <= math.pi + 1e-12): law(f"{f}/range", f"{f[:-1]} outside [-pi, pi]", str(out))
                kk = float(ref) - out / (2 * math.pi)
                if abs(kk - round(kk)) > 1e-9 * (1 + abs(kk)): law(f"{f}/congruent", f"{f[:-1]} is not congruent to its input modulo 2pi", f"{float(ref)} turns -> {out}")
        elif f == "rootsT":
            t = float(Fraction(A[0])); n = int(A[1])
            c = complex(math.cos(2 * math.pi * t), math.sin(2 * math.pi * t))
            how, out = mon.call("roots", maths.roots, (c, n))
            if how == "raise": obs = _map_exc(out)
            else:
                obs = "Z " + " ".join([str(len(out))] + [_fr(z.real) + " " + _fr(z.imag) for z in out])
                if want_oracle:
                    if len(out) != n: law("roots/count", "roots does not return n values")
                    for r in out:
                        if abs(r ** n - c) > 1e-9 * n: law("roots/power", "an n-th root raised to n does not give back the unit input", f"{r}**{n} vs {c}"); break
                    if any(abs(out[i] - out[j]) < 1e-9 for i in range(len(out)) for j in range(i)):
                        law("roots/distinct", "roots returns repeated values")
        elif f == "roots":
            c = complex(float(Fraction(A[0])), float(Fraction(A[1]))); n = int(A[2])
            how, out = mon.call("roots", maths.roots, (c, n))
            if how == "raise": obs = _map_exc(out)
            else:
                obs = f"n{len(out)}"
                if want_oracle and abs(c) > 0:
                    u = c / abs(c)
                    if len(out) != n: law("roots/count", "roots does not return n values")
                    for r in out:
                        if abs(r ** n - u) > 1e-9 * n: law("roots/power", "an n-th root raised to n does not give back the unit input", f"{r}**{n} vs {u}"); break
        else:
            raise ValueError(f)
    finally:
        _reset_err()
    findings += [_effect_finding(k_, d_) for k_, d_ in mon.effects]
    return obs, findings


_cache = {}


def _run(case):
    import json, warnings
    key = json.dumps(case, sort_keys=True)
    if _cache.get("k") != key:
        _cache["k"] = key
        with warnings.catch_warnings():
            warnings.simplefilter("ignore")     # numpy's 'warn' mode goes through the warnings module
            _cache["v"] = _run_hist(case, True) if case["t"] == "box" else _run_prim(case, True)
    return _cache["v"]


def impl_observe(case):
    r, _ = _run(case)
    return " | ".join(r) if case["t"] == "box" else r


def oracle(case):
    _, fs = _run(case)
    seen, out = set(), []
    for f in fs:
        if f["key"] not in seen:
            seen.add(f["key"]); out.append(f)
    return out


def model_request(case):
    if case["t"] == "box":
        toks = ["box", str(len(case["arrs"]))]
        for a in case["arrs"]:
            toks += [str(len(a))] + list(a)
        toks.append(str(len(case["ops"])))
        for o in case["ops"]:
            if o[0] == "ofp":
                toks += ["ofp", str(len(o[1]))] + [str(i) for i in o[1]] + [o[2]]
            elif o[0] == "padV":
                toks += ["padv", str(o[1]), str(o[2])]
            else:
                toks += [str(x) for x in o]
        return " ".join(toks)
    f, A = case["f"], case["args"]
    if f in ("cross", "det2", "det3", "circ", "isect", "pplane", "dseg", "area2", "angle3", "sangle", "cotan"):
        return " ".join(["prim", f] + [c for v in A for c in v])
    if f == "pangleT": return f"prim pangleT {A[0]}"
    if f == "adiffT": return f"prim adiffT {A[0]} {A[1]}"
    if f == "rootsT": return f"prim rootsT {A[0]} {A[1]}"
    if f in ("rot2", "rotax"):
        ang = float(Fraction(A[-1]))
        c, s = Fraction(math.cos(ang)), Fraction(math.sin(ang))
        toks = ["prim", f] + list(A[0])
        if f == "rotax":
            ax = [float(Fraction(x)) for x in A[1]]
            n = math.sqrt(sum(x * x for x in ax))
            if n < 1e-12 or abs(ang) < 1e-12:
                return None     # early return / zero axis: not a Rodrigues evaluation
            toks += [G.fs(Fraction(x / n)) for x in ax]
        toks += [G.fs(c), G.fs(s)]
        return " ".join(toks)
    return None   # pangle, adiff, roots on arbitrary radians: identities only (oracle); exact inputs go through pangleT/adiffT/rootsT


def _parse_vec(tok_list):
    n = int(tok_list[0])
    return [t for t in tok_list[1:1 + n]], tok_list[1 + n:]


def _num(t):
    if t == "+inf": return math.inf
    if t == "-inf": return -math.inf
    if t == "nan": return math.nan          # never close to anything: a NaN result is a mismatch / a failed law, not a harness error
    return float(Fraction(t))


def _close(a, b, scale=None):
    a, b = _num(a), _num(b)
    if a == b: return True
    return abs(a - b) <= _tol(max(abs(a), abs(b), 1.0) if scale is None else scale)


def _cmp_field(m, i):
    """model field vs implementation field"""
    if m == i: return True
    if m.startswith("sq:") and i.startswith("fl:"):
        q = m[3:]
        if q in ("+inf", "-inf"): return _num(i[3:]) == _num(q)
        return _close(G.fs(Fraction(math.sqrt(Fraction(q)))), i[3:])
    mt, it = m.split(), i.split()
    if len(mt) != len(it): return False
    for x, y in zip(mt, it):
        if x == y: continue
        try:
            if not _close(x, y): return False
        except Exception:  # noqa
            return False
    return True


def compare(case, model, impl):
    _LOOSE[0] = 1e3 if (case["t"] == "box" and _hist_rep(case) == "float32") else 1.0
    try:
        return _compare(case, model, impl)
    finally:
        _LOOSE[0] = 1.0


def _compare(case, model, impl):
    if case["t"] == "box":
        ms, is_ = model.split(" | "), impl.split(" | ")
        if len(ms) != len(is_): return "different number of records"
        for j, (m, i) in enumerate(zip(ms, is_)):
            mf, if_ = m.split(" ; "), i.split(" ; ")
            if len(mf) != 3 or len(if_) != 3: return f"op {j}: malformed record"
            if not _cmp_field(mf[0], if_[0]): return f"op {j} {case['ops'][j][0]}: result model '{mf[0][:100]}' vs implementation '{if_[0][:100]}'"
            if mf[1] != if_[1]: return f"op {j} {case['ops'][j][0]}: caller arrays changed: model '{mf[1]}' vs implementation '{if_[1]}'"
            if mf[2] != if_[2]: return f"op {j} {case['ops'][j][0]}: numpy.geterr() code: model '{mf[2]}' vs implementation '{if_[2]}'"
        return None
    f = case["f"]
    if model == impl: return None
    if f == "circ":
        if model == "degenerate" or impl == "degenerate" or impl.startswith("err"):
            return None if (model == "degenerate") else f"circumcenter: model '{model}' vs implementation '{impl}'"
        mt = model.split()
        C = [float(Fraction(x)) for x in mt[2:5]]; N = [float(Fraction(x)) for x in mt[8:11]]
        r = [_num(x) for x in impl.split()[2:5]]
        d = [r[k] - C[k] for k in range(3)]
        # the code's point must lie on the axis through the exact circumcentre along the normal
        cr = [d[1] * N[2] - d[2] * N[1], d[2] * N[0] - d[0] * N[2], d[0] * N[1] - d[1] * N[0]]
        sc = (max(abs(x) for x in C + r) + 1) * (max(abs(x) for x in N) + 1)
        return None if max(abs(x) for x in cr) <= 1e-7 * sc else f"circumcenter off the axis of the circumscribed circle: model '{model}' vs implementation '{impl}'"
    if f == "cotan":
        if impl.startswith("err"):
            zero = case["args"][0] == case["args"][1] or case["args"][2] == case["args"][1]
            return None if zero else f"cotan raised on non-degenerate input: {impl}"   # zero vector: normalized raises
        d, s2 = Fraction(model.split()[1]), Fraction(model.split()[2])
        got = _num(impl[3:])
        if s2 == 0:
            return None       # degenerate angle (0 or pi): the code divides by a (nearly) zero sine
        want = float(d) / math.sqrt(s2)
        return None if abs(want - got) <= 1e-7 * (1 + abs(want)) else f"cotan: model {want} vs implementation {got}"
    if f in ("pangleT", "adiffT"):
        want = 2 * math.pi * float(Fraction(model.split()[1]))
        got = _num(impl[3:])
        dlt = (got - want) % (2 * math.pi)
        scale = 1 + abs(float(Fraction(case["args"][0]))) + (abs(float(Fraction(case["args"][1]))) if f == "adiffT" else 0)
        return None if min(dlt, 2 * math.pi - dlt) <= 1e-9 * scale * 10 else f"{f}: model {want} vs implementation {got} (mod 2pi)"
    if f == "rootsT":
        if impl.startswith("err"): return f"roots raised: {impl}"
        mt = model.split(); turns = [Fraction(x) for x in mt[2:2 + int(mt[1])]]
        it = impl.split(); zs = [complex(_num(it[2 + 2 * j]), _num(it[3 + 2 * j])) for j in range(int(it[1]))]
        ws = [complex(math.cos(2 * math.pi * float(u)), math.sin(2 * math.pi * float(u))) for u in turns]
        if len(zs) != len(ws): return f"roots: {len(zs)} values vs {len(ws)} in the model"
        ok = all(any(abs(z - w) <= 1e-9 for w in ws) for z in zs) and all(any(abs(z - w) <= 1e-9 for z in zs) for w in ws)
        return None if ok else f"roots: implementation {zs[:4]} vs model turns {[str(u) for u in turns][:4]}"
    if f == "angle3":
        s2, c = model.split()[1:3]
        want = math.atan2(math.sqrt(Fraction(s2)), float(Fraction(c)))
        return None if abs(want - _num(impl[3:])) <= 1e-9 else f"angle_3pts: model {want} vs implementation {impl}"
    if f == "sangle":
        sg, s2, c = model.split()[1:4]
        want = int(sg) * math.atan2(math.sqrt(Fraction(s2)), float(Fraction(c)))
        return None if abs(want - _num(impl[3:])) <= 1e-9 else f"signed_angle_2vec3D: model {want} vs implementation {impl}"
    if f == "isect" and model.startswith("V ") and impl.startswith("V ") and "scale" in case:
        mt, it = model.split()[1:], impl.split()[1:]
        big = max([abs(float(Fraction(c))) for a in (case["args"][0], case["args"][2]) for c in a] + [abs(float(Fraction(x))) for x in mt])
        ok = len(mt) == len(it) and all(abs(float(Fraction(x)) - _num(y)) <= 1e-7 * big for x, y in zip(mt, it))
        return None if ok else f"intersect_2lines2D: model '{model[:100]}' vs implementation '{impl[:100]}' (inputs of size {big})"
    if model == "degenerate":
        return None     # division by an exactly zero denominator: the code returns nan/inf or raises, nothing is claimed
    return None if _cmp_field(model, impl) else f"{f}: model '{model[:120]}' vs implementation '{impl[:120]}'"


def nontrivial(case, obs):
    if case["t"] == "box":
        recs = obs.split(" | ")
        return any(not r.startswith(("nobox", "err")) and o[0] not in ("mk", "inf", "cube", "nrm") for r, o in zip(recs, case["ops"]))
    return not (obs.startswith("err") or obs in ("degenerate", "none"))


def classify(case, obs):
    if case["t"] == "box":
        ks = ["hist:dim" + str(case["dim"]), "hist-arrays-as:" + _hist_rep(case), "hist-point-as:" + case.get("ptshape", "flat")]
        ops_ = [o[0] for o in case["ops"]]
        if any(a in ("inter", "union") and b.startswith("pad") for a, b in zip(ops_, ops_[1:])): ks.append("hist:pad-right-after-result")
        if any(a.startswith("pad") and b in ("span", "center", "empty") for a, b in zip(ops_, ops_[1:])): ks.append("hist:derived-quantity-after-pad")
        for r, o in zip(obs.split(" | "), case["ops"]):
            ks.append("op:" + o[0])
            head = r.split(" ; ")[0]
            if head.startswith("err") or head in ("nobox", "undef"): ks.append(f"outcome:{o[0]}:{head}")
        return ks
    if "scale" in case:
        e = [round(math.log2(float(Fraction(x)))) for x in case["scale"]]
        extra = ["prim-scale:" + case["f"] + ":" + ("tiny" if min(e) <= -14 else "huge" if max(e) >= 14 else "moderate"),
                 "prim-scale-result:" + case["f"] + ":" + ("none/err" if (obs in ("none", "degenerate") or obs.startswith("err")) else "value")]
    else:
        extra = []
    return extra + ["prim:" + case["f"], "prim-args-as:" + _prim_rep(case), "prim-same-object:" + ("yes" if case.get("same") else "no"),
            "prim-outcome:" + ("err" if obs.startswith("err") else obs if obs in ("degenerate", "none") else "value")]


def describe(case):
    return case


# ------------------------------------------------------------------------------------------------
# generators
# ------------------------------------------------------------------------------------------------
def _dy(rng, span=6, den=None):
    den = den or rng.choice([1, 2, 4, 8])
    return G.fs(Fraction(rng.randint(-span * den, span * den), den))


def _gen_hist(rng, maxops):
    dim = rng.choice([1, 2, 2, 3, 3, 4, 5, 6])
    na = rng.randint(3, 6)
    arrs = []
    for i in range(na):
        r = rng.random()
        d = dim if (r < 0.85 or i < 2) else rng.choice([x for x in range(1, 7) if x != dim])
        if r < 0.12: a = ["0"] * d
        elif r < 0.3: a = [G.fs(Fraction(rng.randint(0, 2))) for _ in range(d)]
        else: a = [_dy(rng) for _ in range(d)]
        arrs.append(a)
    same = [i for i, a in enumerate(arrs) if len(a) == dim]
    # make the first two arrays an ordered pair most of the time (valid box)
    if rng.random() < 0.8:
        lo = [min(Fraction(x), Fraction(y)) for x, y in zip(arrs[0], arrs[1])]
        hi = [max(Fraction(x), Fraction(y)) for x, y in zip(arrs[0], arrs[1])]
        arrs[0], arrs[1] = [G.fs(x) for x in lo], [G.fs(x) for x in hi]
    ops = []
    nb = 0
    rep = rng.choice(["float64", "float64", "float64", "float32", "int", "list"])
    if rep == "int":
        arrs = [[G.fs(round(Fraction(c))) for c in a] for a in arrs]
    for _ in range(rng.randint(4, maxops)):
        r = rng.random()
        anyi = lambda: rng.randrange(na)
        if ops and ops[-1][0] in ("inter", "union", "mk", "ofp") and rep != "int" and rng.random() < 0.35:
            # in-place change of a RESULT, then look at every box again (operands must be unchanged, by value) - and vice versa
            tgt = nb - 1 if rng.random() < 0.6 else rng.randrange(nb)
            ops.append(["padf", tgt, rng.choice(["1/2", "1", "3/4"])])
            ops.append(["get", rng.randrange(nb)])
            continue
        if ops and ops[-1][0] in ("padf", "padv", "padV") and rng.random() < 0.4:
            # derived quantities of a box that was used before and has just been changed in place
            prev = [o for o in ops[:-1] if o[0] in ("span", "center", "empty") and o[1] == ops[-1][1]]
            if not prev: ops.insert(len(ops) - 1, [rng.choice(["span", "center"]), ops[-1][1]])
            ops.append([rng.choice(["span", "span", "center", "empty"]), ops[-1][1]])
            continue
        if rep == "int" and 0.34 <= r < 0.50 and nb > 0:
            r = 0.6      # no pad on integer boxes (in-place float update of an integer array is rejected by numpy)
        if nb == 0 or r < 0.14:
            c = rng.random()
            if c < 0.6: ops.append(["mk", rng.choice(same), rng.choice(same)] if rng.random() < 0.9 else ["mk", anyi(), anyi()])
            elif c < 0.7: ops.append(["inf", dim])
            elif c < 0.8: ops.append(["cube", dim, rng.randint(0, 1)])
            else:
                k = rng.randint(0, 4) if rng.random() < 0.9 else 0
                ops.append(["ofp", [rng.choice(same) for _ in range(k)], rng.choice(["0", "0", "1/2", "-1/4", "2"])])
            nb += 1
        elif r < 0.26: ops.append([rng.choice(["inter", "union"]), rng.randrange(nb), rng.randrange(nb)]); nb += 1
        elif r < 0.34: ops.append(["doint", rng.randrange(nb), rng.randrange(nb)])
        elif r < 0.40: ops.append(["padf", rng.randrange(nb), rng.choice(["1/2", "1", "0", "-1", "3/4"])])
        elif r < 0.50: ops.append([rng.choice(["padv", "padV"]), rng.randrange(nb), rng.choice(same) if rng.random() < 0.8 else anyi()])
        elif r < 0.58: ops.append(["contains", rng.randrange(nb), anyi()])
        elif r < 0.70: ops.append(["project", rng.randrange(nb), anyi()])
        elif r < 0.82: ops.append(["dist", rng.randrange(nb), anyi(), rng.choice(["l1", "linf", "l2"])])
        elif r < 0.86: ops.append(["empty", rng.randrange(nb)])
        elif r < 0.90: ops.append([rng.choice(["center", "span"]), rng.randrange(nb)])
        elif r < 0.94: ops.append(["get", rng.randrange(nb)])
        else: ops.append(["nrm", anyi()])
    c = {"t": "box", "dim": dim, "arrs": arrs, "ops": ops}
    if rng.random() < 0.2: c["ptshape"] = "col" if (dim == 1 and rng.random() < 0.5) else "row"
    if rep != "float64": c["rep"] = rep
    return c


def _v(rng, d, kind=None):
    kind = kind or rng.choice(["gen", "gen", "gen", "axis", "zero", "small"])
    if kind == "zero": return ["0"] * d
    if kind == "axis":
        a = ["0"] * d; a[rng.randrange(d)] = G.fs(Fraction(rng.choice([-2, -1, 1, 3]))); return a
    if kind == "small": return [G.fs(Fraction(rng.randint(-2, 2))) for _ in range(d)]
    return [_dy(rng) for _ in range(d)]


_SCALES = [-23, -20, -14, -7, 0, 0, 7, 14, 20]


def _gen_prim(rng):
    scale = None
    if rng.random() < 0.02:
        n_, d_ = rng.randint(2, 4), rng.randint(1, 4)
        return {"t": "prim", "f": "normnd", "args": [[_v(rng, d_, "gen") for _ in range(n_)], rng.choice(["l1", "linf", "l2"]), rng.choice(["norm", "dist"])]}
    if rng.random() < 0.03:
        return {"t": "prim", "f": "nrmz", "args": [_v(rng, rng.choice([2, 3, 3, 4])), rng.choice(["l2", "l2", "l1", "linf"])]}
    f = rng.choice(["cross", "det2", "det3", "rot2", "rotax", "circ", "isect", "pplane", "dseg", "area2", "angle3", "sangle", "cotan",
                    "pangle", "adiff", "roots", "circ", "rotax", "sangle", "pangleT", "adiffT", "rootsT", "pangleT", "adiffT", "rootsT"])
    if f in ("cross",): args = [_v(rng, 3), _v(rng, 3)]
    elif f == "det2": args = [_v(rng, 2), _v(rng, 2)]
    elif f == "det3": args = [_v(rng, 3), _v(rng, 3), _v(rng, 3)]
    elif f == "area2": args = [_v(rng, 2), _v(rng, 2), _v(rng, 2)]
    elif f == "isect":
        d1 = _v(rng, 2)
        d2 = [G.fs(Fraction(c) * 2) for c in d1] if rng.random() < 0.2 else _v(rng, 2)
        args = [_v(rng, 2), d1, _v(rng, 2), d2]
        if rng.random() < 0.5:
            # scale family: the two directions (and the points) at sizes 2^-23 (~1e-7) ... 2^20 (~1e6), independently: parallel iff the
            # sine of the angle is tiny (here: exactly parallel), never because a direction is short or the determinant is large
            s1, s2, sp = (Fraction(2) ** rng.choice(_SCALES) for _ in range(3))
            d1 = _v(rng, 2, "gen" if rng.random() < 0.8 else "axis")
            if all(Fraction(c) == 0 for c in d1): d1 = ["1", "0"]
            d2 = list(d1) if rng.random() < 0.25 else _v(rng, 2, rng.choice(["gen", "axis"]))
            args = [[G.fs(Fraction(c) * sp) for c in _v(rng, 2)], [G.fs(Fraction(c) * s1) for c in d1],
                    [G.fs(Fraction(c) * sp) for c in _v(rng, 2)], [G.fs(Fraction(c) * s2) for c in d2]]
            scale = [str(s1), str(s2), str(sp)]
    elif f == "pplane": args = [_v(rng, 3), _v(rng, 3, rng.choice(["gen", "axis", "small"])), _v(rng, 3)]
    elif f == "dseg":
        a = _v(rng, 2); b = list(a) if rng.random() < 0.15 else _v(rng, 2)
        args = [_v(rng, 2), a, b]
    elif f in ("angle3", "cotan", "circ"):
        a, b = _v(rng, 3), _v(rng, 3)
        r = rng.random()
        if r < 0.12: c = [G.fs(2 * Fraction(y) - Fraction(x)) for x, y in zip(a, b)]     # collinear
        elif r < 0.18: c = list(a)
        else: c = _v(rng, 3)
        args = [a, b, c]
        if f == "circ" and rng.random() < 0.5:
            # scale family: the same triangle at sizes 2^-23 (~1e-7) ... 2^20 (~1e6)
            sc_ = Fraction(2) ** rng.choice(_SCALES)
            args = [[G.fs(Fraction(x) * sc_) for x in v] for v in args]
            scale = [str(sc_)]
    elif f == "sangle":
        a, b = _v(rng, 3, "gen"), _v(rng, 3, rng.choice(["gen", "small"]))
        n = list(a) if rng.random() < 0.2 else _v(rng, 3, rng.choice(["gen", "axis"]))
        args = [a, b, n]
    elif f == "rot2":
        args = [_v(rng, 2), G.fs(Fraction(rng.randint(-64, 64), 8))]
    elif f == "rotax":
        args = [_v(rng, 3), _v(rng, 3, rng.choice(["gen", "axis", "small", "zero"]) if rng.random() < 0.3 else "gen"),
                G.fs(Fraction(rng.randint(-64, 64), 8)) if rng.random() < 0.93 else "0"]
    elif f in ("pangle", "adiff"):
        args = [G.fs(Fraction(rng.randint(-4000, 4000), 64)), G.fs(Fraction(rng.randint(-4000, 4000), 64))]
    elif f in ("pangleT", "adiffT"):
        # multiples of pi/k as rationals of a turn: p/(2k), incl. the discontinuity (half turns) and whole turns
        def turn():
            k = rng.choice([1, 2, 3, 4, 5, 6, 8, 12, 16, 7, 9])
            return G.fs(Fraction(rng.randint(-12 * k, 12 * k), 2 * k))
        args = [turn(), turn()]
    elif f == "rootsT":
        k = rng.choice([1, 2, 3, 4, 5, 6, 8, 12])
        args = [G.fs(Fraction(rng.randint(-4 * k, 4 * k), 2 * k)), str(rng.randint(1, 8))]
    else:
        args = [_dy(rng), _dy(rng), str(rng.randint(1, 8))]
    c = {"t": "prim", "f": f, "args": args}
    if scale: c["scale"] = scale
    if f in ("rot2", "rotax"): c["angle2"] = G.fs(Fraction(rng.randint(-64, 64), 8))
    if f in _PRIM_REPS and rng.random() < 0.45 and not (scale and any(Fraction(x).denominator != 1 for a in args for x in a)):
        rep = rng.choice(_PRIM_REPS[f])
        nv = {"rot2": 1, "rotax": 2}.get(f, len(args))
        if rep in ("vecint", "ndint", "intlist"):
            # integer-valued inputs (a primitive must not truncate because its inputs are integers)
            c["args"] = [[G.fs(round(Fraction(x))) for x in a] if i < nv else a for i, a in enumerate(args)]
        c["rep"] = rep
    nv = {"rot2": 1, "rotax": 2}.get(f, len(args)) if f in _PRIM_REPS else 0
    if nv >= 2 and rng.random() < 0.06:
        i, j = sorted(rng.sample(range(nv), 2))
        if len(c["args"][i]) == len(c["args"][j]):
            c["args"][j] = list(c["args"][i]); c["same"] = {str(j): i}      # the same object passed twice
    return c


def cases(rng, tier):
    nh, npr, mo = (2500, 5000, 14) if tier == "quick" else (25000, 50000, 24)
    for _ in range(nh):
        yield _gen_hist(rng, mo)
    for _ in range(npr):
        yield _gen_prim(rng)


def search_on_break(rng, broken, mismatches):
    for _ in range(300):
        yield _gen_hist(rng, 10)
    for _ in range(300):
        yield _gen_prim(rng)


def shrink(case, still):
    if case["t"] != "box":
        return case
    ops = list(case["ops"])
    i = len(ops) - 1
    while i >= 0:
        t = dict(case, ops=ops[:i] + ops[i + 1:])
        if len(ops) > 1 and still(t): ops = t["ops"]
        i -= 1
    return dict(case, ops=ops)


MANIFEST = {
    "level_text": ("Proof. Lean 4 theorems over exact rationals (with ±inf bounds for boxes, any dimension = lists): the clamp projection lies in the "
                   "closed box and realises the l1, linf and squared-l2 point-box distance, contained points are at distance 0, the union contains "
                   "both operands, the intersection is the componentwise overlap and do_intersect <-> the overlap has non-negative extent in every "
                   "dimension, of_points contains every point and every bound is attained; cross/det identities (orthogonality, Lagrange, triple "
                   "product) by ring; 2-D rotations and the coded Rodrigues matrix are isometries given c²+s²=1 (and |u|=1), fix their axis and compose "
                   "by angle addition in (c,s) form; every point on the normal axis through the exact circumcentre is equidistant from the three "
                   "vertices; frame conditions on a heap model: with the repaired copying constructor no operation changes a caller array or "
                   "another box (pad changes only its own box) and normalized leaves numpy.geterr() as found on return and on raise; the "
                   "aliasing constructor and the seterr sequence of the pinned tree are refuted on witnesses. Tied to the code by a history "
                   "correspondence with a monitor snapshotting arrays and geterr() around every call, and a direct exact-arithmetic oracle."),
    "level_round4": ("Round 4: the bodies of every AABB method, of principal_angle / angle_diff / roots and of sign0, project_to_plane, intersect_2lines2D, "
                     "distance_to_segment2D, triangle_area_2D, angle_3pts, signed_angle_2vec3D are translated from the working tree on every run "
                     "(Generated/C12Box.lean, C12Maths.lean, C12Prim.lean) and PROVED equal to the box algebra / the real and rational specifications "
                     "(Props/C12S.lean, C12M.lean); the box laws and the angle clauses are restated on the extracted definitions; the write sets of all anchored "
                     "functions relative to their arguments and the calls of numpy.seterr are read off the source (source_write_sets, source_no_seterr)."),
    "level_note": ("Trusted: Lean kernel + 3 standard axioms; hand-written models checked against the code on the histories of each run; floats not "
                   "modelled (dyadic inputs; sqrt/trig applied by the harness at 1e-9 relative tolerance). Angle statements (range, symmetry, "
                   "antisymmetry given N not orthogonal to V1xV2, cotan, angle reduction, roots) are theorems about real-number SPECIFICATIONS "
                   "(atan2 = Complex.arg, float modulo = floor formula, cmath.rect = exp) tied to the code by the numerical oracle only."),
    "technique": "Lean 4 algebraic proofs (ring/linarith/min-max by induction on dimension) + heap-model frame theorems; monitored history correspondence",
}

# the round-4 paragraph belongs to the level text (tools/mkmanifest.py reads level_text / level_note / technique)
MANIFEST["level_text"] = MANIFEST["level_text"] + " " + MANIFEST.pop("level_round4")
