"""C13 — subdivision refines a mesh without changing its shape or topology.

Three elements (see AGENT_GUIDE):
  * impl_observe : drives the real mouette code (editing block / split_edge / split_double_boundary_edges_triangles),
                   returns result containers + the state of the INPUT object afterwards;
  * model_request/compare : the Lean model (Model/Subdiv.lean via DriveC13) predicts the prepared result and the
                   input-object view; vertices compared exactly (tolerance for float rounding), faces/cells exactly
                   in order when the code fixes the order, else up to face order/rotation under the position bijection;
  * oracle       : the property stated directly on the code, independent of the model.
"""
import math, warnings
from fractions import Fraction

from ..gen import mesh as G
from ..gen import subdiv as GS

PID = "C13"
TITLE = "Subdivision refines a mesh without changing its shape or topology"
LEAN_MODULES = ["Mouette.Props.C13", "Mouette.Props.C13Source"]
REQUIRED_THEOREMS = [
    # P0 element counts (all meshes)
    "fan_counts", "quad_split_counts", "triangulate_face_counts", "triangulate_counts", "loop_counts",
    "quads3_counts", "sub6_counts", "split_edge_counts", "cell_fan_counts", "face_center_split_counts",
    # P0 Euler counting (exact on the containers the code maintains; `_partial`: edge/face count of the rebuilt list is a
    # hypothesis checked per scenario)
    "euler_invariant_fan", "euler_invariant_quad", "euler_invariant_triangulate", "euler_invariant_split_edge",
    "loop_distinct_edge_count", "euler_invariant_loop", "quads3_distinct_edge_count", "euler_invariant_quads3",
    "euler_invariant_sub6", "euler_invariant_cell_fan",
    # P1 manifoldness (round 2): consistent orientation + border-side correspondence
    "manifold_preserved_loop", "border_preserved_loop", "manifold_preserved_fan", "border_preserved_fan",
    "euler_invariant_face_center",
    # P0 area / volume
    "area_preserved_quad_split", "area_preserved_fan", "area_preserved_triangulate", "area_preserved_loop",
    "area_parts_positive_loop", "area_preserved_quads3", "area_parts_positive_quads3", "area_preserved_block",
    "volume_preserved_cell_fan",
    "volume_preserved_face_center", "volume_parts_positive_face_center", "length_preserved_split_edge",
    # P0 vertices
    "old_vertices_unchanged", "new_vertex_is_centre",
    # P0 input object
    "input_object_state", "input_object_state_shipped_refuted",
    # open finding copied by the model: proved negation on the witness
    "triangulate_non_regular_refuted",
    # round 3: histories, border loops, components, structural translation sites
    "history_independent_of_cached_state", "history_coherent", "border_successor_loop", "border_loops_preserved_loop",
    "components_preserved_loop", "centres_follow_source", "fan_indices_follow_source", "structure_follows_source",
    # bridges to the translated tables of subdivision.py
    "loop_pattern_follows_source", "quads_pattern_follows_source", "quad_cut_pattern_follows_source",
    "cell_fan_pattern_follows_source", "face_split_pattern_follows_source",
    # round 4: BODIES of every operation translated from subdivision.py on every run + bridges to the hand model
    "split_edge_follows_source", "split_edge_clears_connectivity", "split_face_as_fan_follows_source", "triangulate_face_follows_source",
    "triangulate_follows_source", "loop_subdivision_follows_source", "subdivide_triangles_3quads_follows_source",
    "subdivide_triangles_6_follows_source", "split_cell_as_fan_follows_source", "split_tet_from_face_center_follows_source",
    "apply_op_follows_source", "faces_ge2_invariant", "run_ops_follows_source",
    "area_preserved_block_source", "old_vertices_unchanged_source", "counts_source",
    # round 4: the editing-block protocol from the translated step lists; histories with an exception / nested blocks
    "init_follows_source", "enter_follows_source", "exit_follows_source", "exit_without_reinit_is_shipped",
    "input_object_state_source", "exception_inside_block", "nested_blocks_outer_exit_wins", "id_ranges_follow_source",
    # round 4: the quad cut of triangulate_face: directed sides, orientation / border sides on regular complexes, components
    "manifold_preserved_quad_cut", "border_preserved_quad_cut", "components_preserved_quad_cut", "quad_cut_source",
    # round 5: split_double_boundary_edges_triangles translated + modelled (was oracle-only); components through the fan
    "split_double_boundary_follows_source", "split_double_boundary_opens_a_block", "split_double_boundary_source",
    "components_preserved_fan", "components_preserved_triangulate", "components_preserved_split_double_boundary",
    # round 6: 1->3 quads: orientation / border sides / components; components through 1->6
    "manifold_preserved_quads3", "border_preserved_quads3", "components_preserved_quads3_sub6", "quads3_source",
    "manifold_quads_triangulate_iff", "manifold_preserved_sub6_partial",
    # round 7: 1->6 at full strength (orientation + border sides)
    "manifold_preserved_sub6", "border_loops_preserved_quads3_sub6",
    # round 8: border loops through the fan and the quad cut
    "border_loops_preserved_fan_quad_cut",
    # round 9: the vertex umbrella condition through the fan
    "umbrella_preserved_fan",
]
TRUSTED = [
    "Lean 4.33.0 kernel; axioms ⊆ {propext, Classical.choice, Quot.sound}",
    "hand-written model Mouette/Model/Subdiv.lean: every operation of mouette/mesh/subdivision.py is PROVED equal to the body "
    "translated from the working tree on every run (Generated/C13Src.lean, bridges in Props/C13Source.lean); prepare()'s "
    "edge/face completion (mesh_data.py) and the two-alias view of the caller's object stay hand-modelled, tied to the code by "
    "the correspondence of this run (result containers, input-object view)",
    "meaning given to the Python statements by the body translator vlib/gen/c13_translate.py (vocabulary in "
    "Model/SubdivSource.lean: list / dict / set operations, exceptions as Err, loops as folds over a list fixed at loop start, "
    "exact rational point arithmetic); numpy broadcasting / dtype effects of the point arithmetic are NOT in the vocabulary "
    "(covered by the representation families of the oracle)",
    "float rounding of midpoints/barycentres not modelled (exact Rat in the model; tolerance 1e-9*scale+1e-12)",
    "Python set iteration order in loop_subdivision's edge set is forgotten by the comparator (position bijection)",
    "independent routine vlib/gen/mesh.py: surface_stats (manifoldness, Euler characteristic, border loops, components)",
    "ast translator of vlib/props/c13.py: literal refinement tables, centre expressions (divisors), new-vertex numbering and "
    "pass order, __init__/__enter__/__exit__ steps of both editors, fan range / index expressions (refuses other shapes)",
    "float32 inputs are compared at relative tolerance 3e-6 (the representation rounds centres to 24 bits)",
]
ASSUMPTIONS = [
    "agreement model/implementation is established on the scenarios explored in this run only",
    "inputs are oriented manifold polygon surfaces that are regular complexes (two distinct faces meet in nothing, one vertex "
    "or one common edge), conforming tetrahedral meshes, polylines without repeated edges; element ids given to operations "
    "are valid at the time of the call",
    "scalar area is compared only where it is defined independently of a triangulation (triangle inputs, planar convex polygons); "
    "otherwise the total vector area is compared",
]
RULE = ("surfaces from the shared generator (tri/quad/polygon, closed/bordered, genus 0-2, several components; flat convex "
        "variants), tet meshes (single, pair, fans, Kuhn grids; positive/negative/mixed orientation), polylines; 1-4 "
        "operations inside one editing block with ids valid per the documented counts, incl. loop_subdivision(0) / "
        "subdivide_triangles_6(0); HISTORIES: 1-3 blocks in a row on the same mesh object (the result of a block is the input "
        "of the next), with fresh editors or the same editor object, connectivity / boundary data / kind flags queried "
        "before the first block and between blocks, split_double_boundary_edges_triangles followed by a block; "
        "REPRESENTATIONS: coordinates as Python floats, Python ints, int64 / int32 / float32 rows, int lists / tuples "
        "(integer families have exactly integral coordinates), elements as lists, tuples, numpy rows, numpy int32 scalars; "
        "every name the caller holds is checked by value after every block; non-trivial = distinct scenario whose "
        "operations all returned and produced >= 1 new element")


# ------------------------------------------------------------------------------------------------
# driving the implementation
# ------------------------------------------------------------------------------------------------
def _M():
    with warnings.catch_warnings():
        warnings.simplefilter("ignore")
        import mouette as M
    return M


def _exc(e):
    n = type(e).__name__
    return {"IndexError": "err:Index", "KeyError": "err:Key", "ValueError": "err:Value", "TypeError": "err:Type"}.get(n, f"err:Other({n})")


def _tup(x):
    return tuple(int(i) for i in x)


def snap(m, t):
    """plain-data snapshot of a mesh-like object (mesh or RawMeshData)"""
    s = {"V": [tuple(float(c) for c in v) for v in m.vertices]}
    s["E"] = [_tup(e) for e in m.edges] if hasattr(m, "edges") else []
    if t in ("surf", "vol"):
        s["F"] = [_tup(f) for f in m.faces]
        s["FC"] = list(zip([int(i) for i in m.face_corners._elem], [int(i) for i in m.face_corners._adj]))
    if t == "vol":
        s["C"] = [_tup(c) for c in m.cells]
        s["CC"] = list(zip([int(i) for i in m.cell_corners._elem], [int(i) for i in m.cell_corners._adj]))
        s["CF"] = [int(i) for i in m.cell_faces._elem]   # (the _adj half is C02's concern)
    return s


def all_blocks(case):
    """the editing blocks of a scenario, in order (`ops` is the first, `blocks` the following ones)"""
    return [case["ops"]] + [list(b) for b in case.get("blocks", [])]


def all_ops(case):
    return [op for b in all_blocks(case) for op in b]


def coords_class(case):
    c = (case.get("rep") or {}).get("coords", "float")
    return "int" if c in ("pyint", "int64", "int32", "intlist", "inttuple") else c


def rel_tol(case):
    """float32 coordinates: centres are rounded to 24 bits by the representation itself (not a violation)"""
    return 3e-6 if coords_class(case) == "float32" else 1e-9


def build(case):
    """Builds the mouette object; `rep` selects the representation of coordinates and of elements."""
    M = _M()
    import numpy as np
    rep = case.get("rep")
    if not rep:
        if case["t"] == "surf": return G.build_surface(case)
        if case["t"] == "vol": return G.build_volume(case)
        return G.build_polyline(case)
    co, el = rep.get("coords", "float"), rep.get("elems", "list")

    def vert(v):
        if co == "float": return M.Vec(*[float(c) for c in v])
        if co == "pyint": return M.Vec(*[int(c) for c in v])
        if co == "int64": return np.array([int(c) for c in v], dtype=np.int64)
        if co == "int32": return np.array([int(c) for c in v], dtype=np.int32)
        if co == "float32": return np.array(v, dtype=np.float32)
        if co == "intlist": return [int(c) for c in v]
        if co == "inttuple": return tuple(int(c) for c in v)
        raise AssertionError(co)

    def elem(e):
        if el == "list": return [int(i) for i in e]
        if el == "tuple": return tuple(int(i) for i in e)
        if el == "nprow": return np.array(e, dtype=np.int64)
        if el == "npint32": return [np.int32(i) for i in e]
        raise AssertionError(el)
    d = M.mesh.RawMeshData()
    d.vertices += [vert(v) for v in case["V"]]
    if case["t"] == "surf":
        d.faces += [elem(f) for f in case["F"]]; return M.mesh.SurfaceMesh(d)
    if case["t"] == "vol":
        d.cells += [elem(c) for c in case["C"]]; return M.mesh.VolumeMesh(d)
    d.edges += [tuple(elem(e)) if el != "nprow" else elem(e) for e in case["E"]]
    return M.mesh.PolyLine(d)


def probe(m, t):
    """connectivity, boundary data and mesh-kind flags queried before editing (fills every lazy cache of the object)"""
    c = m.connectivity
    if t == "poly":
        c.vertex_to_vertices(0); c.edge_id(*m.edges[0]); c.vertex_to_edges(0); return
    c.vertex_to_vertices(0); c.edge_id(*m.edges[0]); c.face_id(*m.faces[0]); c.vertex_to_faces(m.faces[0][0])
    c.direct_face(m.faces[0][0], m.faces[0][1])
    if t == "surf":
        m.boundary_edges; m.interior_edges; m.is_triangular(); m.is_quad(); c.face_to_faces(0)
        m.boundary_vertices; m.interior_vertices; m.is_vertex_on_border(0)
    else:
        c.face_to_cells(0); c.vertex_to_cell(0); c.cell_to_cell(0)
        m.boundary_faces; m.interior_faces; m.boundary_vertices; m.is_tetrahedral()


def apply_op(ed, op):
    k = op[0]
    if k == "fan": ed.split_face_as_fan(op[1])
    elif k == "tf": ed.triangulate_face(op[1])
    elif k == "tri": ed.triangulate()
    elif k == "loop": ed.loop_subdivision(op[1])
    elif k == "q3": ed.subdivide_triangles_3quads()
    elif k == "s6": ed.subdivide_triangles_6(op[1])
    elif k == "cfan": ed.split_cell_as_fan(op[1])
    elif k == "fsp": ed.split_tet_from_face_center(op[1])
    else: raise AssertionError(k)


def run_impl(case, watch=None, mesh=None, editor=None):
    """Runs ONE editing block (`case['ops']`) on `mesh` (or on a freshly built object).
    `watch(i, op, editor_mesh, 'before'|'after')` is called around every operation of the block.
    Returns dict(m=input object, before=snapshot, res=result object|None, err=(kind, step)|None)."""
    M = _M()
    from mouette.mesh import subdivision as S
    t = case["t"]
    with warnings.catch_warnings():
        warnings.simplefilter("ignore")
        m = build(case) if mesh is None else mesh
        before = snap(m, t)
        if case.get("pre"): probe(m, t)
        err, res = None, None
        try:
            if t == "poly":
                res = m
                for i, op in enumerate(case["ops"]):
                    try:
                        if watch: watch(i, op, m, "before")
                        res = S.split_edge(m, op[1])
                        if watch: watch(i, op, m, "after")
                        if case.get("probe_ops"): probe(res, t)      # HISTORY: connectivity queried between two split_edge calls
                    except Exception as e:  # noqa
                        err = (_exc(e), i); break
            elif case["ops"] == [["sdb"]]:
                try:
                    res = S.split_double_boundary_edges_triangles(m)
                except Exception as e:  # noqa
                    err = (_exc(e), 0)
            else:
                Ed = S.SurfaceSubdivision if t == "surf" else S.VolumeSubdivision
                ed0 = editor if editor is not None else Ed(m)      # HISTORY: the same editor object may serve several blocks
                out_editor = ed0
                with ed0 as ed:
                    for i, op in enumerate(case["ops"]):
                        try:
                            if watch: watch(i, op, ed.mesh, "before")
                            apply_op(ed, op)
                            if watch: watch(i, op, ed.mesh, "after")
                        except Exception as e:  # noqa
                            err = (_exc(e), i); break
                res = ed.mesh
        except Exception as e:  # noqa   (raised by __enter__/__exit__)
            err = (_exc(e), -1)
    return {"m": m, "before": before, "res": res, "err": err, "editor": locals().get("out_editor")}


# ------------------------------------------------------------------------------------------------
# direct inspection helpers (independent of mouette's connectivity and of the Lean model)
# ------------------------------------------------------------------------------------------------
def keyed(a, b):
    return (a, b) if a <= b else (b, a)


def sides(f):
    n = len(f)
    return [(f[i], f[(i + 1) % n]) for i in range(n)]


def conn_check_surface(m, nmax=10):
    """connectivity answers of mesh object `m` against direct inspection of ITS face list. Returns list of str."""
    bad = []
    F = [_tup(f) for f in m.faces]
    E = [_tup(e) for e in m.edges]
    nv = len(m.vertices)
    c = m.connectivity
    side_face = {}
    for i, f in enumerate(F):
        for s in sides(f): side_face[s] = i
    try:
        vs = list(range(0, nv, max(1, nv // nmax)))
        for v in vs:
            got = c.vertex_to_faces(v)
            want = sorted(i for i, f in enumerate(F) if v in f)
            if got is None or sorted(got) != want: bad.append(f"vertex_to_faces({v})={got} faces-containing={want}"); break
            gv = c.vertex_to_vertices(v)
            wv = sorted({b for (a, b) in side_face if a == v} | {a for (a, b) in side_face if b == v})
            if sorted(gv) != wv: bad.append(f"vertex_to_vertices({v})={gv} want {wv}"); break
        fs = list(range(0, len(F), max(1, len(F) // nmax)))
        for i in fs:
            f = F[i]
            if c.face_id(*f) != i: bad.append(f"face_id{f}={c.face_id(*f)} want {i}"); break
            for (a, b) in sides(f):
                if c.direct_face(a, b) != i: bad.append(f"direct_face({a},{b})={c.direct_face(a, b)} want {i}"); break
                opp = side_face.get((b, a))
                if c.direct_face(b, a) != opp: bad.append(f"direct_face({b},{a})={c.direct_face(b, a)} want {opp}"); break
                eid = c.edge_id(a, b)
                if eid is None or keyed(*E[eid][:2]) != keyed(a, b) or len(E[eid]) != 2:
                    bad.append(f"edge_id({a},{b})={eid}"); break
            want_ff = sorted(side_face[(b, a)] for (a, b) in sides(f) if (b, a) in side_face)
            got_ff = sorted(c.face_to_faces(i))
            if got_ff != want_ff: bad.append(f"face_to_faces({i})={got_ff} want {want_ff}")
            got_c = c.face_to_corners(i)
            if [int(m.face_corners[k]) for k in got_c] != list(f): bad.append(f"face_to_corners({i}) do not spell the face")
        want_b = sorted(k for k, e in enumerate(E) if len(e) == 2 and ((e in side_face) != ((e[1], e[0]) in side_face)))
        if sorted(m.boundary_edges) != want_b: bad.append(f"boundary_edges has {len(m.boundary_edges)} want {len(want_b)}")
        if m.is_triangular() != all(len(f) == 3 for f in F): bad.append("is_triangular wrong")
        if m.is_quad() != all(len(f) == 4 for f in F): bad.append("is_quad wrong")
        # boundary data (lazily cached on the mesh object)
        if sorted(m.interior_edges) != sorted(set(range(len(E))) - set(want_b)): bad.append("interior_edges wrong")
        bv = sorted({v for k in want_b for v in E[k]})
        if sorted(int(v) for v in m.boundary_vertices) != bv: bad.append(f"boundary_vertices has {len(m.boundary_vertices)} want {len(bv)}")
        if sorted(int(v) for v in m.interior_vertices) != sorted(set(range(nv)) - set(bv)): bad.append("interior_vertices wrong")
        for v in vs:
            if bool(m.is_vertex_on_border(v)) != (v in bv): bad.append(f"is_vertex_on_border({v}) wrong"); break
    except Exception as e:  # noqa
        bad.append(f"raises {type(e).__name__}: {e}")
    return bad


def conn_check_volume(m, nmax=10):
    bad = []
    F = [_tup(f) for f in m.faces]
    C = [_tup(c) for c in m.cells]
    E = [_tup(e) for e in m.edges]
    c = m.connectivity
    try:
        for i in range(0, len(F), max(1, len(F) // nmax)):
            want = sorted(k for k, cc in enumerate(C) if set(F[i]) <= set(cc))
            got = sorted(c.face_to_cells(i))
            if got != want: bad.append(f"face_to_cells({i})={got} want {want}"); break
            if c.face_id(*F[i]) != i: bad.append(f"face_id{F[i]}={c.face_id(*F[i])}"); break
        nv = len(m.vertices)
        for v in range(0, nv, max(1, nv // nmax)):
            want = sorted(k for k, cc in enumerate(C) if v in cc)
            got = sorted(c.vertex_to_cell(v))
            if got != want: bad.append(f"vertex_to_cell({v})={got} want {want}"); break
        for k in range(0, len(C), max(1, len(C) // nmax)):
            cf = c.cell_to_face(k)
            if sorted(cf) != sorted(i for i, f in enumerate(F) if set(f) <= set(C[k])):
                bad.append(f"cell_to_face({k})={cf}"); break
            want = sorted(j for j, d in enumerate(C) if j != k and len(set(d) & set(C[k])) == 3)
            got = sorted(c.cell_to_cell(k))
            if got != want: bad.append(f"cell_to_cell({k})={got} want {want}"); break
            for a in range(4):
                for b in range(a):
                    eid = c.edge_id(C[k][a], C[k][b])
                    if eid is None or keyed(*E[eid]) != keyed(C[k][a], C[k][b]): bad.append(f"edge_id of cell {k}"); break
        # boundary data (lazily cached on the mesh object)
        want_bf = sorted(i for i, f in enumerate(F) if sum(1 for cc in C if set(f) <= set(cc)) == 1)
        if sorted(int(i) for i in m.boundary_faces) != want_bf: bad.append(f"boundary_faces has {len(m.boundary_faces)} want {len(want_bf)}")
        if sorted(int(i) for i in m.interior_faces) != sorted(set(range(len(F))) - set(want_bf)): bad.append("interior_faces wrong")
        bv = sorted({v for i in want_bf for v in F[i]})
        if sorted(int(v) for v in m.boundary_vertices) != bv: bad.append(f"boundary_vertices has {len(m.boundary_vertices)} want {len(bv)}")
        if not m.is_tetrahedral(): bad.append("is_tetrahedral wrong")
    except Exception as e:  # noqa
        bad.append(f"raises {type(e).__name__}: {e}")
    return bad


def conn_check_poly(m):
    bad = []
    E = [_tup(e) for e in m.edges]
    c = m.connectivity
    try:
        for v in range(len(m.vertices)):
            want = sorted({e[1] for e in E if e[0] == v and len(e) == 2} | {e[0] for e in E if len(e) == 2 and e[1] == v})
            got = sorted(c.vertex_to_vertices(v))
            if got != want: bad.append(f"vertex_to_vertices({v})={got} want {want}"); break
        for k, e in enumerate(E):
            if len(e) != 2 or c.edge_id(*e) is None or E[c.edge_id(*e)] != e: bad.append(f"edge_id{e}"); break
        # EVERY answer of edge_id on a small polyline: an edge -> (one of) its index(es), in both argument orders; a pair of
        # vertices that is not an edge -> None (documented).  vertex_to_edges: exactly the edges containing the vertex.
        nv = len(m.vertices)
        if not bad and nv <= 40 and all(len(e) == 2 for e in E):
            where = {}
            for k, e in enumerate(E): where.setdefault(keyed(*e), []).append(k)
            for u in range(nv):
                for v in range(u + 1, nv):
                    want = where.get((u, v))
                    for (a, b) in ((u, v), (v, u)):
                        got = c.edge_id(a, b)
                        if (want is None and got is not None) or (want is not None and got not in want):
                            bad.append(f"edge_id({a},{b})={got} want {want if want is None else want[0]}"); break
                    if bad: break
                if bad: break
            if not bad:
                for v in range(nv):
                    want = sorted(k for k, e in enumerate(E) if v in e)
                    got = c.vertex_to_edges(v)
                    if got is None or any(g is None for g in got) or sorted(got) != want:
                        bad.append(f"vertex_to_edges({v})={got} want {want}"); break
    except Exception as e:  # noqa
        bad.append(f"raises {type(e).__name__}: {e}")
    return bad


def conn_check(m, t):
    return conn_check_surface(m) if t == "surf" else conn_check_volume(m) if t == "vol" else conn_check_poly(m)


def containers_ok(s, t):
    """internal consistency of a snapshot: index ranges, edges = sides exactly, corners spell the faces/cells"""
    bad = []
    nv = len(s["V"])
    for e in s["E"]:
        if len(e) != 2: bad.append(f"edge-arity:{len(e)}"); break
        if not (0 <= e[0] < e[1] < nv): bad.append("edge-not-sorted-pair-in-range"); break
    if len(set(s["E"])) != len(s["E"]): bad.append("edge-duplicated")
    if t in ("surf", "vol"):
        for f in s["F"]:
            if len(f) < 3 or len(set(f)) != len(f) or any(v < 0 or v >= nv for v in f): bad.append("face-invalid"); break
        want = {keyed(a, b) for f in s["F"] for (a, b) in sides(f)}
        if not bad and set(s["E"]) != want:
            bad.append("edges-missing" if want - set(s["E"]) else "edges-extra")
        fc = [(v, i) for i, f in enumerate(s["F"]) for v in f]
        if s["FC"] != fc: bad.append(f"face-corners:{len(s['FC'])}-for-{len(fc)}")
    if t == "vol":
        for c in s["C"]:
            if len(c) != 4 or len(set(c)) != 4 or any(v < 0 or v >= nv for v in c): bad.append("cell-invalid"); break
        keys = [tuple(sorted(f)) for f in s["F"]]
        want = {tuple(sorted(c[:i] + c[i + 1:])) for c in s["C"] for i in range(4)}
        if len(set(keys)) != len(keys): bad.append("face-duplicated")
        if set(keys) != want: bad.append("faces-missing" if want - set(keys) else "faces-extra")
        if [v for v, _ in s["CC"]] != [v for c in s["C"] for v in c]: bad.append("cell-corners")
        ids = s["CF"]
        if len(ids) != 4 * len(s["C"]): bad.append("cell-faces-count")
        else:
            for k, c in enumerate(s["C"]):
                for i in range(4):
                    fi = ids[4 * k + i]
                    if not (0 <= fi < len(keys)) or keys[fi] != tuple(sorted(c[:i] + c[i + 1:])):
                        bad.append("cell-faces-wrong"); break
                if bad: break
    return bad


def fr(x):
    return Fraction(x)


def vsub(a, b): return (a[0] - b[0], a[1] - b[1], a[2] - b[2])
def vadd(a, b): return (a[0] + b[0], a[1] + b[1], a[2] + b[2])
def cross(a, b): return (a[1] * b[2] - a[2] * b[1], a[2] * b[0] - a[0] * b[2], a[0] * b[1] - a[1] * b[0])
def dot(a, b): return a[0] * b[0] + a[1] * b[1] + a[2] * b[2]


def vec_area2(P):
    """twice the vector area of polygon with exact points P"""
    s = (0, 0, 0)
    for i in range(len(P)):
        s = vadd(s, cross(P[i], P[(i + 1) % len(P)]))
    return s


def exactV(V):
    return [tuple(Fraction(c) for c in v) for v in V]


def total_area(V, F):
    """(twice total vector area exact, twice the sum of |vector area| of the faces as float)"""
    tot = (0, 0, 0); sc = 0.0
    for f in F:
        a = vec_area2([V[i] for i in f])
        tot = vadd(tot, a); sc += math.sqrt(float(dot(a, a)))
    return tot, sc


def planar_convex(V, F):
    for f in F:
        if len(f) == 3: continue
        P = [V[i] for i in f]
        n = vec_area2(P)
        if dot(n, n) == 0: return False
        for i in range(len(P)):
            c = cross(vsub(P[(i + 1) % len(P)], P[i]), vsub(P[(i + 2) % len(P)], P[(i + 1) % len(P)]))
            if dot(c, n) <= 0 or cross(c, n) != (0, 0, 0): return False
    return True


def det3(a, b, c):
    return a[0] * (b[1] * c[2] - b[2] * c[1]) - a[1] * (b[0] * c[2] - b[2] * c[0]) + a[2] * (b[0] * c[1] - b[1] * c[0])


def vol6(V, c):
    return det3(vsub(V[c[1]], V[c[0]]), vsub(V[c[2]], V[c[0]]), vsub(V[c[3]], V[c[0]]))


_CUR = {"rel": 1e-9}     # relative tolerance of the scenario being examined (float32 inputs: 3e-6)


def close(a, b, scale=1.0):
    return abs(float(a) - float(b)) <= _CUR["rel"] * max(1.0, abs(float(scale))) + 1e-12


def pclose(p, q):
    return all(close(p[i], q[i], max(abs(float(p[i])), abs(float(q[i])))) for i in range(3))


def match_points(got, want):
    """each point of `want` matched by exactly one of `got` (tolerance). Returns list of unmatched `got` indices or None."""
    used = [False] * len(got)
    for w in want:
        hit = None
        for i, g in enumerate(got):
            if not used[i] and pclose(g, w): hit = i; break
        if hit is None: return None
        used[hit] = True
    return [i for i, u in enumerate(used) if not u]


def vol_stats(nv, C):
    E, Fk = set(), {}
    for c in C:
        for i in range(4):
            for j in range(i): E.add(keyed(c[i], c[j]))
            k = tuple(sorted(c[:i] + c[i + 1:]))
            Fk[k] = Fk.get(k, 0) + 1
    used = {v for c in C for v in c}
    parent = {v: v for v in used}

    def find(x):
        while parent[x] != x:
            parent[x] = parent[parent[x]]; x = parent[x]
        return x
    for c in C:
        for v in c[1:]:
            parent[find(c[0])] = find(v)
    bnd = [k for k, n in Fk.items() if n == 1]
    bv = {v for k in bnd for v in k}
    be = {keyed(k[i], k[j]) for k in bnd for i in range(3) for j in range(i)}
    return {"conforming": all(n <= 2 for n in Fk.values()) and all(len(set(c)) == 4 for c in C),
            "V": len(used), "E": len(E), "F": len(Fk), "C": len(C), "chi": len(used) - len(E) + len(Fk) - len(C),
            "components": len({find(v) for v in used}), "bF": len(bnd), "bchi": len(bv) - len(be) + len(bnd), "unused": nv - len(used)}


def poly_stats(nv, E):
    parent = list(range(nv))

    def find(x):
        while parent[x] != x:
            parent[x] = parent[parent[x]]; x = parent[x]
        return x
    for e in E:
        if len(e) == 2: parent[find(e[0])] = find(e[1])
    return {"components": len({find(v) for v in range(nv)}), "chi": nv - len(E)}


# ------------------------------------------------------------------------------------------------
# the oracle: the property stated on the real code
# ------------------------------------------------------------------------------------------------
def _facekind(F):
    ls = {len(f) for f in F}
    if ls == {3}: return "tri-input"
    if ls <= {3, 4}: return "quad-input"
    return "polygon-input"


def _opname(case, i):
    if i is None or i < 0: return "block"
    return case["ops"][i][0]


def oracle(case):
    """The property stated on the real code. A scenario may consist of several editing blocks run one after the other
    on the same mesh object (histories), with any representation of coordinates / elements."""
    _CUR["rel"] = rel_tol(case)
    try:
        blocks = all_blocks(case)
        if len(blocks) == 1 and not case.get("rep"):
            return _oracle_block(case)
        out, mesh, held, editor = [], None, [], None
        t = case["t"]
        for bi, ops in enumerate(blocks):
            sub = dict(case, ops=ops, pre=(case.get("pre") if bi == 0 else case.get("probe_between", False)))
            sub.pop("blocks", None)
            if bi > 0: sub.pop("bad", None)
            info = {}
            fs = _oracle_block(sub, mesh=mesh, info=info, editor=(editor if case.get("reuse_editor") else None))
            editor = info.get("editor")
            if bi > 0:
                fs = [dict(f, key=f["key"].replace("C13/", "C13/again/", 1)) if f["key"] != NONREG_KEY else f for f in fs]
            out += fs
            if not held: held.append(("input", info.get("m")))
            if info.get("err") is not None or info.get("res") is None: break
            if any("result-invalid" in f["key"] for f in fs): break      # the next block would start from an invalid mesh: already reported
            held.append((f"result{bi}", info["res"]))
            mesh = info["res"]
            # every name the caller holds must denote a consistent mesh (checked by value, whatever object it is)
            seen = set()
            for name, obj in held:
                if obj is None or id(obj) in seen: continue
                seen.add(id(obj))
                try:
                    sn = snap(obj, t)
                    bad = containers_ok(sn, t) or conn_check(obj, t)
                except Exception as e:  # noqa
                    bad = [f"unreadable: {type(e).__name__}"]
                if bad and not any("result-invalid" in f["key"] or "connectivity" in f["key"] for f in fs):
                    out.append({"key": f"C13/held-object/{name if name == 'input' else 'earlier-result'}/inconsistent-after-block",
                                "what": f"after block {bi} the mesh held as `{name}` is inconsistent: {bad[0]}", "detail": str(blocks)[:300]})
        cc = coords_class(case)
        if cc != "float":
            out = [dict(f, key=f["key"] + f"/coords:{cc}") if f["key"] != NONREG_KEY else f for f in out]
        return out
    finally:
        _CUR["rel"] = 1e-9


NONREG_KEY = "C13/triangulate/non-regular-complex"


def _oracle_block(case, mesh=None, info=None, editor=None):
    t = case["t"]
    out = []

    def add(key, what, detail=""):
        out.append({"key": f"C13/{key}", "what": what, "detail": str(detail)[:600]})

    # expected counts per the documentation, tracked through the block by direct inspection of the raw state
    exp = {}
    log = {"newv": []}   # per op: (op, raw-before snapshot, raw-after snapshot)
    st = {}

    def watch(i, op, raw, when):
        if when == "before":
            st["b"] = snap_raw(raw, t)
        else:
            log["newv"].append((i, op, st["b"], snap_raw(raw, t)))

    r = run_impl(case, watch, mesh=mesh, editor=editor)
    m, before, res, err = r["m"], r["before"], r["res"], r["err"]
    if info is not None: info.update(m=m, res=res, err=err, editor=r.get("editor"))
    kind = _facekind(before["F"]) if t == "surf" else t
    multi = "seq" if len(case["ops"]) > 1 else "single"

    # (1) every admissible mesh is accepted (an operation given an id that does not exist must raise IndexError)
    if "bad" in case:
        # an id that does not exist: the statement says nothing about HOW it is refused (round 4: the demand for an IndexError
        # was stricter than the property and is gone); what the statement does demand - the object passed in is never left
        # half-updated - is still checked below on these scenarios
        err_expected = True
    else:
        err_expected = False
    if err is not None and not err_expected:
        i = err[1]
        prev = ("after-" + case["ops"][i - 1][0]) if (i is not None and i > 0) else kind
        add(f"{_opname(case, i)}/raises/{err[0]}/{prev}",
            f"{_opname(case, i)} raised {err[0]} on an admissible {kind} mesh" + (f" (operation {i} of the block, after {case['ops'][i-1][0]})" if i and i > 0 else ""),
            f"ops={case['ops']}")
    if res is None:
        return _collapse_non_regular(case, out + _input_state(case, m, before, None, t))
    after = snap(res, t)

    # (2) result is a valid mesh whose containers are consistent
    for b in containers_ok(after, t):
        add(f"{case['ops'][-1][0]}/result-invalid/{b.split(':')[0]}", f"result containers inconsistent: {b}", f"ops={case['ops']}")
    if err is not None:
        return _collapse_non_regular(case, out + _input_state(case, m, before, res, t))
    V0, V1 = exactV(before["V"]), exactV(after["V"])
    opsig = "+".join(o[0] for o in case["ops"]) if len(case["ops"]) <= 2 else "seq"

    # (3) old vertices in place
    if len(V1) < len(V0) or V1[:len(V0)] != V0:
        add(f"{opsig}/old-vertices-moved", "original vertices are not all in place", "")

    if t == "surf":
        st0 = G.surface_stats(len(V0), [list(f) for f in before["F"]])
        st1 = G.surface_stats(len(V1), [list(f) for f in after["F"]]) if not any("face-invalid" in o["key"] for o in out) else None
        if st1 is not None:
            if not st1["manifold"] or st1["unused"]:
                add(f"{opsig}/result-not-manifold", "result is not an oriented manifold surface (or has unused vertices)", f"{st1}")
            for q in ("chi", "loops", "components"):
                if st0[q] != st1[q]:
                    add(f"{opsig}/topology/{q}", f"{q} changed: {st0[q]} -> {st1[q]}", f"ops={case['ops']}")
            # documented element counts
            ex = _expected_surface(case, before, st0)
            if ex is not None:
                got = (len(after["V"]), len(after["E"]), len(after["F"]))
                if got != ex["VEF"]:
                    add(f"{opsig}/counts", f"element counts (V,E,F)={got}, documented {ex['VEF']}", f"ops={case['ops']}")
                if sorted(len(f) for f in after["F"]) != sorted(ex["lens"]):
                    add(f"{opsig}/face-sizes", "face sizes are not the documented ones", "")
            # area
            a0, s0 = total_area(V0, before["F"])
            a1, s1 = total_area(V1, after["F"])
            scale = max(1.0, s0)
            if not all(close(a0[i], a1[i], scale) for i in range(3)):
                add(f"{opsig}/vector-area", "total vector area changed", f"{[float(x) for x in a0]} -> {[float(x) for x in a1]}")
            if planar_convex(V0, before["F"]) and not close(s0, s1, scale):
                add(f"{opsig}/area", "total area changed", f"{s0 / 2} -> {s1 / 2}")
        # new vertices at centres: per operation, from the raw state before/after each operation of the block
        for (i, op, b, a) in log["newv"]:
            msg = _new_vertices_ok(op, b, a, t)
            if msg: add(f"{op[0]}/new-vertex-position", msg, f"op {i} of {case['ops']}")
    elif t == "vol":
        s0 = vol_stats(len(V0), before["C"]); s1 = vol_stats(len(V1), after["C"])
        if not s1["conforming"] or s1["unused"]:
            add(f"{opsig}/result-not-conforming", "result is not a conforming tetrahedral mesh", f"{s1}")
        dbF = 0
        exV, exE, exF, exC = s0["V"], s0["E"], s0["F"], s0["C"]
        for (i, op, b, a) in log["newv"]:
            if op[0] == "cfan":
                if len(b["C"][op[1]]) == 4:
                    exV += 1; exE += 4; exF += 6; exC += 3
            else:
                f = b["F"][op[1]]
                k = sum(1 for c in b["C"] if set(f) <= set(c))
                exV += 1; exE += 3 + k; exF += 2 + 3 * k; exC += 2 * k
                if k == 1: dbF += 2
            msg = _new_vertices_ok(op, b, a, t)
            if msg: add(f"{op[0]}/new-vertex-position", msg, f"op {i} of {case['ops']}")
        got = (len(after["V"]), len(after["E"]), len(after["F"]), len(after["C"]))
        if got != (exV, exE, exF, exC):
            add(f"{opsig}/counts", f"element counts (V,E,F,C)={got}, documented {(exV, exE, exF, exC)}", f"ops={case['ops']}")
        for q in ("chi", "components", "bchi"):
            if s0[q] != s1[q]: add(f"{opsig}/topology/{q}", f"{q} changed: {s0[q]} -> {s1[q]}", f"ops={case['ops']}")
        if s1["bF"] != s0["bF"] + dbF: add(f"{opsig}/topology/boundary-faces", f"boundary faces {s0['bF']} -> {s1['bF']}, expected +{dbF}", "")
        v0 = sum(vol6(V0, c) for c in before["C"]); v1 = sum(vol6(V1, c) for c in after["C"])
        a0 = sum(abs(vol6(V0, c)) for c in before["C"]); a1 = sum(abs(vol6(V1, c)) for c in after["C"])
        if not close(v0, v1, a0) or not close(a0, a1, a0):
            add(f"{opsig}/volume", "total volume changed", f"signed {float(v0)/6} -> {float(v1)/6}; unsigned {float(a0)/6} -> {float(a1)/6}")
    else:
        p0 = poly_stats(len(V0), before["E"]); p1 = poly_stats(len(V1), after["E"])
        n = len(case["ops"])
        if (len(V1), len(after["E"])) != (len(V0) + n, len(before["E"]) + n):
            add(f"{opsig}/counts", f"(V,E)={(len(V1), len(after['E']))}, documented {(len(V0) + n, len(before['E']) + n)}", "")
        if p0 != p1: add(f"{opsig}/topology", f"components/cycle rank changed {p0} -> {p1}", "")
        if not any("edge-arity" in o["key"] for o in out):
            l0 = sum(math.sqrt(float(dot(vsub(V0[a], V0[b]), vsub(V0[a], V0[b])))) for a, b in before["E"])
            l1 = sum(math.sqrt(float(dot(vsub(V1[a], V1[b]), vsub(V1[a], V1[b])))) for a, b in after["E"])
            if not close(l0, l1, l0): add(f"{opsig}/length", "total length changed", f"{l0} -> {l1}")
        for (i, op, b, a) in log["newv"]:
            msg = _new_vertices_ok(op, b, a, t)
            if msg: add(f"{op[0]}/new-vertex-position", msg, f"op {i}")

    # (4) connectivity answers of the result describe the refined mesh (direct inspection of its lists)
    if not any("result-invalid" in o["key"] for o in out):
        bad = conn_check(res, t)
        if bad: add(f"{opsig}/result-connectivity", "connectivity of the result disagrees with its face/cell list", bad[0])
    out = out + _input_state(case, m, before, res, t)
    return _collapse_non_regular(case, out)


def _collapse_non_regular(case, out):
    """Known open finding: on a polygon surface that is not a regular complex (two faces meeting along two edges, or
    in two vertices that are not a common edge) the fixed diagonal B-D of the quad cut can be used twice / coincide with
    an existing edge; all symptoms of that are reported under ONE key."""
    if case["t"] == "surf" and out and not GS.regular_complex(case["F"]):
        return [{"key": NONREG_KEY,
                 "what": "triangulating a manifold polygon surface in which two faces meet in two vertices that are not one common "
                         "edge yields a non-manifold result (the fixed diagonal B-D of the quad cut is used twice)",
                 "detail": "; ".join(o["key"] for o in out)[:500]}]
    return out


def snap_raw(raw, t):
    s = {"V": [tuple(float(c) for c in v) for v in raw.vertices], "E": [_tup(e) for e in raw.edges]}
    if t in ("surf", "vol"): s["F"] = [_tup(f) for f in raw.faces]
    if t == "vol": s["C"] = [_tup(c) for c in raw.cells]
    return s


def _input_state(case, m, before, res, t):
    """the mesh object that was passed in is afterwards either unchanged or equal to the result, never half-updated"""
    out = []
    tag = "pre-queried" if case.get("pre") else "fresh"
    opsig = case["ops"][0][0] if len(case["ops"]) == 1 else "seq"
    try:
        now = snap(m, t)
    except Exception as e:  # noqa
        return [{"key": f"C13/input/unreadable/{opsig}", "what": f"input object unreadable afterwards: {type(e).__name__}", "detail": str(e)}]
    unchanged = all(now[k] == before[k] for k in now)
    equal_res = False
    if res is not None:
        rs = snap(res, t)
        equal_res = all(now[k] == rs[k] for k in now)
    if not (unchanged or equal_res):
        diff = [k for k in now if now[k] != before[k]]
        same = [k for k in now if now[k] == before[k]]
        out.append({"key": f"C13/input/half-updated/containers/{opsig}",
                    "what": f"input object afterwards is neither unchanged nor equal to the result (changed: {diff}; kept: {same})",
                    "detail": f"ops={case['ops']} corners now {len(now.get('FC', []))}"})
    else:
        bad = containers_ok(now, t)
        # a valid input stays internally consistent whether unchanged or updated
        if bad and not (equal_res and res is not None and containers_ok(snap(res, t), t)):
            out.append({"key": f"C13/input/inconsistent/{opsig}", "what": f"input object containers inconsistent afterwards: {bad[0]}", "detail": ""})
        cb = conn_check(m, t)
        if cb:
            out.append({"key": f"C13/input/stale-connectivity/{tag}/{'in-place' if equal_res else 'unchanged'}",
                        "what": "input object answers connectivity queries that do not describe its own face list (stale cache)",
                        "detail": f"{cb[0]} ops={case['ops']}"})
    return out


def _expected_surface(case, before, st0):
    V, E = st0["V"], st0["E"]
    lens = [len(f) for f in before["F"]]
    if case["ops"] == [["sdb"]]:
        # triangles having a vertex of degree 2 (two border edges) are split in three
        deg = {}
        for f in before["F"]:
            for (a, b) in sides(f):
                deg.setdefault(keyed(a, b), 0)
        vdeg = {}
        for (a, b) in deg:
            vdeg[a] = vdeg.get(a, 0) + 1; vdeg[b] = vdeg.get(b, 0) + 1
        pb = [f for f in before["F"] if any(vdeg[v] == 2 for v in f)]
        return {"VEF": (V + len(pb), E + sum(len(f) for f in pb), len(lens) + sum(len(f) - 1 for f in pb)),
                "lens": [3] * (len(lens) + sum(len(f) - 1 for f in pb)) if all(len(f) == 3 for f in before["F"]) else
                        sorted([len(f) for f in before["F"] if f not in pb] + [3] * sum(len(f) for f in pb))}

    def tri_face(i):
        nonlocal V, E
        n = lens[i]
        if n == 4:
            lens[i] = 3; lens.append(3); E += 1
        elif n > 4:
            lens[i] = 3; lens.extend([3] * (n - 1)); V += 1; E += n

    def tri_all():
        for i in range(len(lens)): tri_face(i)
    for op in case["ops"]:
        k = op[0]
        if k == "fan":
            n = lens[op[1]]; lens[op[1]] = 3; lens.extend([3] * (n - 1)); V += 1; E += n
        elif k == "tf": tri_face(op[1])
        elif k == "tri": tri_all()
        elif k == "loop":
            tri_all()
            for _ in range(op[1]):
                F = len(lens); V, E = V + E, 2 * E + 3 * F; lens = [3] * (4 * F)
        elif k == "q3":
            tri_all(); F = len(lens); V, E = V + E + F, 2 * E + 3 * F; lens = [4] * (3 * F)
        elif k == "s6":
            if op[1] > 0: tri_all()      # subdivide_triangles_6(0) is a no-op (nothing to refine, nothing triangulated)
            for _ in range(op[1]):
                F = len(lens); V, E = V + E + F, 2 * E + 3 * F + 3 * F; lens = [3] * (6 * F)
    return {"VEF": (V, E, len(lens)), "lens": lens}


def _new_vertices_ok(op, b, a, t):
    """each new vertex is at the centre of the edge / face / cell it refines (raw state before -> after one operation)"""
    Vb, Va = exactV(b["V"]), exactV(a["V"])
    if Va[:len(Vb)] != Vb: return "operation moved existing vertices"
    new = Va[len(Vb):]

    def mid(i, j): return tuple((Vb[i][k] + Vb[j][k]) / 2 for k in range(3))

    def bary(f): return tuple(sum(Vb[i][k] for i in f) / len(f) for k in range(3))
    k = op[0]
    if k == "es":
        e = b["E"][op[1]]
        want = [mid(e[0], e[1])]
    elif k == "fan": want = [bary(b["F"][op[1]])]
    elif k == "cfan": want = [bary(b["C"][op[1]])] if len(b["C"][op[1]]) == 4 else []
    elif k == "fsp": want = [bary(b["F"][op[1]])] if len(b["F"][op[1]]) == 3 else []
    elif k == "tf": want = [bary(b["F"][op[1]])] if len(b["F"][op[1]]) > 4 else []
    elif k == "tri": want = [bary(f) for f in b["F"] if len(f) > 4]
    elif k in ("loop", "q3", "s6"):
        if (k != "q3" and op[1] != 1): return None   # repeated refinement: positions are covered by the model correspondence
        # triangulated first: barycentres of big faces (+ spokes), then one midpoint per edge (quads: one diagonal each)
        want, spokes, quads = [], [], []
        for f in b["F"]:
            if len(f) > 4:
                want.append(bary(f)); spokes += [(v, bary(f)) for v in f]
            elif len(f) == 4: quads.append(f)
        und = {keyed(x, y) for f in b["F"] for (x, y) in sides(f)}
        want += [mid(x, y) for (x, y) in und]
        want += [tuple((Vb[v][i] + c[i]) / 2 for i in range(3)) for (v, c) in spokes]
        rest = match_points(new, want)
        if rest is None: return "a centre of an edge/face of the (triangulated) mesh carries no new vertex"
        extra = [new[i] for i in rest]
        # remaining new vertices: one diagonal midpoint per quad, and (q3/s6) one barycentre per triangle of the triangulated mesh
        if k == "loop":
            for q in quads:
                d = [mid(q[0], q[2]), mid(q[1], q[3])]
                hit = [i for i, p in enumerate(extra) if pclose(p, d[0]) or pclose(p, d[1])]
                if not hit: return "a quad was not cut along a diagonal (no new vertex at a diagonal midpoint)"
                extra.pop(hit[0])
            return "new vertices that are not the centre of anything" if extra else None
        # q3 / s6: check the face barycentres via the result instead: count only
        ntri = sum(1 if len(f) == 3 else 2 if len(f) == 4 else len(f) for f in b["F"])
        if len(extra) != ntri + len(quads): return f"{len(extra)} further new vertices for {ntri} triangles and {len(quads)} quad diagonals"
        if not quads and all(len(f) == 3 for f in b["F"]):
            if match_points(extra, [bary(f) for f in b["F"]]) != []: return "face barycentres are not the remaining new vertices"
        return None
    else:
        return None
    rest = match_points(new, want)
    if rest is None: return "no new vertex at the centre of the refined element"
    if rest: return "new vertices that are not the centre of the refined element"
    return None


# ------------------------------------------------------------------------------------------------
# implementation observation + model request + comparison
# ------------------------------------------------------------------------------------------------
def impl_observe(case):
    t = case["t"]
    mesh, m0, res, err, nops, editor = None, None, None, None, 0, None
    for bi, ops in enumerate(all_blocks(case)):
        sub = dict(case, ops=ops, pre=(case.get("pre") if bi == 0 else case.get("probe_between", False)))
        r = run_impl(sub, mesh=mesh, editor=(editor if case.get("reuse_editor") else None))
        editor = r.get("editor")
        if m0 is None: m0 = r["m"]
        res = r["res"]
        if r["err"] is not None:
            err = (r["err"][0], r["err"][1] + nops if r["err"][1] >= 0 else -1); break
        if res is None: break
        nops += len(ops); mesh = res
    obs = {"err": err, "res": None, "inp": None, "inp_conn_ok": None, "same_obj": res is m0}
    if res is not None:
        obs["res"] = snap(res, t)
    try:
        obs["inp"] = snap(m0, t)
        obs["inp_conn_ok"] = not conn_check(m0, t)
    except Exception as e:  # noqa
        obs["inp"] = f"unreadable:{type(e).__name__}"
    return obs


def _pt(v):
    return " ".join(G.frac(c) for c in v)


def model_request(case):
    t = case["t"]
    toks = [t, str(len(case["V"]))] + [_pt(v) for v in case["V"]]
    if t == "poly":
        toks += [str(len(case["E"]))] + [f"{a} {b}" for a, b in case["E"]]
    elif t == "surf":
        toks += [str(len(case["F"]))] + [" ".join([str(len(f))] + [str(v) for v in f]) for f in case["F"]]
    else:
        toks += [str(len(case["C"]))] + [" ".join([str(len(c))] + [str(v) for v in c]) for c in case["C"]]
    bl = all_blocks(case)
    toks.append(str(sum(len(b) for b in bl) + len(bl) - 1))
    for bi, b in enumerate(bl):
        if bi > 0: toks.append("nb")          # block boundary: __exit__ (prepare) and a new __enter__
        for op in b:
            toks.append(op[0] if len(op) == 1 else f"{op[0]} {op[1]}")
    return " ".join(toks)


def parse_reply(rep):
    """'ok V n x y z.. E n a b.. F n k v.. [C n k v..] IN (= | V ..) cache (fresh|stale)'  |  'err:Key i ...'"""
    ts = rep.split()
    if not ts: return None
    pos = [0]

    def nxt():
        pos[0] += 1; return ts[pos[0] - 1]

    def mesh():
        d = {}
        while pos[0] < len(ts) and ts[pos[0]] in ("V", "E", "F", "C"):
            k = nxt(); n = int(nxt())
            if k == "V": d["V"] = [tuple(Fraction(nxt()) for _ in range(3)) for _ in range(n)]
            elif k == "E": d["E"] = [(int(nxt()), int(nxt())) for _ in range(n)]
            else:
                lst = []
                for _ in range(n):
                    ln = int(nxt()); lst.append(tuple(int(nxt()) for _ in range(ln)))
                d[k] = lst
        return d
    head = nxt()
    out = {"status": head}
    if head.startswith("err"):
        out["step"] = int(nxt())
    else:
        out["res"] = mesh()
    if pos[0] < len(ts) and ts[pos[0]] == "IN":
        nxt()
        if ts[pos[0]] == "=":
            nxt(); out["inp"] = "="
        else:
            out["inp"] = mesh()
        if pos[0] < len(ts) and ts[pos[0]] == "corners":
            nxt(); out["corners"] = int(nxt())
    return out


def order_free(case):
    """True when the numbering produced by the code depends on Python's set iteration order: loop_subdivision and
    subdivide_triangles_3quads leave an edge list that comes out of a `set`; a later pass that numbers its midpoints
    by that edge list inherits the set's order."""
    seen_set = False
    for op in all_ops(case):
        if op[0] in ("loop", "q3", "s6"):
            n = 1 if op[0] == "q3" else op[1]
            if n == 0: continue
            if seen_set or n > 1: return True
            seen_set = True
    return False


def canon_face(f):
    i = f.index(min(f))
    return tuple(f[i:] + f[:i])


def _cmp_mesh(case, mod, imp, t, label):
    if imp is None or isinstance(imp, str): return f"{label}: implementation produced no readable mesh ({imp})"
    if len(mod["V"]) != len(imp["V"]): return f"{label}: vertex count model {len(mod['V'])} impl {len(imp['V'])}"
    n0 = len(case["V"])
    free = order_free(case)
    perm = list(range(len(imp["V"])))   # impl index -> model index
    if not free:
        for i, (p, q) in enumerate(zip(imp["V"], mod["V"])):
            if not pclose(p, q): return f"{label}: vertex {i} impl {p} model {[float(c) for c in q]}"
    else:
        for i in range(n0):
            if not pclose(imp["V"][i], mod["V"][i]): return f"{label}: old vertex {i} differs"
        used = set(range(n0))
        for i in range(n0, len(imp["V"])):
            cand = [j for j in ([i] + list(range(n0, len(mod["V"])))) if j not in used and pclose(imp["V"][i], mod["V"][j])]
            if not cand: return f"{label}: new vertex {i} of the implementation at {imp['V'][i]} has no counterpart in the model"
            perm[i] = cand[0]; used.add(cand[0])
    for k in ("E", "F", "C"):
        if k not in mod or (k not in imp and not mod[k]): continue
        a = [tuple(perm[v] for v in x) for x in imp.get(k, [])]
        b = [tuple(x) for x in mod[k]]
        if len(a) != len(b): return f"{label}: {k} count model {len(b)} impl {len(a)}"
        if k == "E":
            if any(len(x) != 2 for x in a): return f"{label}: edge arity"
            a = [keyed(*x) for x in a]; b = [keyed(*x) for x in b]
            set_made = any(o[0] == "q3" or (o[0] in ("loop", "s6") and o[1] > 0) for o in all_ops(case))   # edge list = list(set)
            if (sorted(a) != sorted(b)) if (free or set_made) else (a != b): return f"{label}: edge lists differ"
        elif k == "F":
            if free:
                if sorted(canon_face(x) for x in a) != sorted(canon_face(x) for x in b): return f"{label}: face lists differ (up to order/rotation)"
            elif a != b:
                return f"{label}: face lists differ: first at {[i for i in range(len(a)) if a[i] != b[i]][:1]}"
        else:
            if a != b: return f"{label}: cell lists differ"
    return None


def compare(case, model, impl):
    _CUR["rel"] = rel_tol(case)
    try:
        return _compare(case, model, impl)
    finally:
        _CUR["rel"] = 1e-9


def _compare(case, model, impl):
    t = case["t"]
    rep = parse_reply(model)
    if rep is None or rep["status"] == "bad-request": return "model rejected the request: " + model[:80]
    if rep["status"].startswith("err"):
        if impl["err"] is None: return f"model {rep['status']} at op {rep['step']}, implementation returned"
        if (impl["err"][0], impl["err"][1]) != (rep["status"], rep["step"]): return f"model {rep['status']}@{rep['step']} impl {impl['err']}"
        return None
    if impl["err"] is not None: return f"implementation {impl['err']}, model ok"
    why = _cmp_mesh(case, rep["res"], impl["res"], t, "result")
    if why: return why
    # the input object afterwards, as predicted by the model of the editing block
    inp_model = rep["res"] if rep.get("inp") == "=" else rep.get("inp")
    if inp_model is not None:
        why = _cmp_mesh(case, inp_model, impl["inp"], t, "input-object")
        if why: return why
        if "corners" in rep and t != "poly" and len(impl["inp"]["FC"]) != rep["corners"]:
            return f"input-object: {len(impl['inp']['FC'])} face corners, model {rep['corners']}"
        if rep.get("inp") == "=" and t != "poly" and impl["inp"]["FC"] != impl["res"]["FC"]:
            return "input-object: face corners differ from the result's"
    return None


def nontrivial(case, obs):
    return obs["err"] is None and obs["res"] is not None and len(obs["res"]["V"]) + len(obs["res"].get("F", [])) + len(obs["res"]["E"]) > \
        len(case["V"]) + len(case.get("F", [])) + len(case.get("E", []))


def classify(case, obs):
    ops = all_ops(case)
    ks = [f"{case['t']}:{o[0]}" for o in ops]
    ks.append(f"nops:{len(ops) if len(ops) < 6 else '6+'}")
    nb = len(all_blocks(case))
    ks.append(f"history:blocks={nb}" + ("+probe-between" if nb > 1 and case.get("probe_between") else ""))
    if nb > 1 and case.get("reuse_editor"): ks.append("history:same-editor-object")
    if case.get("probe_ops"): ks.append("history:probe-between-split_edge-calls")
    rep = case.get("rep") or {}
    ks.append("rep:coords=" + rep.get("coords", "float")); ks.append("rep:elems=" + rep.get("elems", "list"))
    if any(len(o) > 1 and o[0] in ("loop", "s6") and o[1] == 0 for o in ops): ks.append("param:zero-passes")
    if any(b == [["sdb"]] for b in all_blocks(case)) and nb > 1: ks.append("history:sdb-then-block")
    ks.append("pre:" + ("queried" if case.get("pre") else "fresh"))
    ks.append("tagfam:" + case.get("tag", "?").split("+")[0].split("/")[0])
    if case["t"] == "surf":
        ks.append("input:" + _facekind(case["F"]))
        n = len(case["F"]); ks.append("faces:" + ("1" if n == 1 else "2-8" if n <= 8 else "9-30" if n <= 30 else ">30"))
    if obs["err"]: ks.append(obs["err"][0])
    if obs["res"] is not None:
        n = len(obs["res"]["V"]); ks.append("resV:" + ("<=20" if n <= 20 else "<=100" if n <= 100 else "<=1000" if n <= 1000 else ">1000"))
    if order_free(case): ks.append("compare:order-free")
    return ks


def describe(case):
    d = {k: case[k] for k in ("t", "ops", "blocks", "probe_between", "probe_ops", "reuse_editor", "rep", "pre", "tag") if k in case}
    d["nV"] = len(case["V"]); d["n_elems"] = len(case.get("F") or case.get("C") or case.get("E"))
    return d


def shrink(case, still_fails):
    def still(c):
        return GS.admissible(c) and still_fails(c)
    if "bad" in case: return case
    if case.get("blocks"):
        # drop later blocks first, then give up structural shrinking (ids of later blocks depend on earlier ones)
        cur = case
        while cur.get("blocks"):
            trial = dict(cur, blocks=cur["blocks"][:-1])
            if not trial["blocks"]: trial.pop("blocks")
            if still(trial): cur = trial
            else: break
        if cur.get("blocks"): return cur
        case = cur
    if case.get("rep"):
        trial = {k: v for k, v in case.items() if k != "rep"}
        if still(trial): case = trial
    cur = case
    # drop operations (ids stay valid only when dropping from the end or an id-free op): try each, keep if still failing
    i = len(cur["ops"]) - 1
    while i >= 0 and len(cur["ops"]) > 1:
        trial = dict(cur, ops=cur["ops"][:i] + cur["ops"][i + 1:])
        if still(trial): cur = trial
        i -= 1
    if cur.get("pre"):
        trial = dict(cur, pre=False)
        if still(trial): cur = trial
    # drop faces / cells / edges not referenced by an id op
    key = {"surf": "F", "vol": "C", "poly": "E"}[cur["t"]]
    ids = {o[1] for o in cur["ops"] if len(o) > 1 and o[0] in ("fan", "tf", "cfan", "es")}
    changed = True
    while changed and len(cur[key]) > 1:
        changed = False
        for j in range(len(cur[key]) - 1, -1, -1):
            if j <= max(ids, default=-1) or len(cur[key]) <= 1: continue
            if any(o[0] == "fsp" for o in cur["ops"]): break
            el = cur[key][:j] + cur[key][j + 1:]
            used = sorted({v for e in el for v in e})
            mp = {o: n for n, o in enumerate(used)}
            trial = dict(cur, **{key: [[mp[v] for v in e] for e in el], "V": [cur["V"][o] for o in used]})
            if still(trial): cur = trial; changed = True
    return cur


def cases(rng, tier):
    out = list(GS.fixed_cases())
    if tier == "quick":
        n_s, n_v, n_p, n_b, mf, mo, bf = 450, 180, 80, 40, 14, 3, 400
    else:
        n_s, n_v, n_p, n_b, mf, mo, bf = 1800, 700, 250, 150, 40, 4, 2500
    for i in range(n_s):
        out.append(GS.surf_case(rng, max_faces=rng.choice([4, mf, mf]), max_ops=mo, budget_faces=bf, tri_only=rng.random() < 0.35))
    for _ in range(n_v):
        out.append(GS.vol_case(rng, max_cells=rng.choice([6, 12, 48 if tier != "quick" else 12]), max_ops=mo))
    for _ in range(n_p):
        out.append(GS.poly_case(rng, max_v=10 if tier == "quick" else 30, max_ops=mo + 1))
    for _ in range(n_b):
        out.append(GS.sdb_case(rng))
    return out


def search_on_break(rng, broken, mismatches):
    """failing-input search when a theorem / translated site / the correspondence broke: small scenarios of every family,
    with all the histories (several blocks, caches queried before and between) and representations switched on"""
    out = list(GS.fixed_cases())
    out += [GS.surf_case(rng, max_faces=8, max_ops=2, budget_faces=200, hist=0.5, reps=0.4) for _ in range(220)]
    out += [GS.vol_case(rng, max_cells=6, max_ops=3, hist=0.5, reps=0.4) for _ in range(90)]
    out += [GS.poly_case(rng) for _ in range(40)] + [GS.sdb_case(rng) for _ in range(20)]
    for c in out:
        if "bad" not in c: c["pre"] = True if rng.random() < 0.7 else c.get("pre", False)
    return out


MANIFEST = {
    "level_text": ("Proof. Lean 4 theorems about an executable model of mouette/mesh/subdivision.py (every operation on the vertex / "
                   "edge / face / cell lists exactly as coded after the fix: commits, the editing block with its two aliases, "
                   "prepare()'s completion), for ALL meshes and ALL operation sequences: documented element counts of every operation; "
                   "Euler characteristic preserved by EVERY operation - in-place surface operations and split_edge on the maintained "
                   "containers, 1->4 / 1->3 quads / 1->6 via the proved number of DISTINCT edges of the rebuilt edge set "
                   "(E' = 2E+3F, 2E+6F), cell fan and face-centre split via the proved number of faces/edges completed by prepare() "
                   "(+6/+4, +2+3k/+3+k) - under decidable hypotheses on the input (edge list = set of face sides, faces share at most "
                   "one side, face list = faces of the cells, distinct tetrahedral cells); consistent orientation / at most two faces "
                   "per edge preserved by the 1->4 pass and by the fan split, and border sides correspond exactly to (halves of) border "
                   "sides; total vector area preserved by every surface operation and by every sequence of them inside a block "
                   "(area_preserved_block), sub-faces are positive multiples of the parent; total signed volume preserved by the cell "
                   "fan and by the face-centre split (mesh level); old vertices stay in place through any block; new vertices are the "
                   "midpoints / barycentres; the input object IS the refined mesh after the repaired __exit__ (and a proved "
                   "counter-example for the shipped one); HISTORIES: after any sequence of editing blocks on one object the object is "
                   "coherent and independent of whatever was cached on it before; border loops (orbits of the successor map on "
                   "border sides) and connected components are in bijection through the 1->4 pass. The refinement tables, centre "
                   "expressions, new-vertex numbering, enter/exit steps and fan index expressions of the source are re-extracted "
                   "with Python ast on every run and bridged to the model. The model is tied to the code by a scenario correspondence (result "
                   "containers in order, input object afterwards) and an independent oracle (manifoldness, chi / border loops / "
                   "components via surface_stats, area, volume, connectivity answers vs direct inspection, input object state). "
                   "ROUND 4: the BODY of every operation of subdivision.py (split_edge, split_face_as_fan, triangulate_face, triangulate, "
                   "loop_subdivision, subdivide_triangles_3quads, subdivide_triangles_6, split_cell_as_fan, split_tet_from_face_center) is "
                   "translated imperatively from the working tree on every run (statement order, loops as folds, guards, index "
                   "expressions, dict / set writes) and PROVED equal to the hand model for all meshes (`*_follows_source`, "
                   "`run_ops_follows_source`), so every theorem speaks about what the source says; the step lists of __init__ / "
                   "__enter__ / __exit__ are translated and interpreted on the block model (`enter_follows_source`, "
                   "`exit_follows_source`); an exception inside a block still leaves the caller's object coherent "
                   "(`exception_inside_block`); the quad cut adds exactly the two orientations of its diagonal to the directed sides, "
                   "preserves orientation / border sides when the diagonal is not already a side, and always preserves the components."),
    "level_note": ("Trusted: Lean kernel + propext/Classical.choice/Quot.sound; the meaning the body translator gives to the Python "
                   "statements (Model/SubdivSource.lean); the hand-written model of prepare() and of the caller's object (checked "
                   "against the code on the scenarios of each run only); float rounding not modelled. Proved in rounds 4-7 beyond the first "
                   "list: split_double_boundary_edges_triangles (modelled, translated, bridged); orientation, border sides, border loops "
                   "and components for 1->3 quads and 1->6 on triangle meshes (1->6 under faces-share-at-most-one-edge); components for "
                   "the fan, triangulate_face, triangulate; the quad cut under 'diagonal not already a side'. NOT proved "
                   "(oracle/correspondence only): the umbrella condition at vertices for operations other than the fan (proved for the fan: "
                   "umbrella_preserved_fan; border loops for the fan / quad cut are proved too), preservation of the counting hypotheses themselves by the operations (so the Euler theorems are per "
                   "operation, not per sequence, for the set-rebuilding operations), prepare() and the caller's object stay "
                   "hand-modelled. Open finding: triangulating a polygon surface that is not a "
                   "regular complex."),
    "technique": "Lean 4 proofs (induction over face lists / operation sequences, ring identities over Rat) over an executable model; ast-translated tables with rfl bridges; differential scenario correspondence + direct oracle",
}


# ------------------------------------------------------------------------------------------------
# translated fragments: the literal refinement patterns of subdivision.py -> Generated/C13Tables.lean
# ------------------------------------------------------------------------------------------------
SYMS = ["A", "B", "C", "D", "mAB", "mBC", "mCA", "S", "ibary", "icenter"]


def translate():
    import ast
    from .. import translate as T
    recs = []
    defs = {}

    def names(node):
        """list/tuple literal of plain names -> ['A','B',..] ; nested -> list of lists"""
        if isinstance(node, (ast.List, ast.Tuple)):
            return [names(e) for e in node.elts]
        if isinstance(node, ast.Name):
            if node.id not in SYMS: raise T.TranslateError(f"unexpected name {node.id}")
            return node.id
        raise T.TranslateError(f"not a table of names: {ast.dump(node)[:80]}")

    def lean(t):
        if isinstance(t, list): return "[" + ", ".join(lean(e) for e in t) + "]"
        return "." + t

    def for_table(fn, target):
        """the loop over a literal table: `new_tri` / `new_face` = the one whose body appends to `.faces`, `new_edge` = the one
        whose body adds to the edge set (whatever the loop variable is called)"""
        want = "edges" if target == "new_edge" else "faces"
        hits = []
        for n in ast.walk(fn):
            if isinstance(n, ast.For) and isinstance(n.target, ast.Name) and isinstance(n.iter, (ast.List, ast.Tuple)):
                body = " ".join(ast.unparse(b) for b in n.body)
                kind = "edges" if ".add(" in body else "faces" if (".faces.append(" in body or ".faces +=" in body) else None
                if kind == want: hits.append(n)
        if len(hits) != 1: raise T.TranslateError(f"loop over the literal {want} table: found {len(hits)}")
        return names(hits[0].iter)

    def canon(fn, lenrole=None):
        """renames the locals of a refinement function to the role names of SYMS, from the STRUCTURE: corner unpacking in order
        -> A, B, C, D; `x = <dict>[keyify(P, Q)]` -> mPQ; `x = <dict>[<index>]` -> S; `x = len(<..>.vertices)` -> `lenrole`"""
        import copy as _copy
        fn = _copy.deepcopy(fn)
        ren = {}
        for n in ast.walk(fn):
            if isinstance(n, ast.Assign) and len(n.targets) == 1 and isinstance(n.targets[0], ast.Tuple) \
                    and len(n.targets[0].elts) in (3, 4) and all(isinstance(e, ast.Name) for e in n.targets[0].elts) \
                    and not isinstance(n.value, (ast.GeneratorExp, ast.ListComp)):
                for e, role in zip(n.targets[0].elts, "ABCD"):
                    ren.setdefault(e.id, role)
        for n in ast.walk(fn):
            if isinstance(n, ast.Assign) and len(n.targets) == 1 and isinstance(n.targets[0], ast.Name):
                v = n.value
                if isinstance(v, ast.Subscript) and isinstance(v.value, ast.Name):
                    k = v.slice
                    if isinstance(k, ast.Call) and getattr(k.func, "id", "") == "keyify" and len(k.args) == 2 and all(isinstance(a, ast.Name) for a in k.args):
                        ren.setdefault(n.targets[0].id, "m" + "".join(ren.get(a.id, a.id) for a in k.args))
                    elif isinstance(k, ast.Name) and v.value.id not in ren and k.id not in ren:
                        ren.setdefault(n.targets[0].id, "S")
                elif lenrole and isinstance(v, ast.Call) and getattr(v.func, "id", "") == "len" and ast.unparse(v.args[0]).endswith(".vertices"):
                    ren.setdefault(n.targets[0].id, lenrole)
        # a role name already used for something else would be captured: refuse
        clash = {x.id for x in ast.walk(fn) if isinstance(x, ast.Name)} & (set(ren.values()) - set(ren))
        clash -= {k for k, v in ren.items() if k == v}
        for x in ast.walk(fn):
            if isinstance(x, ast.Name) and x.id in ren: x.id = ren[x.id]
        return fn

    def is_sub(node, attr):
        """self.mesh.<attr>[...]"""
        return (isinstance(node, ast.Subscript) and isinstance(node.value, ast.Attribute) and node.value.attr == attr)

    def set_append(body, attr):
        """in a statement list: `self.mesh.<attr>[i] = <names>` and the `.append(<names>)` / `+= [<names>..]` that follow"""
        st, app, unpack = None, [], None
        for s in body:
            if isinstance(s, ast.Assign) and len(s.targets) == 1:
                tg = s.targets[0]
                if is_sub(tg, attr): st = names(s.value)
                elif isinstance(tg, ast.Tuple) and is_sub(s.value, attr): unpack = names(tg)
                elif isinstance(tg, ast.Tuple) and isinstance(s.value, ast.Name): unpack = names(tg)
            elif isinstance(s, ast.Expr) and isinstance(s.value, ast.Call) and isinstance(s.value.func, ast.Attribute) \
                    and s.value.func.attr == "append" and isinstance(s.value.func.value, ast.Attribute) and s.value.func.value.attr == attr:
                app.append(names(s.value.args[0]))
            elif isinstance(s, ast.AugAssign) and isinstance(s.target, ast.Attribute) and s.target.attr == attr:
                app += names(s.value)
        if st is None or not app: raise T.TranslateError(f"set/append pattern on {attr} not found")
        return unpack, st, app

    try:
        tree, _ = T.load("mouette/mesh/subdivision.py")
    except Exception as e:  # noqa: unreadable source -> every site fails below and ALL generated files are rewritten as stubs
        tree = ast.parse("")
        recs.append({"site": "subdivision.py: source file readable", "ok": False, "detail": f"{type(e).__name__}: {e}"[:200]})
    # round 4: the BODIES of the operations, the block protocol as step lists, the id_* properties -> Generated/C13Src.lean
    from ..gen import c13_translate as CT
    recs_bodies, translated_bodies = CT.translate_bodies()
    _refresh_source_map(translated_bodies)
    import copy as _cp

    def normalised(fn):
        """the function with the respellings of the body translator normalised away (`x += [e]` = append, flipped comparisons ..)"""
        f2 = CT.Norm().visit(_cp.deepcopy(fn)); ast.fix_missing_locations(f2)
        return f2

    def lookups(fn):
        """`mXY = half[keyify(X,Y)]` -> [[mXY, X, Y], ...] in source order"""
        out = []
        for n in ast.walk(fn):
            if isinstance(n, ast.Assign) and len(n.targets) == 1 and isinstance(n.targets[0], ast.Name) \
                    and n.targets[0].id in ("mAB", "mBC", "mCA") and isinstance(n.value, ast.Subscript) \
                    and isinstance(n.value.value, ast.Name):
                key = n.value.slice
                if not (isinstance(key, ast.Call) and getattr(key.func, "id", "") == "keyify"):
                    raise T.TranslateError("half[...] key is not keyify(..)")
                out.append([n.targets[0].id] + [names(a) for a in key.args])
        if len(out) != 3: raise T.TranslateError(f"expected 3 midpoint lookups, found {len(out)}")
        return out

    def site_loop():
        fn = canon(T.find_def(tree, "SurfaceSubdivision.loop_subdivision"))
        defs["loopTris"] = for_table(fn, "new_tri"); defs["loopEdges"] = for_table(fn, "new_edge")
        defs["loopLookups"] = lookups(fn)
        return f"{len(defs['loopTris'])} faces, {len(defs['loopEdges'])} edges per triangle, lookups {defs['loopLookups']}"

    def site_q3():
        fn = canon(T.find_def(tree, "SurfaceSubdivision.subdivide_triangles_3quads"))
        defs["quads"] = for_table(fn, "new_face"); defs["quadEdges"] = for_table(fn, "new_edge")
        defs["quadLookups"] = lookups(fn)
        return f"{len(defs['quads'])} faces, {len(defs['quadEdges'])} edges per triangle, lookups {defs['quadLookups']}"

    def site_quad():
        fn = canon(normalised(T.find_def(tree, "SurfaceSubdivision.triangulate_face")))
        branch = None
        for n in ast.walk(fn):
            if isinstance(n, ast.If) and isinstance(n.test, ast.Compare) and isinstance(n.test.ops[0], ast.Eq) \
                    and any(isinstance(x, ast.Constant) and x.value == 4 for x in (n.test.comparators[0], n.test.left)):
                branch = n.body
        if branch is None: raise T.TranslateError("`len(F)==4` branch not found")
        unpack, st, app = set_append(branch, "faces")
        edge = None
        for s in branch:
            if isinstance(s, ast.Expr) and isinstance(s.value, ast.Call) and getattr(s.value.func, "attr", "") == "append" \
                    and getattr(s.value.func.value, "attr", "") == "edges":
                call = s.value.args[0]
                if isinstance(call, ast.Call) and getattr(call.func, "id", "") == "keyify": edge = [names(a) for a in call.args]
        if unpack is None or edge is None: raise T.TranslateError("quad cut: unpacking or diagonal edge not found")
        defs["quadUnpack"], defs["quadSet"], defs["quadAppend"], defs["quadDiagonal"] = unpack, st, app, edge
        return f"unpack {unpack} set {st} append {app} diagonal {edge}"

    def site_cfan():
        fn = canon(T.find_def(tree, "VolumeSubdivision.split_cell_as_fan"), "ibary")
        unpack, st, app = set_append(fn.body, "cells")
        if unpack is None: raise T.TranslateError("cell unpacking not found")
        defs["cellUnpack"], defs["cellSet"], defs["cellAppend"] = unpack, st, app
        return f"unpack {unpack} set {st} append {app}"

    def site_fsp():
        fn = canon(T.find_def(tree, "VolumeSubdivision.split_tet_from_face_center"), "icenter")
        unpack, st, app = set_append(fn.body, "faces")
        if unpack is None: raise T.TranslateError("face unpacking not found")
        defs["faceUnpack"], defs["faceSet"], defs["faceAppend"] = unpack, st, app
        return f"unpack {unpack} set {st} append {app}"

    # ---- round 3: centres (divisors), midpoint numbering / operation order, enter / exit steps, fan index expressions
    from fractions import Fraction as _Fr
    struct = {}

    def divisor(expr):
        """`X / len(f)` -> ('len',) ; `X / k` -> ('const', k) ; `c * X` with a float constant -> ('scale', num, den)"""
        if isinstance(expr, ast.BinOp) and isinstance(expr.op, ast.Div):
            r = expr.right
            if isinstance(r, ast.Call) and getattr(r.func, "id", "") == "len": return ("len",)
            if isinstance(r, ast.Constant) and isinstance(r.value, int) and not isinstance(r.value, bool) and r.value > 0: return ("const", r.value)
        if isinstance(expr, ast.BinOp) and isinstance(expr.op, ast.Mult):
            # `X * (1/len(f))`, `(1/k) * X`: the same centre written as a product (harmless rewrite)
            for fac in (expr.left, expr.right):
                if isinstance(fac, ast.BinOp) and isinstance(fac.op, ast.Div) and isinstance(fac.left, ast.Constant) and fac.left.value == 1:
                    return divisor(ast.BinOp(left=ast.Name(id="X"), op=ast.Div(), right=fac.right))
                if isinstance(fac, ast.Constant) and isinstance(fac.value, float) and fac.value > 0 and _Fr(fac.value).numerator == 1 \
                        and _Fr(fac.value).denominator in (2, 3):
                    return ("const", _Fr(fac.value).denominator)          # `X * 0.5` = `X / 2`
        if isinstance(expr, ast.BinOp) and isinstance(expr.op, ast.Mult) and isinstance(expr.left, ast.Constant) \
                and isinstance(expr.left.value, (int, float)):
            fr = _Fr(expr.left.value)
            return ("scale", fr.numerator, fr.denominator)
        raise T.TranslateError(f"centre expression not understood: {ast.unparse(expr)[:80]}")

    _CENTRE_KIND = {"pV": "sum", "pS": "sum", "pcenter": "sum", "pC": "mid", "bary": "chain"}

    def assign_of(fn, name):
        """the assignment computing a centre, found by its SHAPE (the local may be called anything): `sum([..]) / k`,
        the half-sum of two vertex reads, or a scaled chain of additions of locals"""
        kind = _CENTRE_KIND[name]

        def is_centre(v):
            if not (isinstance(v, ast.BinOp) and isinstance(v.op, (ast.Div, ast.Mult))): return False
            u = ast.unparse(v)
            has_sum = any(isinstance(x, ast.Call) and getattr(x.func, "id", "") == "sum" for x in ast.walk(v))
            reads = u.count(".vertices[")
            if kind == "sum": return has_sum
            if kind == "mid": return (not has_sum) and reads == 2
            return (not has_sum) and reads == 0 and any(isinstance(x, ast.BinOp) and isinstance(x.op, ast.Add) for x in ast.walk(v))
        hits = [n for n in ast.walk(fn) if isinstance(n, ast.Assign) and len(n.targets) == 1
                and isinstance(n.targets[0], ast.Name) and is_centre(n.value)]
        if len(hits) != 1: raise T.TranslateError(f"expected exactly one centre computation of kind `{kind}`, found {len(hits)}")
        return hits[0].value

    def lean_div(d):
        return ".len" if d[0] == "len" else f".const {d[1]}" if d[0] == "const" else f".scale {d[1]} {d[2]}"

    def running_index_loop(fn, loop_pred, what):
        """the loop that creates one vertex per edge / face: the index stored in the table must be the length of the new
        vertex container taken in the same iteration BEFORE the append"""
        loops = [n for n in ast.walk(fn) if isinstance(n, ast.For) and loop_pred(n)]
        if len(loops) != 1: raise T.TranslateError(f"{what}: expected one loop, found {len(loops)}")
        body = loops[0].body
        idx_name, appended, stored = None, False, None
        for st_ in body:
            if isinstance(st_, ast.Assign) and len(st_.targets) == 1 and isinstance(st_.targets[0], ast.Name) \
                    and isinstance(st_.value, ast.Call) and getattr(st_.value.func, "id", "") == "len" \
                    and ast.unparse(st_.value.args[0]) == "newMeshData.vertices":
                if appended: raise T.TranslateError(f"{what}: index taken after the append")
                idx_name = st_.targets[0].id
            elif isinstance(st_, ast.Expr) and isinstance(st_.value, ast.Call) and ast.unparse(st_.value.func) == "newMeshData.vertices.append":
                appended = True
            elif isinstance(st_, ast.Assign) and isinstance(st_.targets[0], ast.Subscript) \
                    and ast.unparse(st_.targets[0].value) in ("half", "bary"):
                v = st_.value
                if isinstance(v, ast.Name): stored = ("name", v.id, appended)
                elif isinstance(v, ast.Call) and getattr(v.func, "id", "") == "len" and ast.unparse(v.args[0]) == "newMeshData.vertices":
                    stored = ("len", None, appended)
                else: raise T.TranslateError(f"{what}: stored index `{ast.unparse(v)}` not understood")
        if not appended or stored is None: raise T.TranslateError(f"{what}: append / table write not found")
        if stored[0] == "name":
            if stored[1] != idx_name: raise T.TranslateError(f"{what}: table stores `{stored[1]}`, which is not the running length")
        elif stored[2]: raise T.TranslateError(f"{what}: len() taken after the append")
        return loops[0]

    def call_names(stmts):
        out = []
        for st_ in stmts:
            if isinstance(st_, ast.Expr) and isinstance(st_.value, ast.Constant): continue      # docstring
            out.append(ast.unparse(st_).split("\n")[0].replace(" ", ""))
        return out

    def site_centres():
        fan = T.find_def(tree, "SurfaceSubdivision.split_face_as_fan")
        q3 = T.find_def(tree, "SurfaceSubdivision.subdivide_triangles_3quads")
        lp = T.find_def(tree, "SurfaceSubdivision.loop_subdivision")
        se = T.find_def(tree, "split_edge")
        cf = T.find_def(tree, "VolumeSubdivision.split_cell_as_fan")
        fs = T.find_def(tree, "VolumeSubdivision.split_tet_from_face_center")
        struct["fanDivisor"] = divisor(assign_of(fan, "pV"))
        struct["quadsBaryDivisor"] = divisor(assign_of(q3, "pS"))
        struct["quadsMidDivisor"] = divisor(assign_of(q3, "pC"))
        struct["loopMidDivisor"] = divisor(assign_of(lp, "pC"))
        struct["edgeMidDivisor"] = divisor(assign_of(se, "pC"))
        struct["cellDivisor"] = divisor(assign_of(cf, "bary"))
        if struct["cellDivisor"][0] == "const": struct["cellDivisor"] = ("scale", 1, struct["cellDivisor"][1])     # `X / 4` = `0.25 * X`
        struct["faceCentreDivisor"] = divisor(assign_of(fs, "pcenter"))
        return {k: struct[k] for k in ("fanDivisor", "quadsBaryDivisor", "loopMidDivisor", "cellDivisor", "faceCentreDivisor")}

    def site_numbering():
        lp = T.find_def(tree, "SurfaceSubdivision.loop_subdivision")
        q3 = T.find_def(tree, "SurfaceSubdivision.subdivide_triangles_3quads")
        is_edge_loop = lambda n: "edges" in ast.unparse(n.iter) and "self.mesh" in ast.unparse(n.iter)
        el = running_index_loop(lp, is_edge_loop, "loop_subdivision edge loop")
        running_index_loop(q3, is_edge_loop, "subdivide_triangles_3quads edge loop")
        running_index_loop(q3, lambda n: "enumerate(self.mesh.faces)" in ast.unparse(n.iter), "subdivide_triangles_3quads barycentre loop")
        # operation order of loop_subdivision: triangulate first; per pass a fresh RawMeshData that receives the old vertices
        body = [b for b in lp.body if not (isinstance(b, ast.Expr) and isinstance(b.value, ast.Constant))]
        if not (isinstance(body[0], ast.Expr) and ast.unparse(body[0]) == "self.triangulate()"):
            raise T.TranslateError("loop_subdivision does not start with self.triangulate()")
        rep = [b for b in body[1:] if isinstance(b, ast.For)]
        if len(body) != 2 or len(rep) != 1 or ast.unparse(rep[0].iter) != "range(n)":
            raise T.TranslateError("loop_subdivision: expected `self.triangulate()` followed by one `for _ in range(n)`")
        inner = call_names(rep[0].body)
        if not (inner[0] == "newMeshData=RawMeshData()" and inner[1] == "newMeshData.vertices+=self.mesh.vertices"
                and inner[-1] == "self.mesh=newMeshData" and el in ast.walk(rep[0])):
            raise T.TranslateError(f"loop_subdivision pass: unexpected statement order {inner[:2]}..{inner[-1:]}")
        q3b = call_names(q3.body)
        if q3b[0] != "self.triangulate()" or q3b[-1] != "self.mesh=newMeshData":
            raise T.TranslateError("subdivide_triangles_3quads: expected triangulate() first and the rebinding last")
        s6 = T.find_def(tree, "SurfaceSubdivision.subdivide_triangles_6")
        s6b = [b for b in s6.body if isinstance(b, ast.For)]
        if len(s6b) != 1 or ast.unparse(s6b[0].iter) != "range(repeat)" or \
                call_names(s6b[0].body) != ["self.subdivide_triangles_3quads()", "self.triangulate()"]:
            raise T.TranslateError("subdivide_triangles_6: expected `for _ in range(repeat): 3quads(); triangulate()`")
        struct["numbering"] = True
        return "running length before append (loop edges, 3quads edges, 3quads barycentres); triangulate first; fresh data per pass"

    def is_reinit(stmt, cls):
        """`self._input.__init__(self.mesh)` or an equivalent spelling"""
        u = ast.unparse(stmt).replace(" ", "")
        return u in ("self._input.__init__(self.mesh)", f"{cls}.__init__(self._input,self.mesh)",
                     "type(self._input).__init__(self._input,self.mesh)")

    def site_block():
        for cls, mesh_cls, clears in (("SurfaceSubdivision", "SurfaceMesh", ["face_corners"]),
                                     ("VolumeSubdivision", "VolumeMesh", ["face_corners", "cell_corners", "cell_faces"])):
            en = call_names(T.find_def(tree, f"{cls}.__enter__").body)
            ex = [b for b in T.find_def(tree, f"{cls}.__exit__").body if not (isinstance(b, ast.Expr) and isinstance(b.value, ast.Constant))]
            want_clear = [f"self.mesh.{c}.clear()" for c in clears]
            if "self.mesh=RawMeshData(self.mesh)" not in en or en[-1] != "returnself" or \
                    [x for x in en if x.endswith(".clear()")] != want_clear or \
                    en.index("self.mesh=RawMeshData(self.mesh)") > en.index(want_clear[0]):
                raise T.TranslateError(f"{cls}.__enter__: unexpected steps {en}")
            exu = [ast.unparse(b).replace(" ", "") for b in ex]
            if len(ex) != 3 or exu[0] != "self.mesh.prepare()" or not is_reinit(ex[1], mesh_cls) or exu[2] != "self.mesh=self._input":
                raise T.TranslateError(f"{cls}.__exit__: unexpected steps {exu}")
            ini = call_names(T.find_def(tree, f"{cls}.__init__").body)
            if "self._input=mesh" not in ini or "self.mesh=mesh" not in ini:
                raise T.TranslateError(f"{cls}.__init__ does not keep the caller's object")
        se = call_names(T.find_def(tree, "split_edge").body)
        if se[-2:] != ["polyline.connectivity.clear()", "returnpolyline"]:
            raise T.TranslateError("split_edge does not end with connectivity.clear(); return polyline")
        struct["block"] = True
        return "enter: wrap + clear corners; exit: prepare, re-init the caller's object, rebind; split_edge clears connectivity"

    def site_fan_index():
        fan = normalised(T.find_def(tree, "SurfaceSubdivision.split_face_as_fan"))
        loops = [n for n in ast.walk(fan) if isinstance(n, ast.For) and isinstance(n.target, ast.Name) and n.target.id == "k"]
        if len(loops) != 1 or not (isinstance(loops[0].iter, ast.Call) and getattr(loops[0].iter.func, "id", "") == "range"
                                   and len(loops[0].iter.args) == 2):
            raise T.TranslateError("fan loop `for k in range(lo, hi)` not found")
        lo, hi = loops[0].iter.args
        app = loops[0].body[0]
        if not (isinstance(app, ast.Expr) and isinstance(app.value, ast.Call) and ast.unparse(app.value.func) == "self.mesh.faces.append"):
            raise T.TranslateError("fan loop body is not a faces.append")
        tri = app.value.args[0]
        if not (isinstance(tri, ast.List) and len(tri.elts) == 3 and all(isinstance(e, ast.Subscript) and ast.unparse(e.value) == "f" for e in tri.elts[:2])
                and ast.unparse(tri.elts[2]) == "iV"):
            raise T.TranslateError("fan triangle is not [f[..], f[..], iV]")
        first = [n for n in ast.walk(fan) if isinstance(n, ast.Assign) and isinstance(n.targets[0], ast.Subscript)
                 and ast.unparse(n.targets[0].value) == "self.mesh.faces"]
        if len(first) != 1 or ast.unparse(first[0].value).replace(" ", "") != "[f[0],f[1],iV]":
            raise T.TranslateError("first fan triangle is not [f[0], f[1], iV]")
        struct["fan"] = (T.lean_int_expr(lo), T.lean_int_expr(hi), T.lean_int_expr(tri.elts[0].slice), T.lean_int_expr(tri.elts[1].slice))
        return f"range({ast.unparse(lo)}, {ast.unparse(hi)}) -> [f[{ast.unparse(tri.elts[0].slice)}], f[{ast.unparse(tri.elts[1].slice)}], iV]"

    def site_numbering():            # noqa: F811  (round 4: superseded by the translated bodies, which say much more)
        need = ["SurfaceSubdivision.loop_subdivision", "SurfaceSubdivision.subdivide_triangles_3quads", "SurfaceSubdivision.subdivide_triangles_6"]
        miss = [q for q in need if q not in translated_bodies]
        if miss: raise T.TranslateError(f"bodies not translated: {miss}")
        struct["numbering"] = True
        return "numbering / pass order: carried by the translated bodies of loop_subdivision, 3quads, 1->6 (bridges in Props/C13Source)"

    def site_block():                # noqa: F811
        need = [f"{c}.{m_}" for c in ("SurfaceSubdivision", "VolumeSubdivision") for m_ in ("__init__", "__enter__", "__exit__")] + ["split_edge"]
        miss = [q for q in need if q not in translated_bodies]
        if miss: raise T.TranslateError(f"not translated: {miss}")
        struct["block"] = True
        return "enter / exit / init steps: carried by the translated step lists (enter_follows_source, exit_follows_source, init_follows_source)"

    for nm, fn in [("subdivision.py: loop_subdivision new_tri/new_edge tables", site_loop),
                   ("subdivision.py: subdivide_triangles_3quads new_face/new_edge tables", site_q3),
                   ("subdivision.py: triangulate_face quad cut", site_quad),
                   ("subdivision.py: split_cell_as_fan cells", site_cfan),
                   ("subdivision.py: split_tet_from_face_center faces", site_fsp),
                   ("subdivision.py: centre expressions (divisors) of fan / 3quads / loop / split_edge / cell fan / face split", site_centres),
                   ("subdivision.py: new-vertex numbering and operation order of loop_subdivision / 3quads / 1->6", site_numbering),
                   ("subdivision.py: __init__/__enter__/__exit__ of both editors, tail of split_edge", site_block),
                   ("subdivision.py: split_face_as_fan range and index expressions", site_fan_index)]:
        recs.append(T.site(nm, fn))
    # always write a file (missing tables become empty so that the bridge lemmas fail rather than the build of the import)
    order = ["loopTris", "loopEdges", "loopLookups", "quads", "quadEdges", "quadLookups", "quadUnpack", "quadSet", "quadAppend", "quadDiagonal",
             "cellUnpack", "cellSet", "cellAppend", "faceUnpack", "faceSet", "faceAppend"]
    body = "namespace Mouette.Generated.C13\n\ninductive Sym where\n  " + " ".join("| " + s for s in SYMS) + "\nderiving DecidableEq, Repr\n\n"
    for k in order:
        v = defs.get(k, [])
        depth2 = k in ("loopTris", "loopEdges", "loopLookups", "quads", "quadEdges", "quadLookups", "quadAppend", "cellAppend", "faceAppend")
        ty = "List (List Sym)" if depth2 else "List Sym"
        body += f"def {k} : {ty} := {lean(v)}\n"
    body += "\nend Mouette.Generated.C13\n"
    T.write_generated("C13Tables", body)
    # second generated file: centres, numbering, block steps, fan index expressions
    b2 = ("namespace Mouette.Generated.C13\n\n/-- how a centre is computed from the sum of the points -/\n"
          "inductive Divisor where\n  | len | const (k : Nat) | scale (num den : Nat)\nderiving DecidableEq, Repr\n\n")
    for k in ("fanDivisor", "quadsBaryDivisor", "quadsMidDivisor", "loopMidDivisor", "edgeMidDivisor", "cellDivisor", "faceCentreDivisor"):
        b2 += f"def {k} : Divisor := {lean_div(struct[k]) if k in struct else '.const 0'}\n"
    b2 += ("\n/-- the tables `half` / `bary` store the length of the new vertex container taken before the append, "
           "refinements triangulate first and work on fresh data per pass -/\n"
           f"def numberingIsRunningLength : Bool := {'true' if struct.get('numbering') else 'false'}\n"
           "/-- enter = wrap + clear corners; exit = prepare, re-initialise the caller's object, rebind -/\n"
           f"def blockStepsAsModelled : Bool := {'true' if struct.get('block') else 'false'}\n\n")
    lo, hi, i0, i1 = struct.get("fan", ("0", "0", "0", "0"))
    b2 += (f"def fanLo : Nat := {lo}\ndef fanHi (nf : Nat) : Nat := {hi}\n"
           f"def fanFst (k nf : Nat) : Nat := {i0}\ndef fanSnd (k nf : Nat) : Nat := {i1}\n")
    b2 += "\nend Mouette.Generated.C13\n"
    T.write_generated("C13Struct", b2)
    recs += recs_bodies
    return recs


# ------------------------------------------------------------------------------------------------
# which functions of the anchor files are inside the model, and how
# ------------------------------------------------------------------------------------------------
_SUB, _MD, _MESH = "mouette/mesh/subdivision.py", "mouette/mesh/mesh_data.py", "mouette/mesh/mesh.py"
# functions whose body is translated on every run and used by a bridge theorem of Props/C13Source.lean (qualified name -> bridge)
_TRANSLATED = {
    f"{_SUB}::split_edge": "split_edge_follows_source",
    f"{_SUB}::SurfaceSubdivision.__init__": "init_follows_source",
    f"{_SUB}::SurfaceSubdivision.__enter__": "enter_follows_source",
    f"{_SUB}::SurfaceSubdivision.__exit__": "exit_follows_source",
    f"{_SUB}::SurfaceSubdivision.triangulate_face": "triangulate_face_follows_source",
    f"{_SUB}::SurfaceSubdivision.split_face_as_fan": "split_face_as_fan_follows_source",
    f"{_SUB}::SurfaceSubdivision.triangulate": "triangulate_follows_source",
    f"{_SUB}::SurfaceSubdivision.loop_subdivision": "loop_subdivision_follows_source",
    f"{_SUB}::SurfaceSubdivision.subdivide_triangles_6": "subdivide_triangles_6_follows_source",
    f"{_SUB}::SurfaceSubdivision.subdivide_triangles_3quads": "subdivide_triangles_3quads_follows_source",
    f"{_SUB}::VolumeSubdivision.__init__": "init_follows_source",
    f"{_SUB}::VolumeSubdivision.__enter__": "enter_follows_source",
    f"{_SUB}::VolumeSubdivision.__exit__": "exit_follows_source",
    f"{_SUB}::VolumeSubdivision.split_cell_as_fan": "split_cell_as_fan_follows_source",
    f"{_SUB}::VolumeSubdivision.split_tet_from_face_center": "split_tet_from_face_center_follows_source",
    f"{_SUB}::split_double_boundary_edges_triangles": "split_double_boundary_follows_source",
    f"{_MD}::RawMeshData.id_vertices": "id_ranges_follow_source",
    f"{_MD}::RawMeshData.id_edges": "id_ranges_follow_source",
    f"{_MD}::RawMeshData.id_faces": "id_ranges_follow_source",
    f"{_MD}::RawMeshData.id_cells": "id_ranges_follow_source",
}
_OTHER = {
    f"{_MD}::RawMeshData.__init__": "modelled",                      # Block.enter: the wrapper shares the containers
    f"{_MD}::RawMeshData.prepare": "modelled",                       # Subdiv.prepare = completeEdges . completeFaces
    f"{_MD}::RawMeshData._complete_edges_from_faces": "modelled",    # Subdiv.completeEdges
    f"{_MD}::RawMeshData._complete_faces_from_cells": "modelled",    # Subdiv.completeFaces / tetFaces
    f"{_MD}::RawMeshData._prepare_edges": "modelled",                # keyify of the given edges (completeEdges)
    f"{_MD}::RawMeshData._generate_face_corners": "modelled",        # cornerCount / View.corners
    f"{_MD}::RawMeshData._prepare_vertices": "oracle-only",
    f"{_MD}::RawMeshData._prepare_faces": "oracle-only",
    f"{_MD}::RawMeshData._prepare_cells": "oracle-only",
    f"{_MD}::RawMeshData._generate_cell_corners": "oracle-only",
    f"{_MD}::RawMeshData._generate_cell_faces": "oracle-only",
    f"{_MD}::RawMeshData.id_facecorners": "out-of-scope: not used by subdivision.py",
    f"{_MD}::RawMeshData.id_cellcorners": "out-of-scope: not used by subdivision.py",
    f"{_MD}::RawMeshData.dimensionality": "out-of-scope: dimensionality of raw data is C02's",
    f"{_MD}::RawMeshData._compute_dimensionality": "out-of-scope: dimensionality of raw data is C02's",
    f"{_MD}::RawMeshData._prepare_edges.is_valid": "out-of-scope: invalid edges are C02's (subdivision never creates one)",
    f"{_MESH}::_instanciate_raw_mesh_data": "out-of-scope: imported by subdivision.py but no longer called (the repaired __exit__ re-initialises the caller's object)",
    f"{_MESH}::load": "out-of-scope: file input is C04's",
    f"{_MESH}::save": "out-of-scope: file output is C04's",
    f"{_MESH}::from_arrays": "out-of-scope: C06",
    f"{_MESH}::copy": "out-of-scope: C06",
    f"{_MESH}::merge": "out-of-scope: C06",
    f"{_MESH}::reorder_vertices": "out-of-scope: C06",
}
SOURCE_MAP = dict({k: "translated" for k in _TRANSLATED}, **_OTHER)


def _refresh_source_map(translated):
    """honest per run: a function whose body could not be read this time falls back to `modelled` (hand model + correspondence)"""
    ok = {q.split(".")[-1] if q.startswith("RawMeshData.") else q for q in translated}
    ok |= {q for q in translated}
    for k in _TRANSLATED:
        q = k.split("::")[1]
        SOURCE_MAP[k] = "translated" if (q in ok) else "modelled"
