"""C08 — discrete differential operators satisfy their defining identities."""
import math, random
from collections import defaultdict
from fractions import Fraction as Fr

import numpy as np

import ast

from ..gen import mesh as G
from ..gen import geomutil as U
from .. import translate as T

PID = "C08"
TITLE = "Discrete differential operators satisfy their defining identities"
# bridges Generated.C08Src.f ~ Model.Ops.f (Props/C08Source.lean) per function translated from its BODY on every run
BRIDGES = {
    "mouette/operators/mass.py::area_weight_matrix": ["mass_inner", "mass_outer", "area_weight_matrix_bridge", "mass_tail_order"],
    "mouette/operators/mass.py::volume_weight_matrix": ["volume_weight_matrix_bridge"],
    "mouette/operators/mass.py::area_weight_matrix_faces": ["area_weight_matrix_faces_bridge"],
    "mouette/operators/mass.py::volume_weight_matrix_cells": ["volume_weight_matrix_cells_bridge"],
    "mouette/operators/mass.py::area_weight_matrix_edges": ["area_weight_matrix_edges_at"],
    "mouette/operators/adjacency.py::adjacency_matrix": ["pair_writes_block", "pair_writes_get", "pair_writes_range_get", "adjacencyAux_get", "adjacency_matrix_modes"],
    "mouette/operators/adjacency.py::vertex_to_edge_operator": ["vertex_to_edge_fold", "vertex_to_edge_operator_bridge"],
    "mouette/operators/adjacency.py::vertex_to_face_operator": ["row_writes", "toFun_row", "vertex_to_face_fold", "vertex_to_face_operator_bridge"],
    # whole bodies translated by C18's translator (vlib/gen/c18ltranslate.py -> Generated/C18Src.lean, re-run by this check too); bridged HERE to this
    # property's model: scalar branch of `laplacian` = Ops.laplacian w faces (triplet by triplet), rows of Nabla of `laplacian_triangles` = Ops.nablaRow
    "mouette/operators/laplacian_op.py::laplacian": ["laplacian_source_scalar_flat", "laplacian_source_scalar_aux", "laplacian_source_scalar"],
    "mouette/operators/laplacian_op.py::laplacian_triangles": ["nablaRows_flat", "pairRow_real", "laplacian_triangles_source_rows"],
}
LEAN_MODULES = ["Mouette.Props.C08", "Mouette.Props.C08Source"]
REQUIRED_THEOREMS = [
    "toFun_append", "edgeBlock_eq_stiffEntry", "lap_eq_stiffness", "lap_symmetric", "lap_row_sums_zero", "lap_quad",
    "blocks_symmetric", "blocks_row_sums_zero", "gramRow_nabla_eq_edgeBlock", "dualLap_symmetric", "dualLap_row_sums_zero",
    "volLap_symmetric", "volLap_row_sums_zero", "blocks_quad_nonneg", "lapEdges_block", "lapEdges_symmetric", "lapEdges_row_sums_zero", "lapTet_row_sums_zero", "graphLap_eq_D_sub_A", "graphLap_symmetric", "graphLap_row_sums_zero", "adjacency_symmetric",
    "adjacency_entries", "vertexToEdge_column", "vertexToFace_entries", "mass_diagonal", "mass_nonneg", "mass_total",
    "mass_pos", "mass_total_triangles", "mass_total_tets", "diagMass_total", "massEdges_total", "edgeFaceIncidence_of_manifold", "massEdges_total_of_manifold", "directFace_eq_iff", "edgeFaceList_in_range", "massEdges_total_le_partial", "massEdges_diagonal", "rowSum_eq_sum_toFun",
    "hatGrad_partition", "grad_affine", "grad_dot_eq_cot", "grad_coords", "oppLocal_is_corner", "oppLocal_bridge", "lapLoop_bridge", "lapWrites_perm", "lapWrites_bridge",
] + sorted({t for ts in BRIDGES.values() for t in ts})
TRUSTED = [
    "Lean 4.33.0 kernel; axioms ⊆ {propext, Classical.choice, Quot.sound}",
    "hand-written model Mouette/Model/Operators.lean tied to mouette/operators/*.py by the dense matrix correspondence of this run "
    "(structure exact, values at 1e-9*scale+1e-12)",
    "scipy.sparse semantics: csc_matrix((vals,(rows,cols))) sums duplicates; lil assignment; @ is the matrix product; diags",
    "translator vlib/gen/c07_translate.py (python ast) for the assembly loops of mass.py listed as `translated` in SOURCE_MAP",
    "floating-point rounding, sqrt, atan2 are not modelled; cotangents/areas/lengths are evaluated by the harness from the model's exact "
    "(cross², dot) pairs / squared areas / squared lengths",
    "edge numbering (mesh.edges) is taken from the implementation; mesh connectivity queries are modelled by direct inspection of the face list",
    "translator (python ast) for the index expressions of cotan_edge_diagonal and the loop table of laplacian",
]
ASSUMPTIONS = ["agreement model/implementation is established on the meshes explored in this run only",
               "inputs are non-degenerate oriented manifold triangulations without isolated vertices (min corner sine ≥ 0.05, |cot a + cot b| of "
               "interior edges either exactly 0 or ≥ 1e-3), conforming tetrahedral meshes, polylines without repeated edges"]
RULE = ("random oriented manifold triangulations with and without border (disks, annuli, tori, spheres, genus 2, holes, two components), "
        "tetrahedral meshes of all orientations, polylines; EVERY operator and EVERY option (cotan/uniform, inverse, sqrt, oriented, weights "
        "one/length/dict, complex/real gradient) is evaluated on each case; non-trivial = distinct mesh on which all matrices were compared with the model")
MIN_SIN = 0.05


# =================================================================================================
# implementation observation
# =================================================================================================
def _sp(M):
    """scipy sparse / ndarray -> {'shape','ijv'} with duplicates summed; complex values as [re, im]"""
    import scipy.sparse as sp
    M = sp.coo_matrix(M)
    M.sum_duplicates()
    cplx = np.iscomplexobj(M.data)
    ijv = []
    for i, j, v in zip(M.row.tolist(), M.col.tolist(), M.data.tolist()):
        ijv.append([int(i), int(j), [v.real, v.imag] if cplx else float(v)])
    return {"shape": [int(M.shape[0]), int(M.shape[1])], "ijv": ijv, "complex": bool(cplx)}


def _try(fn):
    try:
        return _sp(fn())
    except Exception as e:  # noqa
        return f"err:Other({type(e).__name__})"


FORMATS = ["csr", "coo", "lil", "dia"]


def observe(kind, V, X, extra, rep="vec", mesh=None, mutate=False):
    """all operators with all options on one mesh. `mesh`: build on this (already used) mesh object; `mutate`: after converting each
    returned matrix to a value record, overwrite its stored coefficients in place (a later build must not see that)."""
    import mouette as M
    O = M.operators
    out = {}
    m = mesh if mesh is not None else U.build_mesh(kind, V, X, rep)
    nV0 = len(m.vertices)
    V_before = [[float(c) for c in m.vertices[i]] for i in range(nV0)]

    def _try(fn):
        try:
            Mx = fn()
            rec = _sp(Mx)
            if mutate:
                try:
                    if hasattr(Mx, "data") and isinstance(Mx.data, np.ndarray): Mx.data[...] = 12345.0
                    else:
                        Mx[0, 0] = 12345.0
                except Exception:  # noqa
                    pass
            return rec
        except Exception as e:  # noqa
            return f"err:Other({type(e).__name__})"
    E = [(int(a), int(b)) for a, b in m.edges]
    out["E"] = [list(e) for e in E]
    out["glap"] = _try(lambda: O.graph_laplacian(m))
    out["adj_one"] = _try(lambda: O.adjacency_matrix(m))
    out["adj_len"] = _try(lambda: O.adjacency_matrix(m, weights="length"))
    # the weight dict is filled in a scrambled (but deterministic) key order: a dict is a map from edge id to weight,
    # its insertion order must not matter
    order = sorted(range(len(E)), key=lambda e: (e * 7919 + 13) % max(1, len(E) + 3))
    wd = {e: float(extra["ew"][e % len(extra["ew"])]) for e in order}
    out["adj_dict"] = _try(lambda: O.adjacency_matrix(m, weights=wd))
    out["v2e"] = _try(lambda: O.vertex_to_edge_operator(m))
    out["v2e_or"] = _try(lambda: O.vertex_to_edge_operator(m, oriented=True))
    def done():
        if [[float(c) for c in m.vertices[i]] for i in range(nV0)] != V_before: out["_alias"] = ["mesh:vertex-coordinates-modified"]
        return out
    if kind == "poly":
        return done()
    if kind == "vol":
        out["vlap"] = _try(lambda: O.volume_laplacian(m))
        out["ltet"] = _try(lambda: O.laplacian_tetrahedra(m))
        for inv in (False, True):
            for sq in (False, True):
                out[f"vm_{int(inv)}{int(sq)}"] = _try(lambda: O.volume_weight_matrix(m, inverse=inv, sqrt=sq))
                out[f"vmc_{int(inv)}{int(sq)}"] = _try(lambda: O.volume_weight_matrix_cells(m, inverse=inv, sqrt=sq))
        for fmt in FORMATS:
            out[f"vm_fmt_{fmt}"] = _try(lambda: O.volume_weight_matrix(m, format=fmt))
            out[f"vmc_fmt_{fmt}"] = _try(lambda: O.volume_weight_matrix_cells(m, format=fmt))
        return done()
    out["lap_cot"] = _try(lambda: O.laplacian(m, cotan=True))
    out["lap_uni"] = _try(lambda: O.laplacian(m, cotan=False))
    out["ced_inv"] = _try(lambda: O.cotan_edge_diagonal(m, inverse=True))
    out["ced"] = _try(lambda: O.cotan_edge_diagonal(m, inverse=False))
    out["ltri_cot"] = _try(lambda: O.laplacian_triangles(m, cotan=True))
    out["ltri_uni"] = _try(lambda: O.laplacian_triangles(m, cotan=False))
    out["ledg_cot"] = _try(lambda: O.laplacian_edges(m, cotan=True))
    out["ledg_uni"] = _try(lambda: O.laplacian_edges(m, cotan=False))
    try:
        conn = M.processing.SurfaceConnectionFaces(m)
        out["grad_c"] = _try(lambda: O.gradient(m, conn, as_complex=True))
        out["grad_r"] = _try(lambda: O.gradient(m, conn, as_complex=False))
        out["bases"] = [[float(c) for c in conn.base(t)[0]] + [float(c) for c in conn.base(t)[1]] for t in range(len(X))]
    except Exception as e:  # noqa
        out["grad_c"] = out["grad_r"] = f"err:Other({type(e).__name__})"
        out["bases"] = None
    for inv in (False, True):
        for sq in (False, True):
            out[f"am_{int(inv)}{int(sq)}"] = _try(lambda: O.area_weight_matrix(m, inverse=inv, sqrt=sq))
        out[f"amf_{int(inv)}"] = _try(lambda: O.area_weight_matrix_faces(m, inverse=inv))
        out[f"ame_{int(inv)}"] = _try(lambda: O.area_weight_matrix_edges(m, inverse=inv))
    out["v2f"] = _try(lambda: O.vertex_to_face_operator(m))
    for fmt in FORMATS:
        out[f"am_fmt_{fmt}"] = _try(lambda: O.area_weight_matrix(m, format=fmt))
        out[f"amf_fmt_{fmt}"] = _try(lambda: O.area_weight_matrix_faces(m, format=fmt))
    # connection Laplacian (complex), orders 1 and 4, cotan and uniform: same moduli as the scalar one, Hermitian
    try:
        connv = M.processing.SurfaceConnectionVertices(m)
        for order in (1, 4):
            out[f"lapc_cot_{order}"] = _try(lambda: O.laplacian(m, cotan=True, connection=connv, order=order))
        out["lapc_uni_4"] = _try(lambda: O.laplacian(m, cotan=False, connection=connv, order=4))
    except Exception as e:  # noqa
        out["lapc_cot_1"] = out["lapc_cot_4"] = out["lapc_uni_4"] = f"err:Other({type(e).__name__})"
    return done()


_CACHE = {}


def impl_observe(case):
    obs = observe(case["t"], case["V"], case["X"], case["extra"], rep=case.get("rep", "vec"))
    _CACHE.clear(); _CACHE["case"] = case; _CACHE["obs"] = obs
    return obs


def _obs(case):
    if _CACHE.get("case") is case: return _CACHE["obs"]
    return impl_observe(case)


def dense(o):
    """observation record -> numpy array"""
    A = np.zeros(o["shape"], dtype=complex if o.get("complex") else float)
    for i, j, v in o["ijv"]:
        A[i, j] += complex(v[0], v[1]) if o.get("complex") else v
    return A


# =================================================================================================
# helpers: exact geometry
# =================================================================================================
def _cot(a, b, c):
    u, v = U.vsub(a, b), U.vsub(c, b)
    return float(U.vdot(u, v)) / U.fsqrt(U.vnorm2(U.vcross(u, v)))


def _area(a, b, c):
    return U.fsqrt(U.vnorm2(U.vcross(U.vsub(b, a), U.vsub(c, a)))) / 2


_TOL = {"f": 1.0}     # float32 coordinates are processed in float32 arithmetic


def _set_tol(case):
    _TOL["f"] = 2e4 if case.get("rep") == "float32" else 1.0


def _cmp(name, got, exp, cond=1.0):
    """None or message; got/exp numpy arrays"""
    cond = cond * _TOL["f"]
    if got.shape != exp.shape:
        return f"{name}: shape {got.shape} vs expected {exp.shape}"
    if exp.size == 0: return None
    scale = max(1.0, float(np.max(np.abs(exp)))) * cond
    d = np.abs(got - exp)
    if not np.all(np.isfinite(got)) or float(np.max(d)) > 1e-9 * scale + 1e-12:
        k = np.unravel_index(int(np.argmax(np.where(np.isfinite(d), d, np.inf))), d.shape)
        return f"{name}[{k[0]},{k[1]}]: {got[k]} vs expected {exp[k]}"
    return None


def _block(A, i, j, v):
    A[i, i] += v; A[j, j] += v; A[i, j] -= v; A[j, i] -= v


def _sym_rows(name, A, cond=1.0):
    msgs = []
    if A.shape[0] != A.shape[1]:
        return [("shape", f"{name} is not square: {A.shape}")]
    if A.size == 0: return msgs
    scale = max(1.0, float(np.max(np.abs(A)))) * cond * _TOL["f"]
    if float(np.max(np.abs(A - A.conj().T))) > 1e-9 * scale:
        msgs.append(("symmetric", f"{name} is not symmetric: max |A-A^T| = {float(np.max(np.abs(A - A.T)))}"))
    rs = np.abs(A.sum(axis=1))
    if float(np.max(rs)) > 1e-9 * scale * max(1, A.shape[0]) ** 0.5:
        msgs.append(("rowsum", f"{name} has a non-zero row sum: {float(np.max(rs))} at row {int(np.argmax(rs))}"))
    return msgs


# =================================================================================================
# the oracle: identities stated directly on the implementation's matrices
# =================================================================================================
def _finding(key, what, detail=""):
    return {"key": key, "what": what, "detail": str(detail)[:400]}


def _border_tag(case):
    if case["t"] != "surf": return case["t"]
    sides = {(f[i], f[(i + 1) % 3]) for f in case["X"] for i in range(3)}
    return "border" if any((b, a) not in sides for (a, b) in sides) else "closed"


def _cmp_rec(key, a, b, cond):
    """compare two observation records (or error strings) by value"""
    if isinstance(a, str) or isinstance(b, str):
        return None if a == b else f"{key}: {a if isinstance(a, str) else 'matrix'} vs {b if isinstance(b, str) else 'matrix'}"
    return _cmp(key, dense(a), dense(b), cond)


def _history(case):
    """HISTORIES ON ONE MESH OBJECT: operators built a second time on a used mesh (after the first results were overwritten in place)
    and a third time after the mesh was transformed equal the operators of a fresh mesh."""
    from .c07 import _apply_move, CACHES, PRESERVED, drop_caches
    out = []
    kind, V, X, extra, h = case["t"], case["V"], case["X"], case["extra"], case["hist"]
    rep = case.get("rep", "vec")
    fresh = _obs(case)
    m = U.build_mesh(kind, V, X, rep)
    observe(kind, V, X, extra, mesh=m, mutate=True)
    # STATE SHARED BETWEEN INSTANCES: all operators of ANOTHER mesh are built in between; nothing may change for this one
    from .c07 import DECOY
    dV, dX = DECOY[kind]
    if kind == "surf": dX = [f for f in dX if len(f) == 3]
    observe(kind, dV, dX, extra, mutate=True)
    o2 = observe(kind, V, X, extra, mesh=m)
    for key, rec in o2.items():
        if key in ("E", "bases", "_alias") or key not in fresh: continue
        msg = _cmp_rec(key, rec, fresh[key], COND.get(key, 10.0))
        if msg:
            out.append(_finding(f"C08/history/second-build/{key}", f"{key}: built a second time on the same mesh (first result overwritten in place by the caller) "
                                "differs from the operator of a fresh mesh", msg))
    if o2.get("_alias"): out.append(_finding("C08/alias/vertex-coordinates-modified", "building the operators modified the vertex coordinates", ""))
    _apply_move(m, h["move"])
    V3 = [[float(c) for c in m.vertices[i]] for i in range(len(V))]
    # the operators only READ the name-keyed caches ('cotan', 'area', 'volume', vertex 'normals' + corner 'angles' for the connection):
    # by design a move does not invalidate them; the caller drops those the move did not preserve (public container API)
    dropped = set(CACHES) - PRESERVED[h["move"]["kind"]]
    drop_caches(m, dropped)
    o3 = observe(kind, V3, X, extra, mesh=m)
    f3 = observe(kind, V3, X, extra)
    for key, rec in o3.items():
        if key in ("E", "bases", "_alias") or key not in f3: continue
        msg = _cmp_rec(key, rec, f3[key], COND.get(key, 10.0) * 10)
        if msg:
            out.append(_finding(f"C08/history/after-move/{key}", f"{key}: rebuilt after the mesh was transformed (caches not preserved by the move dropped by the "
                                "caller), differs from the operator of a fresh mesh", f"move {h['move']} dropped {sorted(dropped)}: {msg}"))
    return out


# =================================================================================================
# scale family: the same mesh at scales 1e-7 .. 1e6.  Every operator is homogeneous in the coordinates (masses ~ s^2, s^3; cotangent /
# uniform / dual / edge Laplacians ~ s^0; gradient ~ 1/s; length-weighted adjacency and the volume Laplacian ~ s), and the options
# inverse / sqrt change the degree to -d, d/2, -d/2.  Compared with a tolerance RELATIVE to the largest entry of the matrix.
# =================================================================================================
SCALES = [1e-7, 1e-4, 1e3, 1e6]
SDEG = {"glap": 0, "adj_one": 0, "adj_len": 1, "adj_dict": 0, "v2e": 0, "v2e_or": 0, "v2f": 0, "ltet": 0, "vlap": 1,
        "lap_cot": 0, "lap_uni": 0, "ced": 0, "ced_inv": 0, "ltri_cot": 0, "ltri_uni": 0, "ledg_cot": 0, "ledg_uni": 0, "grad_c": -1, "grad_r": -1,
        "amf_0": 2, "amf_1": -2, "ame_0": 2, "ame_1": -2}
for _i in (0, 1):
    for _q in (0, 1):
        SDEG[f"am_{_i}{_q}"] = 2 * (-1 if _i else 1) * (0.5 if _q else 1)
        SDEG[f"vm_{_i}{_q}"] = SDEG[f"vmc_{_i}{_q}"] = 3 * (-1 if _i else 1) * (0.5 if _q else 1)
for _f in FORMATS:
    SDEG[f"am_fmt_{_f}"] = SDEG[f"amf_fmt_{_f}"] = 2; SDEG[f"vm_fmt_{_f}"] = SDEG[f"vmc_fmt_{_f}"] = 3
SCALE_RTOL = 1e-7
SCALE_COND = {"lap_cot": 400.0, "ced": 400.0, "ced_inv": 4e5, "ltri_cot": 4e5, "ledg_cot": 400.0, "grad_c": 400.0, "grad_r": 400.0, "vlap": 1e3}
# (direct, inverse) and (direct, sqrt) pairs of one family: inverse * direct = Id, sqrt^2 = direct
MASS_PAIRS = [("am_00", "am_10", "inv"), ("am_01", "am_11", "inv"), ("am_00", "am_01", "sqrt"), ("am_10", "am_11", "sqrt"),
              ("amf_0", "amf_1", "inv"), ("ame_0", "ame_1", "inv"),
              ("vm_00", "vm_10", "inv"), ("vm_01", "vm_11", "inv"), ("vm_00", "vm_01", "sqrt"), ("vm_10", "vm_11", "sqrt"),
              ("vmc_00", "vmc_10", "inv"), ("vmc_01", "vmc_11", "inv"), ("vmc_00", "vmc_01", "sqrt"), ("vmc_10", "vmc_11", "sqrt")]


def _mass_identities(o, where):
    """inverse o direct = Id and (sqrt)^2 = direct, entrywise on the diagonals, relative tolerance"""
    out = []
    for a, b, kind in MASS_PAIRS:
        if a not in o or b not in o or isinstance(o[a], str) or isinstance(o[b], str): continue
        da, db = np.real(np.diag(dense(o[a]))), np.real(np.diag(dense(o[b])))
        if da.shape != db.shape or da.size == 0 or not np.all(da > 0): continue      # shape / positivity are reported by the main clauses
        if kind == "inv":
            bad = ~(np.abs(da * db - 1.0) <= 1e-9)
            what = f"{b} is not the inverse of {a}"
        else:
            bad = ~(np.abs(db * db - da) <= 1e-9 * np.abs(da))
            what = f"{b} squared is not {a}"
        if np.any(bad):
            i = int(np.argmax(bad))
            out.append(_finding(f"C08/mass-identity/{kind}/{b}", what + " (diagonal entry by entry, relative tolerance 1e-9)",
                                f"{where}: entry {i}: {a}={da[i]!r}, {b}={db[i]!r}"))
    return out


def _scale_family(case):
    out = []
    base = _obs(case)
    out += _mass_identities(base, "scale 1")
    for sc in SCALES:
        Vs = [[float(c) * sc for c in p] for p in case["V"]]
        o2 = observe(case["t"], Vs, case["X"], case["extra"], rep=case.get("rep", "vec"))
        out += _mass_identities(o2, f"scale {sc:g}")
        for k, deg in SDEG.items():
            if k not in base or k not in o2: continue
            b, g = base[k], o2[k]
            if isinstance(b, str) or isinstance(g, str):
                if isinstance(g, str) and not isinstance(b, str):
                    out.append(_finding(f"C08/scale/{k}/raises", f"{k} raises on the mesh scaled by a power of ten although it is built at scale 1", f"scale {sc:g}: {g}"))
                continue
            B, Gm = dense(b) * (sc ** deg), dense(g)
            if B.shape != Gm.shape:
                out.append(_finding(f"C08/scale/{k}", f"{k}: shape changes with the scale of the mesh", f"scale {sc:g}")); continue
            if B.size == 0: continue
            mag = float(np.max(np.abs(B)))
            if mag == 0.0 or not np.isfinite(mag): continue
            d = np.abs(Gm - B)
            d = np.where(np.isfinite(d), d, np.inf)
            rel = float(np.max(d)) / mag
            if not (rel <= SCALE_RTOL * SCALE_COND.get(k, 10.0)):
                ij = np.unravel_index(int(np.argmax(d)), d.shape)
                out.append(_finding(f"C08/scale/{k}", f"{k} of the mesh scaled by s is not s^{deg:g} times {k} of the mesh (relative to the largest entry)",
                                    f"scale {sc:g}: entry {ij}: {Gm[ij]!r} vs {B[ij]!r} (relative error {rel:.3g})"))
    return out


# =================================================================================================
# flat family: a planar (z = 0) triangulation handed to `gradient` with the library's FlatConnectionFaces (canonical basis, Y flipped when
# the faces are clockwise), in both orientations, after an in-plane rational rotation: the identities of the statement on that operator
# (gradient of an affine function = its constant tangential gradient, complex and real form; Re(G* A G) = cotangent Laplacian).
# =================================================================================================
def _flat_mesh(fl):
    rng = random.Random(int(fl["seed"]))
    n = int(fl["n"])
    c, s_ = {0: (1.0, 0.0), 1: (0.6, 0.8), 2: (-0.8, 0.6), 3: (0.28, -0.96)}[int(fl["rot"]) % 4]
    P = []
    for i in range(n):
        for j in range(n):
            inner = 0 < i < n - 1 and 0 < j < n - 1
            x = i + (rng.randint(-12, 12) / 64 if inner else 0.0); y = j + (rng.randint(-12, 12) / 64 if inner else 0.0)
            P.append([c * x - s_ * y + float(fl["t"][0]), s_ * x + c * y + float(fl["t"][1]), 0.0])
    F = []
    for i in range(n - 1):
        for j in range(n - 1):
            a, b, cc, d = i * n + j, (i + 1) * n + j, (i + 1) * n + j + 1, i * n + j + 1
            F += [[a, b, cc], [a, cc, d]]
    if fl["cw"]: F = [[f[0], f[2], f[1]] for f in F]
    return P, F


def _flat_family(case):
    import mouette as M
    O = M.operators
    fl = case["flat"]
    P, F = _flat_mesh(fl)
    out = []
    m = U.build_mesh("surf", P, F, "vec")
    try:
        conn = M.processing.FlatConnectionFaces(m)
        Gc = np.asarray(O.gradient(m, conn, as_complex=True).todense())
        Gr = np.asarray(O.gradient(m, conn, as_complex=False).todense())
        L = np.asarray(O.laplacian(m, cotan=True).todense())
        A = np.asarray(O.area_weight_matrix_faces(m).todense())
        bases = [(np.array([float(x) for x in conn.base(t)[0]]), np.array([float(x) for x in conn.base(t)[1]])) for t in range(len(F))]
    except Exception as e:  # noqa
        return [_finding("C08/flat/raises", "gradient with a FlatConnectionFaces raises on a planar triangulation", f"{type(e).__name__}: {e}")]
    a = np.array([float(x) for x in case["extra"]["affine"][:3]]); a[2] = 0.0
    fv = np.array([float(np.dot(a, p)) + float(case["extra"]["affine"][3]) for p in P])
    tol = 1e-9 * max(1.0, float(np.linalg.norm(a))) * 50
    gc, gr = Gc @ fv, Gr @ fv
    for t in range(len(F)):
        X, Y = bases[t]
        pa, pb, pc = (np.array(P[i]) for i in F[t])
        nrm = np.cross(pb - pa, pc - pa)
        if np.dot(np.cross(X, Y), nrm) <= 0:
            out.append(_finding("C08/flat/basis", "the flat connection's basis is not direct w.r.t. the face normal", f"face {t}, clockwise={fl['cw']}")); break
        vc = gc[t].real * X + gc[t].imag * Y
        vr = gr[2 * t] * X + gr[2 * t + 1] * Y
        if np.linalg.norm(vc - a) > tol:
            out.append(_finding("C08/flat/grad-affine/complex", "gradient (complex, flat connection) of an affine function is not its constant gradient",
                                f"face {t}, clockwise={fl['cw']}: {vc} vs {a}")); break
        if np.linalg.norm(vr - a) > tol:
            out.append(_finding("C08/flat/grad-affine/real", "gradient (real, flat connection) of an affine function is not its constant gradient",
                                f"face {t}, clockwise={fl['cw']}: {vr} vs {a}")); break
    D = (Gc.conj().T @ A @ Gc).real - L
    if float(np.max(np.abs(D))) > 1e-9 * 400 * max(1.0, float(np.max(np.abs(L)))):
        out.append(_finding("C08/flat/GAG", "Re(G* . areas . G) with the flat connection is not the cotangent Laplacian", f"max difference {float(np.max(np.abs(D)))}, clockwise={fl['cw']}"))
    return out


def oracle(case):
    out = []
    kind, V, X = case["t"], case["V"], case["X"]
    _set_tol(case)
    obs = _obs(case)
    if case.get("scales"): out += _scale_family(case)
    if case.get("flat"): out += _flat_family(case)
    if obs.get("_alias"): out.append(_finding("C08/alias/vertex-coordinates-modified", "building the operators modified the vertex coordinates", ""))
    if case.get("hist"): out += _history(case)
    # ---- option `format` of the mass matrices: same matrix in every sparse format
    for fam, base in (("am", "am_00"), ("amf", "amf_0"), ("vm", "vm_00"), ("vmc", "vmc_00")):
        for fmt in FORMATS:
            k = f"{fam}_fmt_{fmt}"
            if k in obs and base in obs:
                msg = _cmp_rec(k, obs[k], obs[base], 1.0)
                if msg: out.append(_finding(f"C08/{fam}/format/{fmt}", f"mass matrix with format='{fmt}' differs from the default format", msg))
    # ---- connection (complex) vertex Laplacian: Hermitian, same moduli as the scalar Laplacian (phases only), for every order
    for k, basek in (("lapc_cot_1", "lap_cot"), ("lapc_cot_4", "lap_cot"), ("lapc_uni_4", "lap_uni")):
        if k in obs and basek in obs:
            if isinstance(obs[k], str) or isinstance(obs[basek], str):
                if isinstance(obs[k], str) and not isinstance(obs[basek], str):
                    out.append(_finding(f"C08/{k}/raises", f"{k} raised {obs[k]}", ""))
                continue
            Lc, L0 = dense(obs[k]), dense(obs[basek])
            cnd = COND.get(basek, 10.0)
            if Lc.shape != L0.shape or _cmp(k, Lc, Lc.conj().T, cnd):
                out.append(_finding(f"C08/{k}/hermitian", "connection Laplacian is not Hermitian", _cmp(k, Lc, Lc.conj().T, cnd) or "shape"))
            elif _cmp(k, np.abs(Lc), np.abs(L0), cnd):
                out.append(_finding(f"C08/{k}/moduli", "connection Laplacian does not have the moduli of the scalar Laplacian", _cmp(k, np.abs(Lc), np.abs(L0), cnd)))
    P = [U.fvec(p) for p in V]
    nV = len(V)
    E = [tuple(e) for e in obs["E"]]
    nE = len(E)
    bt = _border_tag(case)

    def add(key, what, detail=""):
        out.append(_finding(f"C08/{key}/{bt}", what, detail))

    def mat(key):
        o = obs.get(key)
        if o is None: return None
        if isinstance(o, str):
            add(f"{key}/raises", f"{key} raised {o}"); return None
        return dense(o)
    # ---- edges are element sides
    want = set()
    if kind == "surf":
        for f in X:
            for i in range(3): want.add(frozenset((f[i], f[(i + 1) % 3])))
    elif kind == "vol":
        for c in X:
            for a in c:
                for b in c:
                    if a != b: want.add(frozenset((a, b)))
    else:
        want = {frozenset(e) for e in X}
    if {frozenset(e) for e in E} != want or len(E) != len(want):
        add("edges-not-sides", "mesh.edges is not the set of element sides"); return out
    elen = [U.fsqrt(U.vnorm2(U.vsub(P[a], P[b]))) for a, b in E]
    # ---- adjacency: exactly one entry per incidence, documented weight
    ew = case["extra"]["ew"]
    for key, wfun in (("adj_one", lambda e: 1.0), ("adj_len", lambda e: elen[e]), ("adj_dict", lambda e: float(ew[e % len(ew)]))):
        A = mat(key)
        if A is None: continue
        exp = np.zeros((nV, nV))
        for e, (a, b) in enumerate(E):
            exp[a, b] += wfun(e); exp[b, a] += wfun(e)
        m = _cmp(key, A, exp)
        if m: add(f"{key}/entries", "adjacency matrix does not have exactly one entry of the documented weight per incidence", m)
        if len(obs[key]["ijv"]) != 2 * nE:
            add(f"{key}/count", "adjacency matrix does not have exactly 2 stored entries per edge", f"{len(obs[key]['ijv'])} vs {2 * nE}")
    # ---- graph laplacian = D - A, symmetric, zero row sums
    Lg = mat("glap")
    if Lg is not None:
        A1 = np.zeros((nV, nV))
        for a, b in E: A1[a, b] += 1; A1[b, a] += 1
        m = _cmp("glap", Lg, np.diag(A1.sum(axis=1)) - A1)
        if m: add("glap/D-A", "graph Laplacian is not degree minus adjacency", m)
        for k, msg in _sym_rows("graph_laplacian", Lg): add(f"glap/{k}", msg)
    # ---- vertex-edge incidence
    for key, orig in (("v2e", 1.0), ("v2e_or", -1.0)):
        A = mat(key)
        if A is None: continue
        exp = np.zeros((nV, nE))
        for e, (a, b) in enumerate(E):
            exp[a, e] += orig; exp[b, e] += 1.0
        m = _cmp(key, A, exp)
        if m: add(f"{key}/entries", "vertex-edge operator does not have the documented entry per incidence", m)
    if kind == "poly":
        return out
    if kind == "vol":
        vols = []
        for c in X:
            a, b, cc, d = (P[i] for i in c)
            vols.append(float(abs(U.det3(U.vsub(b, a), U.vsub(cc, a), U.vsub(d, a))) / 6))
        tot = sum(vols)
        Lv = mat("vlap")
        if Lv is not None:
            for k, msg in _sym_rows("volume_laplacian", Lv, 100.0): add(f"vlap/{k}", msg)
        Lt = mat("ltet")
        if Lt is not None:
            for k, msg in _sym_rows("laplacian_tetrahedra", Lt): add(f"ltet/{k}", msg)
            nC = len(X)
            Ac = np.zeros((nC, nC))
            for i in range(nC):
                for j in range(nC):
                    if i != j and len(set(X[i]) & set(X[j])) == 3: Ac[i, j] = 1
            m = _cmp("ltet", Lt, np.diag(Ac.sum(axis=1)) - Ac)
            if m: add("ltet/D-A", "cell Laplacian is not degree minus adjacency of the dual graph", m)
        base = np.zeros(nV)
        for t, c in enumerate(X):
            for u in c: base[u] += vols[t]
        for inv in (0, 1):
            for sq in (0, 1):
                f = (lambda x: x) if not sq else np.sqrt
                g = (lambda x: x) if not inv else (lambda x: 1 / x)
                for key, vec, mult in ((f"vm_{inv}{sq}", base, 4.0), (f"vmc_{inv}{sq}", np.array(vols), 1.0)):
                    A = mat(key)
                    if A is None: continue
                    _check_mass(add, key, A, g(f(vec)), mult * tot if (not inv and not sq) else None, "volume")
        return out
    # ---------------- triangulated surface
    Fs = X
    nF = len(Fs)
    areas = [_area(*(P[i] for i in f)) for f in Fs]
    tot = sum(areas)
    cot = [[_cot(P[f[k - 1]], P[f[k]], P[f[(k + 1) % 3]]) for k in range(3)] for f in Fs]
    # independently assembled stiffness: Σ_T Σ_edges (cot at the opposite vertex)/2 (e_i - e_j)(e_i - e_j)^T
    K = np.zeros((nV, nV)); Ku = np.zeros((nV, nV))
    for t, f in enumerate(Fs):
        for k in range(3):
            i, j = f[(k + 1) % 3], f[(k + 2) % 3]
            _block(K, i, j, cot[t][k] / 2); _block(Ku, i, j, 0.5)
    cond = 1.0 / MIN_SIN ** 2
    L = mat("lap_cot")
    if L is not None:
        for k, msg in _sym_rows("cotan Laplacian", L, cond): add(f"lap_cot/{k}", msg)
        m = _cmp("lap_cot", L, K, cond)
        if m: add("lap_cot/stiffness", "cotangent Laplacian differs from the independently assembled stiffness matrix", m)
    Lu = mat("lap_uni")
    if Lu is not None:
        for k, msg in _sym_rows("uniform Laplacian", Lu): add(f"lap_uni/{k}", msg)
        m = _cmp("lap_uni", Lu, Ku)
        if m: add("lap_uni/stiffness", "uniform (cotan=False) Laplacian differs from the stiffness matrix with weights 1/2", m)
    # ---- gradient
    Gc, Gr = mat("grad_c"), mat("grad_r")
    if Gc is not None and L is not None:
        A = np.diag(areas)
        m = _cmp("Re(G* A G)", (Gc.conj().T @ A @ Gc).real, K, cond)
        if m: add("grad/GAG", "Re(G* . areas . G) is not the cotangent Laplacian", m)
    if Gr is not None:
        A2 = np.diag([a for a in areas for _ in range(2)])
        m = _cmp("Gr^T A Gr", Gr.T @ A2 @ Gr, K, cond)
        if m: add("grad/GAG-real", "G^T . areas . G (real gradient) is not the cotangent Laplacian", m)
    if Gc is not None and Gr is not None:
        m = _cmp("real vs complex gradient", Gr[0::2] + 1j * Gr[1::2], Gc, cond)
        if m: add("grad/real-vs-complex", "real and complex gradients disagree", m)
    bases = obs.get("bases")
    if Gc is not None and bases:
        a = np.array([float(x) for x in case["extra"]["affine"][:3]]); b0 = float(case["extra"]["affine"][3])
        fv = np.array([float(np.dot(a, V[v])) + b0 for v in range(nV)])
        g = Gc @ fv
        for t, f in enumerate(Fs):
            pa, pb, pc = (np.array(V[i], dtype=float) for i in f)
            n = np.cross(pb - pa, pc - pa); n = n / np.linalg.norm(n)
            Xb, Yb = np.array(bases[t][:3]), np.array(bases[t][3:])
            e9 = 1e-9 * _TOL["f"]
            if abs(np.dot(Xb, Xb) - 1) > e9 or abs(np.dot(Yb, Yb) - 1) > e9 or abs(np.dot(Xb, Yb)) > e9 or np.linalg.norm(np.cross(Xb, Yb) - n) > e9:
                add("grad/basis", "face basis of the connection is not a direct orthonormal tangent basis", f"face {t}"); break
            tang = a - np.dot(a, n) * n
            rec = g[t].real * Xb + g[t].imag * Yb
            if np.linalg.norm(rec - tang) > 1e-9 * _TOL["f"] * cond * max(1.0, np.linalg.norm(a)):
                add("grad/affine", "gradient of an affine function is not its constant tangential gradient", f"face {t}: {rec} vs {tang}"); break
    # ---- mass matrices
    base = np.zeros(nV)
    for t, f in enumerate(Fs):
        for u in f: base[u] += areas[t]
    ebase = np.zeros(nE)
    for e, (a, b) in enumerate(E):
        for t, f in enumerate(Fs):
            if a in f and b in f: ebase[e] += areas[t] / 3
    # premise of the Lean theorem massEdges_total (EdgeFaceIncidence): walking over both sides of every edge meets every face 3 times
    dside = {}
    for t, f in enumerate(Fs):
        for k in range(3): dside.setdefault((f[k], f[(k + 1) % 3]), t)      # direct_face: first face holding the directed side
    met = [0] * nF
    for (a, b) in E:
        for key in ((a, b), (b, a)):
            if key in dside: met[dside[key]] += 1
    if any(m != 3 for m in met):
        raise RuntimeError(f"EdgeFaceIncidence fails on a generated manifold mesh: {met} tag={case.get('tag')}")
    # ... and the natural hypotheses it is derived from (OrientedTriangulation, EdgesAreSides)
    alls = [(f[k], f[(k + 1) % 3]) for f in Fs for k in range(3)]
    ok_tri = all(len(set(f)) == 3 for f in Fs) and len(set(alls)) == len(alls)
    ok_edges = all(E.count(sd) + E.count((sd[1], sd[0])) == 1 for sd in alls)
    if not (ok_tri and ok_edges):
        raise RuntimeError(f"OrientedTriangulation/EdgesAreSides fail on a generated manifold mesh: {ok_tri} {ok_edges} tag={case.get('tag')}")
    for inv in (0, 1):
        g = (lambda x: x) if not inv else (lambda x: 1 / x)
        for sq in (0, 1):
            f_ = (lambda x: x) if not sq else np.sqrt
            A = mat(f"am_{inv}{sq}")
            if A is not None: _check_mass(add, f"am_{inv}{sq}", A, g(f_(base)), 3 * tot if (not inv and not sq) else None, "area")
        A = mat(f"amf_{inv}")
        if A is not None: _check_mass(add, f"amf_{inv}", A, g(np.array(areas)), tot if not inv else None, "area")
        A = mat(f"ame_{inv}")
        if A is not None: _check_mass(add, f"ame_{inv}", A, g(ebase), tot if not inv else None, "area")
    # ---- vertex-face incidence (doc says |V| x |F|, M[v,f]; the code builds |F| x |V|, M[f,v]: either orientation accepted)
    A = mat("v2f")
    if A is not None:
        exp = np.zeros((nF, nV))
        for t, f in enumerate(Fs):
            for v in f: exp[t, v] += 1.0 / len(f)
        ok = (A.shape == exp.shape and _cmp("v2f", A, exp) is None) or (A.shape == exp.T.shape and _cmp("v2f", A, exp.T) is None)
        if not ok: add("v2f/entries", "vertex-face operator does not have exactly one entry 1/len(f) per incidence", _cmp("v2f", A, exp) or "")
    # ---- dual / edge laplacians: symmetric, zero row sums (+ values)
    side = {}
    for t, f in enumerate(Fs):
        for k in range(3): side[(f[k], f[(k + 1) % 3])] = (t, f[(k + 2) % 3])
    dsum = []
    for (a, b) in E:
        s = 0.0
        for key in ((a, b), (b, a)):
            if key in side:
                t, w = side[key]; s += _cot(P[a], P[w], P[b])
        dsum.append(s)
    C = mat("ced")
    if C is not None:
        m = _cmp("ced", C, np.diag(dsum), cond)
        if m: add("ced/values", "cotan_edge_diagonal(inverse=False) is not cot a_e + cot b_e", m)
    dinv = [1e8 if abs(s) < 1e-8 else 1 / s for s in dsum]
    Ci = mat("ced_inv")
    if Ci is not None:
        m = _cmp("ced_inv", Ci, np.diag(dinv), cond * 1e3)
        if m: add("ced_inv/values", "cotan_edge_diagonal(inverse=True) is not 1/(cot a_e + cot b_e)", m)
    for key, w in (("ltri_cot", dinv), ("ltri_uni", [1.0] * nE)):
        Lt = mat(key)
        if Lt is None: continue
        for k, msg in _sym_rows(key, Lt, cond * 1e3): add(f"{key}/{k}", msg)
        exp = np.zeros((nF, nF))
        for e, (a, b) in enumerate(E):
            if (a, b) in side and (b, a) in side: _block(exp, side[(a, b)][0], side[(b, a)][0], w[e])
        m = _cmp(key, Lt, exp, cond * 1e3)
        if m: add(f"{key}/values", "dual-graph Laplacian is not Σ_e w_e (e_T1 - e_T2)(e_T1 - e_T2)^T over interior edges", m)
    for key in ("ledg_cot", "ledg_uni"):
        Le = mat(key)
        if Le is None: continue
        for k, msg in _sym_rows(key, Le, cond): add(f"{key}/{k}", msg)
    seen, res = set(), []
    for f in out:
        if f["key"] not in seen: seen.add(f["key"]); res.append(f)
    return res


def _check_mass(add, key, A, expdiag, total, what):
    n = len(expdiag)
    if A.shape != (n, n):
        add(f"{key}/shape", f"{key}: shape {A.shape} instead of {(n, n)}"); return
    off = A - np.diag(np.diag(A))
    if np.any(off != 0):
        add(f"{key}/diagonal", f"{key} is not diagonal"); return
    d = np.diag(A)
    if not np.all(d > 0):
        add(f"{key}/positive", f"{key} has a non-positive diagonal entry", float(np.min(d))); return
    m = _cmp(key, np.diag(d), np.diag(expdiag), 100.0)
    if m: add(f"{key}/values", f"{key} entries are not the lumped {what}s (with the inverse/sqrt option applied)", m)
    if total is not None and abs(float(d.sum()) - total) > 1e-9 * _TOL["f"] * max(1.0, total):
        add(f"{key}/sum", f"{key} entries do not sum to the stated multiple of the total {what}", f"{float(d.sum())} vs {total}")


# =================================================================================================
# model request / comparison
# =================================================================================================
def _pts(V):
    return " ".join(U.frac_str(c) for p in V for c in p)


def model_request(case):
    obs = _obs(case)
    E = obs["E"]
    V, X = case["V"], case["X"]
    es = (f"{len(E)} " + " ".join(f"{a} {b}" for a, b in E)) if E else "0"
    if case["t"] == "poly":
        return f"poly {len(V)} {_pts(V)} {es}"
    xs = f"{len(X)} " + " ".join(f"{len(x)} " + " ".join(map(str, x)) for x in X)
    return f"{case['t']} {len(V)} {_pts(V)} {xs} {es}"


class _Toks:
    def __init__(self, s): self.t = s.split(); self.i = 0
    def nat(self): self.i += 1; return int(self.t[self.i - 1])
    def int_(self): self.i += 1; return int(self.t[self.i - 1])
    def rat(self): self.i += 1; return Fr(self.t[self.i - 1])
    def rats(self): return [self.rat() for _ in range(self.nat())]
    def nats(self): return [self.nat() for _ in range(self.nat())]
    def trips(self): return [(self.nat(), self.nat(), self.rat()) for _ in range(self.nat())]
    def sents(self): return [(self.nat(), self.nat(), self.int_(), self.nat()) for _ in range(self.nat())]


def _mat_from(shape, trips, val=lambda v: float(v)):
    A = np.zeros(shape)
    for i, j, v in trips:
        if i >= shape[0] or j >= shape[1]: raise ValueError(f"model entry ({i},{j}) outside {shape}")
        A[i, j] += val(v)
    return A


def from_model(case, rep):
    S = {}
    for s in rep.split(" | "):
        name, _, body = s.partition(" "); S[name] = body
    V, X = case["V"], case["X"]
    nV = len(V)
    out = {}
    elen = [U.fsqrt(q) for q in _Toks(S["len2"]).rats()]
    nE = len(elen)
    ew = case["extra"]["ew"]
    out["glap"] = _mat_from((nV, nV), _Toks(S["glap"]).trips())
    adj = _Toks(S["adj"]).trips()
    out["adj_one"] = _mat_from((nV, nV), adj, lambda e: 1.0)
    out["adj_len"] = _mat_from((nV, nV), adj, lambda e: elen[int(e)])
    out["adj_dict"] = _mat_from((nV, nV), adj, lambda e: float(ew[int(e) % len(ew)]))
    v2e = _Toks(S["v2e"]).trips()
    out["v2e_or"] = _mat_from((nV, nE), v2e)
    out["v2e"] = _mat_from((nV, nE), v2e, lambda v: abs(float(v)))
    if case["t"] == "poly": return out
    if case["t"] == "vol":
        vols = [float(q) for q in _Toks(S["vol"]).rats()]
        nC = len(X)
        base = np.diag(_mat_from((nV, nV), _Toks(S["mass"]).trips(), lambda t: vols[int(t)]))
        for inv in (0, 1):
            for sq in (0, 1):
                f = (lambda x: x) if not sq else np.sqrt
                g = (lambda x: x) if not inv else (lambda x: 1 / x)
                out[f"vm_{inv}{sq}"] = np.diag(g(f(base))); out[f"vmc_{inv}{sq}"] = np.diag(g(f(np.array(vols))))
        out["ltet"] = _mat_from((nC, nC), _Toks(S["ltet"]).trips())
        tk = _Toks(S["vlap"]); Lv = np.zeros((nV, nV))
        E = _obs(case)["E"]
        for e in range(tk.nat()):
            om = 0.0
            for _ in range(tk.nat()):
                l2, d, c2 = tk.rat(), tk.rat(), tk.rat()
                om += U.fsqrt(l2) * abs(float(d)) / U.fsqrt(c2) / 6
            _block(Lv, E[e][0], E[e][1], om)
        out["vlap"] = Lv
        return out
    nF = len(X)
    cs = _Toks(S["cs"]).rats()
    cot = [float(cs[2 * k + 1]) / U.fsqrt(cs[2 * k]) for k in range(len(cs) // 2)]
    areas = [U.fsqrt(q) for q in _Toks(S["area2"]).rats()]
    lap = _Toks(S["lap"]).sents()
    out["lap_cot"] = _mat_from((nV, nV), [(i, j, s * cot[c] / 2) for i, j, s, c in lap])
    out["lap_uni"] = _mat_from((nV, nV), [(i, j, s * 0.5) for i, j, s, c in lap])
    tk = _Toks(S["ced"]); dsum = [sum(cot[c] for c in tk.nats()) for _ in range(tk.nat())]
    dinv = [1e8 if abs(s) < 1e-8 else 1 / s for s in dsum]
    out["ced"] = np.diag(dsum); out["ced_inv"] = np.diag(dinv)
    tk = _Toks(S["nab"]); N = np.zeros((nE, nF))
    for e in range(tk.nat()):
        for _ in range(tk.nat()):
            t = tk.nat(); N[e, t] += float(tk.rat())
    out["ltri_cot"] = N.T @ np.diag(dinv) @ N
    out["ltri_uni"] = N.T @ N
    le = _Toks(S["lapE"]).sents()
    out["ledg_cot"] = _mat_from((nE, nE), [(i, j, s * cot[c]) for i, j, s, c in le])
    out["ledg_uni"] = _mat_from((nE, nE), [(i, j, float(s)) for i, j, s, c in le])
    out["v2f"] = _mat_from((nF, nV), _Toks(S["v2f"]).trips())
    base = np.diag(_mat_from((nV, nV), _Toks(S["mass"]).trips(), lambda t: areas[int(t)]))
    ebase = np.diag(_mat_from((nE, nE), _Toks(S["massE"]).trips(), lambda t: areas[int(t)] / 3))
    for inv in (0, 1):
        g = (lambda x: x) if not inv else (lambda x: 1 / x)
        for sq in (0, 1):
            f = (lambda x: x) if not sq else np.sqrt
            out[f"am_{inv}{sq}"] = np.diag(g(f(base)))
        out[f"amf_{inv}"] = np.diag(g(np.array(areas))); out[f"ame_{inv}"] = np.diag(g(ebase))
    tk = _Toks(S["grad"]); Gc = np.zeros((nF, nV), dtype=complex)
    for t in range(tk.nat()):
        lx, n = U.fsqrt(tk.rat()), U.fsqrt(tk.rat())
        for k in range(3):
            ry, rx = float(tk.rat()), float(tk.rat())
            Gc[t, X[t][k]] += complex(ry / (lx * n * n), rx / (lx * n))
    out["grad_c"] = Gc
    Gr = np.zeros((2 * nF, nV)); Gr[0::2] = Gc.real; Gr[1::2] = Gc.imag
    out["grad_r"] = Gr
    return out


COND = {"lap_cot": 400.0, "ced": 400.0, "ced_inv": 4e5, "ltri_cot": 4e5, "ledg_cot": 400.0, "grad_c": 400.0, "grad_r": 400.0, "vlap": 1e3}


def compare(case, model, impl):
    if model.startswith("bad-request") or model.startswith("err:"):
        return f"model rejected the request: {model}"
    exp = from_model(case, model)
    _set_tol(case)
    for key, e in exp.items():
        got = impl.get(key)
        if got is None: return f"implementation observation lacks {key}"
        if isinstance(got, str): return f"{key}: implementation raised {got}, model has a value"
        m = _cmp(key, dense(got), e, COND.get(key, 10.0))
        if m: return m
    return None


# =================================================================================================
# cases
# =================================================================================================
def _well_conditioned(case):
    P = [U.fvec(p) for p in case["V"]]
    if case["t"] == "surf":
        for f in case["X"]:
            if U.min_sin_triangle(P, f) < MIN_SIN: return False
        side = {}
        for t, f in enumerate(case["X"]):
            for k in range(3): side[(f[k], f[(k + 1) % 3])] = f[(k + 2) % 3]
        for (a, b), w in side.items():
            if (b, a) in side and a < b:
                s = _cot(P[a], P[w], P[b]) + _cot(P[b], P[side[(b, a)]], P[a])
                u1, v1 = U.vsub(P[a], P[w]), U.vsub(P[b], P[w]); u2, v2 = U.vsub(P[a], P[side[(b, a)]]), U.vsub(P[b], P[side[(b, a)]])
                exact_zero = (U.vdot(u1, v1) == 0 and U.vdot(u2, v2) == 0)
                if not exact_zero and abs(s) < 1e-3: return False
        return True
    if case["t"] == "vol":
        for c in case["X"]:
            a, b, cc, d = (P[i] for i in c)
            if abs(U.det3(U.vsub(b, a), U.vsub(cc, a), U.vsub(d, a))) < Fr(1, 1000): return False
        # dihedral cotangents finite: face normals of a tet are never parallel; ok
        return True
    es = {frozenset(e) for e in case["X"]}
    return len(es) == len(case["X"]) and all(P[a] != P[b] for a, b in case["X"])


REPS = ["vec", "list", "tuple", "ndarray", "float32", "intlist", "int64", "int32", "int16"]


def _decorate(rng, case):
    case["extra"] = {"ew": [rng.randint(1, 40) / 8 for _ in range(7)],
                     "affine": [rng.randint(-16, 16) / 8 for _ in range(4)]}
    rep = rng.choice(REPS) if rng.random() < 0.5 else "vec"
    if rep in ("intlist", "int64", "int32", "int16"):
        case["V"] = [[float(round(c * 64)) for c in p] for p in case["V"]]
    case["rep"] = rep
    if rng.random() < 0.35:
        sz = max(abs(c) for p in case["V"] for c in p) or 1.0
        mv = {"kind": rng.choice(["translate", "rotate", "scale", "vertex"]), "t": [rng.randint(-24, 24) / 8 for _ in range(3)],
              "s": rng.choice([0.5, 2.0, 4.0]), "q": list(rng.choice(U.QUATS[1:])), "i": rng.randrange(1 << 16),
              "d": [rng.choice([-1, 1]) * sz / 64, rng.choice([-1, 1]) * sz / 128, sz / 64]}
        case["hist"] = {"move": mv}
    if case["rep"] in ("vec", "list", "tuple", "ndarray") and rng.random() < 0.3:
        case["scales"] = True
    if case["t"] == "surf" and rng.random() < 0.2:
        case["flat"] = {"n": rng.choice([3, 4]), "cw": rng.random() < 0.5, "seed": rng.randrange(1 << 20), "rot": rng.randrange(4),
                        "t": [rng.randint(-16, 16) / 8, rng.randint(-16, 16) / 8]}
    return case


def _surface_case(rng, max_faces, closed=None):
    for _ in range(60):
        s = G.random_surface(rng, max_faces=max_faces, tri_only=True, closed=closed)
        case = {"t": "surf", "V": s["V"], "X": s["F"], "tag": s["tag"]}
        if _well_conditioned(case): return case
    V, F = G.grid(rng, 3, 3, tri=True, jitter=False)
    return {"t": "surf", "V": [[float(c) for c in p] for p in V], "X": F, "tag": "fallback-grid"}


def cases(rng, tier):
    n_s, n_v, n_p, mf = (220, 60, 30, 48) if tier == "quick" else (2000, 400, 150, 200)
    for i in range(n_s):
        closed = True if i % 4 == 0 else None
        yield _decorate(rng, _surface_case(rng, rng.choice([4, 10, 24, mf]), closed))
    for i in range(n_v):
        for _ in range(20):
            v = G.random_tets(rng, max_cells=rng.choice([6, 24, 48 if tier == "quick" else 100]), orient=rng.choice(["positive", "negative", "mixed"]))
            case = {"t": "vol", "V": v["V"], "X": v["C"], "tag": v["tag"]}
            if _well_conditioned(case): break
        yield _decorate(rng, case)
    for i in range(n_p):
        for _ in range(20):
            p = G.random_polyline(rng, 20)
            case = {"t": "poly", "V": p["V"], "X": p["E"], "tag": p["tag"]}
            if _well_conditioned(case): break
        yield _decorate(rng, case)


def nontrivial(case, obs):
    return len(case["X"]) >= 1 and len(obs["E"]) >= 1 and not any(isinstance(v, str) for v in obs.values())


def classify(case, obs):
    ks = ["kind:" + case["t"], "tag:" + str(case.get("tag", "")).split("+")[0].split("/")[0], "border:" + _border_tag(case)]
    n = len(case["X"])
    ks.append("size:" + ("1" if n == 1 else "2-8" if n <= 8 else "9-32" if n <= 32 else "33-128" if n <= 128 else ">128"))
    ks += [f"err:{k}" for k, v in obs.items() if isinstance(v, str)]
    ks += [f"op:{k}" for k, v in obs.items() if isinstance(v, dict)]
    ks.append("rep:" + case.get("rep", "vec"))
    if case.get("hist"): ks += ["hist:second-build", "hist:move-" + case["hist"]["move"]["kind"]]
    if case.get("scales"): ks.append("scales:1e-7..1e6")
    if case.get("flat"): ks.append("flat:" + ("cw" if case["flat"]["cw"] else "ccw"))
    return ks


def describe(case):
    return {"t": case["t"], "tag": case.get("tag"), "nV": len(case["V"]), "nX": len(case["X"]), "rep": case.get("rep"), "hist": case.get("hist"),
            "scales": case.get("scales")}


def shrink(case, still):
    cur = case
    X = list(case["X"])
    i = 0
    while i < len(X) and len(X) > 1:
        trial_X = X[:i] + X[i + 1:]
        used = sorted({v for x in trial_X for v in x})
        mp = {o: n for n, o in enumerate(used)}
        t = dict(cur)
        t["V"] = [cur["V"][o] for o in used]
        t["X"] = [[mp[v] for v in x] for x in trial_X]
        ok = False
        try:
            _CACHE.clear()
            ok = still(t)
        except Exception:  # noqa
            ok = False
        if ok: cur = t; X = t["X"]
        else: i += 1
    _CACHE.clear()
    return cur


def search_on_break(rng, broken, mismatches):
    for _ in range(40):
        yield _decorate(rng, _surface_case(rng, 24))
    for _ in range(10):
        v = G.random_tets(rng, 24, "mixed")
        yield _decorate(rng, {"t": "vol", "V": v["V"], "X": v["C"], "tag": v["tag"]})


# =================================================================================================
# translated fragment: the local index of the vertex opposite to an edge in cotan_edge_diagonal
# =================================================================================================
def _stub(ns, failed):
    """Generated file written when a translation site of the CURRENT tree raised: no definitions, only the reasons"""
    why = "\n".join("  " + f["site"] + ": " + str(f.get("detail", "")).replace("-/", "- /")[:300] for f in failed)
    return ("/- STUB: the translator could not read the current source tree; no definition is emitted, so every bridge fails to build.\n"
            + why + "\n-/\nnamespace Mouette.Generated." + ns + "\nend Mouette.Generated." + ns + "\n")


def translate():
    body = ["namespace Mouette.Generated.C08\n"]

    def diag_expr():
        tree, _ = T.load("mouette/operators/laplacian_op.py")
        fn = T.find_def(tree, "cotan_edge_diagonal")
        found = []
        for node in ast.walk(fn):
            if isinstance(node, ast.Assign) and isinstance(node.targets[0], ast.Name) and node.targets[0].id == "w":
                sub = node.value
                if isinstance(sub, ast.Subscript): found.append(T.lean_int_expr(sub.slice))
        if len(found) != 2:
            raise T.TranslateError(f"cotan_edge_diagonal: expected two w = mesh.faces[T][3-u-v], got {found}")
        body.append("/-- `laplacian_op.cotan_edge_diagonal`: local index of the vertex opposite to the edge, on both sides -/\n"
                    f"def oppLocal1 (uT1 vT1 : Nat) : Nat := {found[0]}\n"
                    f"def oppLocal2 (uT2 vT2 : Nat) : Nat := {found[1]}\n\n")
        return str(found)

    def lap_loop():
        """the triple list of the inner loop of `laplacian`: [(p,q,c),(q,r,a),(r,p,b)] as indices into (p,q,r)/(a,b,c)"""
        tree, _ = T.load("mouette/operators/laplacian_op.py")
        fn = T.find_def(tree, "laplacian")
        rows = None
        for node in ast.walk(fn):
            if isinstance(node, ast.For) and isinstance(node.iter, ast.List) and len(node.iter.elts) == 3 \
                    and all(isinstance(e, ast.Tuple) and len(e.elts) == 3 for e in node.iter.elts):
                names = [[x.id for x in e.elts] for e in node.iter.elts]
                vi = {"p": 0, "q": 1, "r": 2}; wi = {"a": 0, "b": 1, "c": 2}
                rows = [[vi[n[0]], vi[n[1]], wi[n[2]]] for n in names]
        if rows is None:
            raise T.TranslateError("laplacian: loop `for (i,j,v) in [(p,q,c),(q,r,a),(r,p,b)]` not found")
        body.append("/-- `laplacian_op.laplacian`: the loop `for (i,j,v) in [...]` as (local vertex i, local vertex j, local corner whose weight is used) -/\n"
                    "def lapLoop : List (Nat × Nat × Nat) := [" + ", ".join(f"({r[0]}, {r[1]}, {r[2]})" for r in rows) + "]\n\n")
        return str(rows)
    def lap_writes():
        """the four coefficient writes per weighted edge in `laplacian` (scalar branch): (row, col, sign) over {i, j}"""
        tree, _ = T.load("mouette/operators/laplacian_op.py")
        fn = T.find_def(tree, "laplacian")
        loop = None
        for node in ast.walk(fn):
            if isinstance(node, ast.For) and isinstance(node.iter, ast.List) and len(node.iter.elts) == 3 \
                    and all(isinstance(e, ast.Tuple) and len(e.elts) == 3 for e in node.iter.elts):
                loop = node
        if loop is None: raise T.TranslateError("laplacian: edge loop not found")
        tn = [e.id for e in loop.target.elts]            # (i, j, v)

        def write(st):
            if not (isinstance(st, ast.Assign) and isinstance(st.targets[0], ast.Tuple) and isinstance(st.value, ast.Tuple) and len(st.value.elts) == 4):
                raise T.TranslateError("laplacian: statement is not `rows[_c], cols[_c], coeffs[_c], _c = r, c, x, _c+1`")
            tg = st.targets[0].elts
            if [getattr(getattr(t, "value", None), "id", getattr(t, "id", None)) for t in tg] != ["rows", "cols", "coeffs", "_c"]:
                raise T.TranslateError("laplacian: unexpected write targets")
            r, c, x, _ = st.value.elts
            sgn = 1
            if isinstance(x, ast.UnaryOp) and isinstance(x.op, ast.USub): sgn, x = -1, x.operand
            if not (isinstance(x, ast.Name) and x.id == tn[2] and isinstance(r, ast.Name) and isinstance(c, ast.Name)):
                raise T.TranslateError("laplacian: coefficient is not ±v or indices are not names")
            return (tn.index(r.id), tn.index(c.id), sgn)
        ws = []
        for st in loop.body:
            if isinstance(st, ast.Assign): ws.append(write(st))
            elif isinstance(st, ast.If):
                if not st.orelse: raise T.TranslateError("laplacian: connection test without scalar branch")
                ws += [write(x) for x in st.orelse]
            else: raise T.TranslateError("laplacian: unexpected statement in the edge loop")
        if len(ws) != 4: raise T.TranslateError(f"laplacian: expected 4 writes per edge in the scalar branch, got {len(ws)}")
        body.append("/-- `laplacian_op.laplacian`, scalar branch: the writes per weighted edge as (row ∈ {0=i,1=j}, col, sign of v) -/\n"
                    "def lapWrites : List (Nat × Nat × Int) := [" + ", ".join(f"({a}, {b}, {c})" for a, b, c in ws) + "]\n\n")
        return str(ws)
    sites = [T.site("laplacian_op.py:laplacian (four coefficient writes per edge)", lap_writes),
             T.site("laplacian_op.py:cotan_edge_diagonal (opposite local index)", diag_expr),
             T.site("laplacian_op.py:laplacian (edge/opposite-corner loop table)", lap_loop)]
    body.append("end Mouette.Generated.C08\n")
    if all(s["ok"] for s in sites):
        T.write_generated("C08Idx", "".join(body))
    else:   # never leave the fragments of an earlier tree on disk: a stub without the definitions (the bridges then fail to build)
        T.write_generated("C08Idx", _stub("C08", [s for s in sites if not s["ok"]]))
    # assembly loops read imperatively (vlib/gen/c07_translate.py) -> Generated/C08Src.lean, bridged in Props/C08Source.lean
    from ..gen import c07_translate as CT
    text, bsites, info = CT.translate_c08()
    if all(s["ok"] for s in bsites):
        T.write_generated("C08Src", text)
    else:
        T.write_generated("C08Src", _stub("C08Src", [s for s in bsites if not s["ok"]]))
    # `laplacian` / `laplacian_triangles`: bodies translated by C18's source translator into Generated/C18Src.lean (it writes a stub itself when a
    # site raises); its laplacian_op sites are reported here, and any other failing site of that file as well (the shared file is then a stub)
    from ..gen import c18stranslate as TRS
    from ..gen import c18ltranslate as _TRL     # noqa: registers the laplacian_op sites in TRS.EXTRA_SITES
    csites = TRS.run()
    bsites += [c for c in csites if ("laplacian_op" in c["site"]) or not c["ok"]]
    return sites + bsites


_OOS = "out-of-scope: "
_LAP = "mouette/operators/laplacian_op.py::"
_CONN = "mouette/processing/connection.py::"
SOURCE_MAP = {k: "translated" for k in BRIDGES}
SOURCE_MAP.update({
    _LAP + "cotan_edge_diagonal": "modelled",
    _LAP + "graph_laplacian": "modelled", _LAP + "graph_laplacian.add": "modelled",
    _LAP + "laplacian_edges": "modelled",
    _LAP + "volume_laplacian": "modelled", _LAP + "laplacian_tetrahedra": "modelled",
    "mouette/operators/gradient_op.py::gradient": "modelled",
    _CONN + "SurfaceConnection.__init__": "oracle-only", _CONN + "SurfaceConnection._initialize": _OOS + "abstract method (body is `pass`)",
    _CONN + "SurfaceConnection.transport": "oracle-only", _CONN + "SurfaceConnection.base": "oracle-only",
    _CONN + "SurfaceConnection.bX": "oracle-only", _CONN + "SurfaceConnection.bY": "oracle-only",
    _CONN + "SurfaceConnection.project": "modelled",                    # face coordinates of the gradient rows (Ops.faceBasis / gradFace)
    _CONN + "SurfaceConnectionFaces.__init__": "oracle-only",
    _CONN + "SurfaceConnectionFaces._initialize": "modelled",            # base rotation towards the first border edge + face basis (Ops.baseRotation, faceBasis)
    _CONN + "SurfaceConnectionVertices.__init__": "oracle-only",
    _CONN + "SurfaceConnectionVertices._initialize": "oracle-only",      # connection Laplacian: Hermitian + moduli clauses on the implementation's matrices
    _CONN + "FlatConnectionVertices.__init__": _OOS + "flat (2-D) connections are not used by the operators of the statement",
    _CONN + "FlatConnectionVertices._initialize": _OOS + "as above", _CONN + "FlatConnectionVertices.transport": _OOS + "as above",
    _CONN + "FlatConnectionVertices.base": _OOS + "as above", _CONN + "FlatConnectionVertices.project": _OOS + "as above",
    _CONN + "FlatConnectionFaces.__init__": "oracle-only", _CONN + "FlatConnectionFaces._initialize": _OOS + "as above",
    _CONN + "FlatConnectionFaces.transport": _OOS + "as above", _CONN + "FlatConnectionFaces.base": "oracle-only",
    _CONN + "FlatConnectionFaces.project": "oracle-only",
    _CONN + "SurfaceConnectionEdges.__init__": _OOS + "edge connections are used by laplacian_edges with a connection, which the statement does not list",
    _CONN + "SurfaceConnectionEdges._initialize": _OOS + "as above",
})


MANIFEST = {
    "level_text": ("Proof. Lean 4 theorems about an executable triplet-list model of mouette's operator assemblies, for ALL meshes (induction "
                   "over the face/edge list) and ALL weight functions: the 12-coefficient vertex Laplacian equals the independently assembled "
                   "stiffness matrix entrywise, is symmetric with zero row sums, its quadratic form is Σ w (x_i - x_j)²; the same for every "
                   "edge-block Laplacian (dual N^T D N, edge, volume, cell); graph Laplacian = degree - adjacency; adjacency / incidence "
                   "entries; lumped masses are non-negative diagonals with total 3·Σarea (4·Σvolume); hat-function gradients: partition of "
                   "unity, gradient of an affine function is its tangential part, ∇φ_i·∇φ_j·|n|² = -(dot at k) i.e. area·∇φ_i·∇φ_j = -cot θ_k/2. "
                   "The model is tied to the Python code by a dense matrix correspondence on generated meshes (all options), and the identities "
                   "are re-checked numerically on the implementation's own matrices by an oracle."),
    "level_note": ("Trusted: Lean kernel + 3 standard axioms; the hand-written model (checked against the code on each run's meshes only); scipy "
                   "sparse semantics; float rounding / sqrt not modelled (tolerance 1e-9*scale+1e-12). volume_laplacian is modelled structurally "
                   "(symmetric, zero row sums); its weights use |cot| of the dihedral angle as coded."),
    "technique": "Lean 4 induction over triplet-list assemblies + ring identities; differential dense-matrix correspondence; identity oracle on the implementation",
}
