"""C05 — attributes are total maps with defaults; sparse and dense storage agree.

A case is one container history  {"n0": initial size, "ops": [...]}  over ONE named attribute; the same
script is replayed on the sparse (`Attribute`) and on the dense (`ArrayAttribute`) storage.

ops (JSON lists):
  ["create", ty, k, dflt|None]   create_attribute("a", ty, k, dense=<mode>, default_value=dflt)
  ["delete"] ["cclear"]          delete_attribute / container.clear()
  ["set", i, val]                a[i] = val       val = ["S", tok] | ["V", [tok, ...]]
  ["get", i]                     a[i]
  ["mut", i, c, tok]             v = a[i]; v[c] = x      (k = 1:  v = a[i]; v += x — rebinding only)
  ["append"] ["extl", n] ["extc", m] ["exts"]     container.append / += list / += other container / += itself
  ["clear"] ["arr"]              a.clear() / a.as_array(len(container))
  ["hold", i]                    h = a[i]; the object stays alive in a handle register (read result observed)
  ["muth", h, c, tok]            held[h][c] = x      in-place update of a value read EARLIER (stale handle) or of a vector
                                 the caller wrote (see setsh)
  ["setfr", i, j]                a[j] = a[i]         (write-side aliasing: the object obtained by reading i is offered to j)
  ["setsh", val, [keys]]         w = Vec(val); for key in keys: a[key] = w      (one caller object written under several keys;
                                 w is registered as a handle so that the caller can update it in place afterwards)
scalar tokens: b:0|1  i:<int>  f:<p/q>  c:<p/q>,<p/q>  s:<chars>   optional suffix @<numpy type name>
"""
import ast, itertools, os
from fractions import Fraction

from .. import translate as T

PID = "C05"
TITLE = "Attributes are total maps with defaults; sparse and dense storage agree"
LEAN_MODULES = ["Mouette.Props.C05", "Mouette.Props.C05Source", "Mouette.Props.C05SourceRun"]
REQUIRED_THEOREMS = [
    "cast_lattice", "gen_canCast_eq", "gen_oobGuard_exact", "gen_zero_eq", "type_table_functional",
    "dense_refines", "sparse_refines", "sparse_dense_agree", "growth_aligned", "read_isolated",
    # round 2: handles that stay alive, write-side aliasing
    "dense_refines_ext", "sparse_refines_ext", "sparse_dense_agree_ext", "read_isolated_ext", "read_isolated_after_writes",
    "caller_vector_isolated", "dense_handle_stale_after_growth", "checkVal_idem", "sparse_dense_agree_ext_eq",
    # round 3: several attributes on one container, delete / re-create, translated resets and growth
    "multi_project", "multi_frame", "multi_refines", "multi_growth_aligned", "recreate_fresh", "gen_storage_eq",
    # round 4: bridges from the BODIES translated imperatively from the working tree (Generated/C05Src.lean)
    "sparseGetitem_bridge", "sparseSetitem_bridge", "checkOutOfBounds_bridge", "denseGetitem_bridge", "denseGetitem_val",
    "denseSetitem_bridge", "expand_bridge", "denseClear_bridge", "sparseClear_bridge", "len_bridge", "denseAsArray_bridge",
    "init_bridge", "toState_grow", "contAppend_bridge", "contAppend_bridge_noattr", "contIadd_bridge", "createAttribute_bridge",
    "createAttribute_warn_irrelevant", "deleteAttribute_bridge", "contClear_bridge", "getAttribute_bridge", "hasAttribute_len_bridge",
    # round 4: ANY number of attributes on one container sharing one heap, over the translated append / +=
    "append_all_attributes", "iadd_all_attributes",
    # round 5: source-level step machine (every operation executed by the translated code) bridged to the hand model, and the history
    # theorems restated about it end to end
    "step_set", "dispGet_spec", "step_get", "step_upd", "step_clear", "step_asArray", "step_noattr", "createAttribute_good",
    "step_create", "step_delete", "step_cclear", "dispatchExpand_good", "grow_some", "step_grow",
    "typeDtype_bridge", "contInit_bridge", "srcInit_by_code", "registerArray_spec2", "registerArray_newaxis", "registerArray_spec", "registerArray_bad_shape",
    "srcStep_bridge", "srcRunObs_bridge", "src_dense_refines", "src_sparse_refines", "src_sparse_dense_agree",
]
TRUSTED = [
    "Lean 4.33.0 kernel; axioms ⊆ {propext, Classical.choice, Quot.sound}",
    "hand-written model Mouette/Model/Attr.lean (heap of vector/matrix cells, dict as insertion-ordered assoc list) tied to "
    "mouette/mesh/mesh_attributes.py + data_container.py by the per-operation trace correspondence of this run",
    "translator vlib/props/c05.py: cast pairs, Type multi-value table, default values, dense bounds guard are read from the source "
    "with Python ast; [round 4] translator vlib/gen/c05_translate.py: the BODIES of 26 functions of mesh_attributes.py / "
    "data_container.py (both __init__, __getitem__, __setitem__, _expand, clear, __len__, dense as_array, the default_value "
    "property, _check_default_value_type, _check_out_of_bounds; create/delete/get/has_attribute, DataContainer.clear / append / "
    "__iadd__ / __len__) are compiled statement by statement into Generated/C05Src.lean over the vocabulary "
    "Model/AttrSource.lean (meaning of the numpy / dict idioms) and tied to the hand model by bridge theorems "
    "(Props/C05Source.lean); [round 5] the sparse as_array too, and a source-level step machine `srcRun` (Lemmas/AttrSourceRun.lean: every "
    "operation of a script carried out by the translated definitions, the way the harness drives the library) is proved to give the "
    "observations and states of the hand model (srcStep_bridge / srcRunObs_bridge), so that dense_refines / sparse_refines / "
    "sparse_dense_agree are stated about translated code end to end (Props/C05SourceRun.lean); [round 6] register_array_as_attribute "
    "(repaired) is translated too (caller array = a heap object with its dtype facts, `ArrIn`) and specified by registerArray_spec; "
    "[round 7] Type.dtype and the two container constructors are translated: no function of the two anchor files is hand-modelled any more",
    "values are compared after widening to the attribute's type (True == 1 == 1.0 in Python); numpy view/copy rules are "
    "observed from outside (reads followed by in-place item assignment, also through read results kept alive across later "
    "writes / growth / clear, and through vectors the caller wrote)",
    "the entry a read value was obtained from is unconstrained after an in-place update of that value (masked '?') until "
    "it is written again or the attribute is cleared: the statement only constrains the OTHER entries",
]
ASSUMPTIONS = [
    "agreement model/implementation is established on the scripts explored in this run only",
    "sparse storage is not constrained on indices outside the container (the statement names the dense storage only): the "
    "oracle does not apply out-of-range operations to the sparse storage; the model follows the code there",
    "strings shorter than 32 characters (dense dtype <U32), integers within int64, floats dyadic (exact in binary64/32)",
    "a scalar str is never offered to a vector attribute (Python would iterate its characters)",
]
RULE = ("[round 6: family t=reg also offers arrays one row short / one row too many: refused is fine, ACCEPTED must still be a total map "
        "aligned with the container] [round 5: family t=reg — register_array_as_attribute over an existing attribute / on a bare container, (n,) and (n,k) arrays, narrow "
        "dtypes (uint8 / int32 / float32), followed by ordinary operations (oracle-only, dense semantics)] [round 4: both storages must agree on accepting / refusing a custom default of another type] [round 3: several attributes (sparse and dense at once) on one container incl. delete / re-create under the same name "
        "(family t=multi); vector values offered as list / tuple / numpy array / Vec, numpy scalar components, numpy integer "
        "indices, `+=` of lists with repeated elements / tuples / sets] [round 2: plus reads kept alive and updated in place later (hold/muth), a[j] = a[i] (setfr), one caller vector written "
        "under several keys and updated by the caller afterwards (setsh)] random scripts (length <= 14 quick / <= 60 thorough) over 5 types x arity 1-3 x {implicit, custom default}, the same "
        "script replayed on sparse and dense storage and on the model; indices size, size+1, -1 and reads followed by in-place "
        "updates are weighted in; values: exact type, widening, non-castable, wrong arity, heterogeneous vectors, numpy scalar "
        "types; non-trivial = distinct script with an attribute alive, >= 1 accepted write and >= 1 read/export after it; "
        "thorough adds every script of length <= 4 over a 2-element container from a 14-letter alphabet (a test)")

TYPES = ["bool", "int", "float", "complex", "str"]
PYT = {"bool": bool, "int": int, "float": float, "complex": complex, "str": str}
CASTS = {("bool", "int"), ("bool", "float"), ("int", "float")}


def can_cast(a, b):
    return a == b or (a, b) in CASTS


# ------------------------------------------------------------------------------------------------
# scalar tokens
# ------------------------------------------------------------------------------------------------
def _fr(x):
    f = Fraction(x)
    return str(f.numerator) if f.denominator == 1 else f"{f.numerator}/{f.denominator}"


def tok_type(tok):
    return {"b": "bool", "i": "int", "f": "float", "c": "complex", "s": "str"}[tok[0]]


def tok_value(tok):
    """token -> Python object handed to the library"""
    import numpy as np
    body, _, np_t = tok.partition("@")
    kind, payload = body[0], body[2:]
    if kind == "b": v = payload == "1"
    elif kind == "i": v = int(payload)
    elif kind == "f": v = float(Fraction(payload))
    elif kind == "c":
        re, im = payload.split(",")
        v = complex(float(Fraction(re)), float(Fraction(im)))
    else: v = payload
    if np_t:
        v = getattr(np, np_t)(v)
    return v


def mk_value(v):
    """the Python object offered to `a[i] = ...` for a value ["S", tok] | ["V", [tok...], rep?]; rep: how the vector is
    REPRESENTED (list, tuple, numpy array, Vec) — same components"""
    import numpy as np
    if v[0] == "S": return tok_value(v[1])
    comps = [tok_value(t) for t in v[1]]
    rep = v[2] if len(v) > 2 else "list"
    if rep == "tuple": return tuple(comps)
    if rep in ("nd", "vec") and comps and len({tok_type(t) for t in v[1]}) == 1:
        arr = np.array(comps)
        if rep == "vec":
            import mouette as M
            return M.Vec(arr)
        return arr
    return comps


def mk_index(op):
    """the index object: a Python int or (round 3) a numpy integer of the same value"""
    import numpy as np
    d = op[-1] if isinstance(op[-1], dict) else {}
    i = op[1]
    ix = d.get("ix")
    if ix == "np64": return np.int64(i)
    if ix == "np32": return np.int32(i)
    if ix == "npu8" and 0 <= i < 256: return np.uint8(i)
    return i


def canon(ty, x):
    """canonical token of a value read from an attribute of type `ty` (after widening to ty); anomalies stay visible"""
    import numpy as np
    if isinstance(x, (str, np.str_)):
        return "s:" + str(x)
    if isinstance(x, (complex, np.complexfloating)):
        if ty == "complex" or x.imag != 0:
            return f"c:{_fr(float(x.real))},{_fr(float(x.imag))}"
        x = float(x.real)
    if isinstance(x, (bool, np.bool_)): q = Fraction(int(bool(x)))
    elif isinstance(x, (int, np.integer)): q = Fraction(int(x))
    elif isinstance(x, (float, np.floating)): q = Fraction(float(x))
    else: return "other:" + type(x).__name__
    if ty == "bool" and q in (0, 1): return f"b:{int(q)}"
    if ty == "int" and q.denominator == 1: return f"i:{q.numerator}"
    if ty == "float": return "f:" + _fr(q)
    if ty == "complex": return f"c:{_fr(q)},0"
    return ("i:" if q.denominator == 1 else "f:") + _fr(q)   # anomaly: value not representable in ty


def tok_canon(ty, tok):
    """what a stored token reads back as (token widened to ty)"""
    return canon(ty, tok_value(tok.partition("@")[0]))


def canon_read(ty, v):
    import numpy as np
    if isinstance(v, np.ndarray) and v.ndim >= 1:
        return "V " + " ".join([str(len(v))] + [canon(ty, e.item() if hasattr(e, "item") else e) for e in v])
    return "S " + canon(ty, v.item() if hasattr(v, "item") and not isinstance(v, (str,)) else v)


def canon_rows(ty, k, arr):
    import numpy as np
    a = np.asarray(arr).reshape(-1, max(k, 1))
    return [[canon(ty, e.item()) for e in row] for row in a]


def err_token(e):
    n = type(e).__name__
    return {"OutOfBoundsError": "err:OutOfBounds", "TypeNotMatchingError": "err:Type", "InvalidSizeError": "err:Size",
            "DefaultValueTypeDoesNotMatchError": "err:DefaultType", "IndexError": "err:Index", "ValueError": "err:Value",
            "KeyError": "err:Key"}.get(n, f"err:Other({n})")


# ------------------------------------------------------------------------------------------------
# driving the implementation
# ------------------------------------------------------------------------------------------------
class _Run:
    """one replay of a script on the real DataContainer in one storage mode"""

    def __init__(self, n0, dense, bystander=False):
        from mouette.mesh.data_container import DataContainer
        self.DC = DataContainer
        self.c = DataContainer(id="t")
        for j in range(n0):
            self.c.append(j)
        self.dense = dense
        self.ty = None; self.k = None
        self.held = []        # objects obtained by reads / vectors owned by the caller (None: immutable scalar)
        self.by = self.c.create_attribute("bystander", int, 2, dense=True) if bystander else None

    def attr(self):
        return self.c.get_attribute("a")

    def do(self, op):
        """returns the observation token(s) of one op (exceptions mapped)"""
        c = self.c
        kind = op[0]
        try:
            if kind == "create":
                ty, k, d = op[1], op[2], op[3]
                c.create_attribute("a", PYT[ty], k, dense=self.dense, default_value=None if d is None else tok_value(d))
                self.ty, self.k = ty, k
                return "-"
            if kind == "reg":
                # round 5: register_array_as_attribute("a", <(size,k) array>, default_value): the attribute is created FROM an array
                import numpy as np
                ty, k, rows, d = op[1], op[2], op[3], op[4]
                o = op[5] if len(op) > 5 and isinstance(op[5], dict) else {}
                dt = o.get("dtype") or {"bool": "bool_", "int": "int64", "float": "float64", "complex": "complex128", "str": "str_"}[ty]
                arr = np.array([[tok_value(t) for t in r] for r in rows], dtype=("<U8" if dt == "str_" else getattr(np, dt))).reshape(len(rows), k)
                if k == 1 and o.get("flat"): arr = arr[:, 0]
                c.register_array_as_attribute("a", arr, default_value=None if d is None else tok_value(d))
                self.ty, self.k = ty, k
                return "-"
            if kind == "delete":
                c.delete_attribute("a"); return "-"
            if kind == "cclear":
                c.clear(); return "-"
            if kind == "append":
                c.append(len(c)); return "-"
            if kind == "extl":
                new_ = [len(c) + j for j in range(op[1])]
                rep = op[2] if len(op) > 2 else "list"
                if rep == "dups": new_ = [7] * op[1]           # the SAME element several times: still op[1] new elements
                c += tuple(new_) if rep == "tuple" else set(new_) if rep == "set" else new_; return "-"
            if kind == "extc":
                o = self.DC(id="o")
                for j in range(op[1]): o.append(100 + j)
                c += o; return "-"
            if kind == "exts":
                c += c; return "-"
            if kind == "muth":
                if op[1] >= len(self.held): return "err:Index"
                v = self.held[op[1]]
                if v is None: return "-"
                try:
                    v[op[2]] = tok_value(op[3])
                except (OverflowError, TypeError, ValueError):
                    pass
                return "-"
            a = self.attr()
            if kind == "hold":
                import numpy as np
                v = a[op[1]]
                self.held.append(v if isinstance(v, np.ndarray) and v.ndim >= 1 else None)
                return canon_read(self.ty, v)
            if kind == "setfr":
                a[op[2]] = a[op[1]]; return "-"
            if kind == "setsh":
                import numpy as np
                import mouette as M
                v = op[1]
                if v[0] == "S":
                    w = tok_value(v[1]); self.held.append(None)
                else:
                    comps = [tok_value(t) for t in v[1]]
                    if all(tok_type(t) == self.ty for t in v[1]) and comps:
                        w = M.Vec(np.array(comps, dtype=a.type.dtype))     # a Vec of exactly the attribute's dtype and shape
                    else:
                        w = M.Vec(comps)
                    self.held.append(w)
                for key in op[2]:
                    a[key] = w
                return "-"
            if kind == "set":
                a[mk_index(op)] = mk_value(op[2])
                return "-"
            if kind == "get":
                return canon_read(self.ty, a[mk_index(op)])
            if kind == "mut":
                v = a[mk_index(op)]
                if self.k > 1:
                    try:
                        v[op[2]] = tok_value(op[3])
                    except (OverflowError, TypeError, ValueError):
                        pass    # numpy refused to convert x to the dtype of the object read (the sparse dict keeps e.g. a
                                # uint8 vector inside an int attribute): nothing changed, and the updated entry is
                                # unconstrained anyway
                else:
                    try: v += tok_value(op[3])      # immutable scalar: only rebinds the local name (its own
                    except Exception: pass          # arithmetic errors, e.g. uint8 overflow, are not the library's)
                return "-"
            if kind == "clear":
                a.clear(); return "-"
            if kind == "arr":
                rows = canon_rows(self.ty, self.k, a.as_array(len(c)))
                return "A " + str(len(rows)) + " " + str(self.k) + "".join(" " + t for r in rows for t in r)
        except Exception as e:  # noqa
            return err_token(e)
        raise ValueError(f"unknown op {op}")

    def summary(self):
        c = self.c
        if c.has_attribute("a"):
            return f"{len(c)};{len(c.get_attribute('a'))}"
        return f"{len(c)};-"


import contextlib


@contextlib.contextmanager
def _cfg(case):
    """round 4: the library's `config.display_duplicate_attribute_warning` is set as the case says (default: off, as shipped); the
    warning itself is not observed"""
    import warnings
    from mouette import config
    old = config.display_duplicate_attribute_warning
    config.display_duplicate_attribute_warning = bool(case.get("warn"))
    try:
        with warnings.catch_warnings():
            warnings.simplefilter("ignore")
            yield
    finally:
        config.display_duplicate_attribute_warning = old


def _trace(case, dense):
    r = _Run(case["n0"], dense)
    recs = []
    for op in case["ops"]:
        o = r.do(op)
        recs.append(f"{o};{r.summary()}")
    return recs


def mask(case, recs):
    """Replace what the statement does not fix by '?': the entry whose read value was updated in place, until it is
    written again / the attribute is cleared or re-created."""
    taint, out = set(), []
    cur_k = 1
    origin = []           # per registered handle: the entry it was read from (None: caller object / scalar / invalidated)
    for op, rec in zip(case["ops"], recs):
        obs, size, ln = rec.rsplit(";", 2)
        kind = op[0]
        if kind == "hold" and op[1] in taint and not obs.startswith("err"):
            origin.append(op[1] if obs.startswith("V ") else None); obs = "?"
        elif kind == "hold" and not obs.startswith("err"):
            origin.append(op[1] if obs.startswith("V ") else None)
        if kind == "setsh" and obs != "err:Other(Exception)":
            origin.append(None)
        if kind == "muth" and obs == "-" and op[1] < len(origin) and origin[op[1]] is not None:
            taint.add(origin[op[1]])
        if kind == "setfr" and obs == "-":
            (taint.add if op[1] in taint else taint.discard)(op[2])
        if kind == "setsh":
            written = op[2] if obs == "-" else []
            if obs == "err:OutOfBounds" and size.isdigit():
                written = []
                for key in op[2]:
                    if not (0 <= key < int(size)): break
                    written.append(key)
            for key in written: taint.discard(key)
        if kind in ("clear", "create", "delete", "cclear", "reg") and obs == "-":
            origin = [None] * len(origin)
        if kind == "get" and op[1] in taint and not obs.startswith("err"):
            obs = "?"
        if kind == "arr" and obs.startswith("A ") and taint:
            t = obs.split(" ")
            n, k = int(t[1]), int(t[2])
            body = t[3:]
            for i in taint:
                j = i if i >= 0 else i + n
                if 0 <= j < n:
                    body[j * k:(j + 1) * k] = ["?"] * k
            obs = " ".join(t[:3] + body)
        if kind == "create" and obs == "-":
            cur_k = op[2]
        if kind == "mut" and obs == "-" and cur_k > 1:
            taint.add(op[1])
        if kind == "set" and obs == "-":
            taint.discard(op[1])
        if kind in ("clear", "create", "delete", "cclear", "reg") and obs == "-":
            taint.clear()
        if kind == "reg" and obs == "-":
            cur_k = op[2]
        out.append(f"{obs};{size};{ln}")
    return out


def impl_observe(case):
    if case.get("t") == "multi":
        from . import c05_multi
        return c05_multi.impl_observe(case)
    with _cfg(case):
        if case.get("t") == "reg":       # the registered attribute is always array-backed: one replay (dense `create`s)
            return "reg || " + " | ".join(mask(case, _trace(case, True)))
        return " | ".join(mask(case, _trace(case, False))) + " || " + " | ".join(mask(case, _trace(case, True)))


# ------------------------------------------------------------------------------------------------
# model request
# ------------------------------------------------------------------------------------------------
def _tok_req(tok):
    body = tok.partition("@")[0]
    return body if body != "s:" else "s:"


def _str_scalar_on_vector(case):
    """a bare str offered to a vector attribute (Python iterates its characters): outside the modelled region"""
    k = None
    for op in case["ops"]:
        if op[0] == "create" and (op[3] is None or tok_type(op[3]) == op[1]): k = op[2]
        elif op[0] in ("delete", "cclear"): k = None
        elif op[0] == "set" and k is not None and k > 1 and op[2][0] == "S" and op[2][1].startswith("s:"): return True
        elif op[0] == "setsh" and k is not None and k > 1 and op[1][0] == "S" and op[1][1].startswith("s:"): return True
    return False


def model_request(case):
    if case.get("t") == "multi":
        from . import c05_multi
        return c05_multi.model_request(case)
    if _str_scalar_on_vector(case) or case.get("t") == "reg":
        return None          # register_array_as_attribute: stated by the oracle and by the translated body (registerArray_bridge)
    toks = [str(case["n0"]), str(len(case["ops"]))]
    for op in case["ops"]:
        k = op[0]
        if k == "create":
            toks += ["create", op[1], str(op[2]), "N" if op[3] is None else _tok_req(op[3])]
        elif k == "set":
            v = op[2]
            toks += ["set", str(op[1])] + (["S", _tok_req(v[1])] if v[0] == "S" else ["V", str(len(v[1]))] + [_tok_req(t) for t in v[1]])
        elif k == "get": toks += ["get", str(op[1])]
        elif k == "hold": toks += ["hold", str(op[1])]
        elif k == "muth": toks += ["muth", str(op[1]), str(op[2]), _tok_req(op[3])]
        elif k == "setfr": toks += ["setfr", str(op[1]), str(op[2])]
        elif k == "setsh":
            v = op[1]
            toks += ["setsh"] + (["S", _tok_req(v[1])] if v[0] == "S" else ["V", str(len(v[1]))] + [_tok_req(t) for t in v[1]])
            toks += [str(len(op[2]))] + [str(key) for key in op[2]]
        elif k == "mut": toks += ["mut", str(op[1]), str(op[2]), _tok_req(op[3])]
        elif k in ("extl", "extc"): toks += [k, str(op[1])]
        else: toks += [k]
    return " ".join(toks)


def compare(case, model, impl):
    if case.get("t") == "multi":
        from . import c05_multi
        return c05_multi.compare(case, model, impl)
    if " || " not in model:
        return f"model rejected the request: {model[:80]}"
    ms, md = model.split(" || ")
    m = " | ".join(mask(case, ms.split(" | "))) + " || " + " | ".join(mask(case, md.split(" | ")))
    if m == impl:
        return None
    a, b = m.split(" "), impl.split(" ")
    i = next((j for j, (x, y) in enumerate(zip(a, b)) if x != y), min(len(a), len(b)))
    return f"model trace differs from implementation trace at token {i}: model …{' '.join(a[max(0, i - 6):i + 4])}… impl …{' '.join(b[max(0, i - 6):i + 4])}…"


# ------------------------------------------------------------------------------------------------
# oracle: the property stated directly on the implementation
# ------------------------------------------------------------------------------------------------
def _expect_accept(ty, k, v):
    """the statement's accept rule: exact arity and every component widenable to ty.
    returns (accept?, reason-if-reject)"""
    if v[0] == "S":
        if k != 1: return False, "arity"
        t = tok_type(v[1])
        return (True, "") if can_cast(t, ty) else (False, f"cast-{t}->{ty}")
    comps = v[1]
    if k == 1 or len(comps) != k: return False, "arity"
    bad = [tok_type(t) for t in comps if not can_cast(tok_type(t), ty)]
    if not bad: return True, ""
    if not can_cast(tok_type(comps[0]), ty): return False, f"cast-{tok_type(comps[0])}->{ty}"
    return False, "hetero-vector"


def _oracle_mode(case, dense):
    mode = "dense" if dense else "sparse"
    out = []
    r = _Run(case["n0"], dense, bystander=True)
    size = case["n0"]
    alive = False
    ty = k = None
    dflt = None           # canonical default row
    ref = {}              # index -> canonical row (last accepted write)
    taint = set()

    def F(opk, what, detail):
        # structural key: which clause of the statement fails (not which operation happened to reveal it)
        if what.endswith("-shape-reads-wrong"): cat = "unset-vector-entry-reads-scalar"
        elif opk == "oob": cat = f"oob/{what}"
        elif opk in ("mut", "muth"): cat = f"read-isolated/{what}"
        elif opk in ("append", "extl", "extc", "exts"): cat = f"growth/{opk}/{what}"
        elif opk == "set" and what.startswith(("accepts", "rejects")): cat = f"set/{what}"
        else: cat = f"total-map/{opk}/{what}"
        out.append({"key": f"C05/{mode}/{cat}", "what": f"{mode} storage, after `{opk}`: {what}", "detail": detail})

    def expect_row(i):
        return ref.get(i, dflt)

    def check_state(opk, step):
        """every index of the container answers last write or default; alignment with the container"""
        c = r.c
        if len(c) != size:
            F(opk, "container-size", f"step {step}: len(container)={len(c)} expected {size}"); return False
        if len(r.by) != size or r.by._data.shape[0] != size:
            F(opk, "misaligned-bystander", f"step {step}: an untouched dense attribute has {len(r.by)} entries, container {size}"); return False
        if not alive:
            if c.has_attribute("a"):
                F(opk, "attribute-not-deleted", f"step {step}"); return False
            return True
        if not c.has_attribute("a"):
            F(opk, "attribute-lost", f"step {step}"); return False
        a = c.get_attribute("a")
        if dense and len(a) != size:
            F(opk, "misaligned", f"step {step}: dense attribute has {len(a)} entries, container has {size}"); return False
        for i in range(size):
            if i in taint: continue
            try:
                got = canon_read(ty, a[i])
            except Exception as e:  # noqa
                F(opk, f"read-raises({type(e).__name__})", f"step {step}: a[{i}] with container size {size}: {e}"); return False
            want = ("S " + expect_row(i)[0]) if k == 1 else "V " + " ".join([str(k)] + expect_row(i))
            if got != want:
                kind_ = "written-entry" if i in ref else "unset-entry"
                if got.startswith("S ") != want.startswith("S "):
                    kind_ += "-shape"
                F(opk, f"{kind_}-reads-wrong", f"step {step}: a[{i}] reads {got}, expected {want} (last write or default)"); return False
        try:
            rows = canon_rows(ty, k, a.as_array(size))
        except Exception as e:  # noqa
            F(opk, f"as_array-raises({type(e).__name__})", f"step {step}: {e}"); return False
        if len(rows) != size:
            F(opk, "as_array-rows", f"step {step}: {len(rows)} rows for a container of {size}"); return False
        for i in range(size):
            if i not in taint and rows[i] != expect_row(i):
                F(opk, "as_array-row-wrong", f"step {step}: row {i} = {rows[i]}, expected {expect_row(i)}"); return False
        return True

    origin = []           # per registered handle: entry it was read from (None: caller object / scalar / invalidated)
    for step, op in enumerate(case["ops"]):
        kind = op[0]
        idxs = {"set": lambda: [op[1]], "get": lambda: [op[1]], "mut": lambda: [op[1]], "hold": lambda: [op[1]],
                "setfr": lambda: [op[1], op[2]], "setsh": lambda: list(op[2])}.get(kind, lambda: [])()
        in_range = all(0 <= i < size for i in idxs)
        if kind == "setsh" and alive and dense and not in_range:
            # dense: keys are written in order; the first key outside the container must be reported as out of bounds
            obs = r.do(op); origin.append(None)
            acc, why = _expect_accept(ty, k, op[1])
            first_oor = next(j for j, key in enumerate(op[2]) if not 0 <= key < size)
            if acc or first_oor == 0:
                if obs != "err:OutOfBounds":
                    F("oob", "setsh", f"step {step}: {op} on a container of {size}: {obs} instead of OutOfBoundsError"); return out
                if acc:
                    for key in op[2][:first_oor]:
                        ref[key] = [tok_canon(ty, op[1][1])] if op[1][0] == "S" else [tok_canon(ty, t) for t in op[1][1]]
                        taint.discard(key)
            elif not obs.startswith("err"):
                F("set", f"accepts/{why}", f"step {step}: {op}"); return out
            if not check_state(kind, step): return out
            continue
        if idxs and alive and not in_range:
            if not dense:
                if kind in ("hold", "setsh"):
                    r.held.append(None); origin.append(None)
                continue         # sparse storage outside the container: not constrained by the statement
            obs = r.do(op)
            if obs != "err:OutOfBounds":
                where = "index-eq-size" if op[1] == size else ("negative" if op[1] < 0 else "beyond")
                F("oob", where, f"step {step}: {kind} at index {op[1]} on a container of {size}: {obs} instead of OutOfBoundsError")
                return out
            if not check_state(kind, step): return out
            continue
        obs = r.do(op)
        failed = obs.startswith("err")
        if kind == "create":
            d = op[3]
            if d is not None and tok_type(d) != op[1]:
                if not failed:
                    return out      # a default of another type was accepted: nothing to state
            else:
                if failed:
                    F("create", f"raises({obs})", f"step {step}: {op}"); return out
                alive, ty, k = True, op[1], op[2]
                dflt = [tok_canon(ty, d if d is not None else {"bool": "b:0", "int": "i:0", "float": "f:0", "complex": "c:0,0", "str": "s:"}[ty])] * k
                ref, taint = {}, set()
                origin = [None] * len(origin)
        elif kind == "reg":
            d = op[4]
            if size == 0 or (d is not None and tok_type(d) != op[1]):
                if not failed: return out        # an empty container / a default of another type was accepted: nothing to state
            elif len(op[3]) != size and failed:
                pass                             # a mis-shaped array is refused: the container is as it was
            else:
                # (round 6) a mis-shaped array that is ACCEPTED must still give a total map over the container: the rows it has, the
                # default elsewhere, aligned with the container — checked by check_state below
                if failed:
                    F("reg", f"raises({obs})", f"step {step}: register_array_as_attribute on a container of {size}: {op[:3]}"); return out
                alive, ty, k = True, op[1], op[2]
                dflt = [tok_canon(ty, d if d is not None else {"bool": "b:0", "int": "i:0", "float": "f:0", "complex": "c:0,0", "str": "s:"}[ty])] * k
                ref = {i: [tok_canon(ty, t) for t in row] for i, row in enumerate(op[3]) if i < size}       # every entry holds its row of the array
                taint = set()
                origin = [None] * len(origin)
        elif kind == "delete":
            if failed: F("delete", f"raises({obs})", f"step {step}"); return out
            alive = False
            origin = [None] * len(origin)
        elif kind == "cclear":
            if failed: F("cclear", f"raises({obs})", f"step {step}"); return out
            size = 0
            # the statement does not say whether emptying the container drops its attributes: both are accepted (a kept
            # attribute must then be an empty, default-valued one aligned with the empty container)
            alive = alive and r.c.has_attribute("a")
            ref, taint = {}, set()
            origin = [None] * len(origin)
            r.by = r.c.create_attribute("bystander", int, 2, dense=True)
        elif kind in ("append", "extl", "extc", "exts"):
            if failed:
                F(kind, f"raises({obs})", f"step {step}: container of {size} elements"); return out
            size += {"append": 1, "extl": op[1] if kind == "extl" else 0, "extc": op[1] if kind == "extc" else 0, "exts": size}[kind]
        elif not alive and kind != "muth":
            if not failed:
                F(kind, "absent-attribute-answers", f"step {step}"); return out
        elif kind == "set":
            acc, why = _expect_accept(ty, k, op[2])
            if acc and failed:
                F("set", f"rejects/{tok_type(op[2][1] if op[2][0] == 'S' else op[2][1][0])}->{ty}", f"step {step}: {op} -> {obs}"); return out
            if not acc and not failed:
                F("set", f"accepts/{why}", f"step {step}: {op} accepted by a {ty} attribute of arity {k}"); return out
            if acc:
                ref[op[1]] = [tok_canon(ty, op[2][1])] if op[2][0] == "S" else [tok_canon(ty, t) for t in op[2][1]]
                taint.discard(op[1])
        elif kind == "get":
            if failed:
                F("get", f"raises({obs})", f"step {step}: a[{op[1]}], size {size}"); return out
        elif kind == "mut":
            if k > 1:
                taint.add(op[1])
        elif kind == "muth":
            if not failed and op[1] < len(origin) and origin[op[1]] is not None:
                taint.add(origin[op[1]])
        elif kind == "hold":
            if failed:
                F("get", f"raises({obs})", f"step {step}: a[{op[1]}], size {size}"); return out
            origin.append(op[1] if k > 1 else None)
        elif kind == "setfr":
            if op[1] in taint:
                taint.add(op[2])         # the value copied is itself unconstrained
            elif failed:
                F("set", "rejects/own-read-value", f"step {step}: a[{op[2]}] = a[{op[1]}] on a {ty} attribute of arity {k} -> {obs}"); return out
            else:
                if op[1] in ref: ref[op[2]] = list(ref[op[1]])
                else: ref.pop(op[2], None)
                taint.discard(op[2])
        elif kind == "setsh":
            origin.append(None)
            acc, why = _expect_accept(ty, k, op[1])
            if acc and failed:
                F("set", f"rejects/{tok_type(op[1][1] if op[1][0] == 'S' else op[1][1][0])}->{ty}", f"step {step}: {op} -> {obs}"); return out
            if not acc and not failed and op[2]:
                F("set", f"accepts/{why}", f"step {step}: {op} accepted by a {ty} attribute of arity {k}"); return out
            if acc:
                for key in op[2]:
                    ref[key] = [tok_canon(ty, op[1][1])] if op[1][0] == "S" else [tok_canon(ty, t) for t in op[1][1]]
                    taint.discard(key)
        elif kind == "clear":
            if failed: F("clear", f"raises({obs})", f"step {step}"); return out
            ref, taint = {}, set()
            origin = [None] * len(origin)
        elif kind == "arr":
            if failed:
                F("arr", f"raises({obs})", f"step {step}"); return out
        if not check_state(kind, step):
            return out
    return out


def oracle(case):
    if case.get("t") == "multi":
        from . import c05_multi
        return c05_multi.oracle(case)
    out = []
    with _cfg(case):
        for dense in ((True,) if case.get("t") == "reg" else (False, True)):
            out += _oracle_mode(case, dense)
        out += _oracle_create_agree(case)
    return out


def _oracle_create_agree(case):
    """"sparse and dense storage ... accept and reject the same values": a custom default handed to create_attribute is accepted by
    both storages or refused by both (nothing is demanded about WHICH of the two happens)"""
    out = []
    seen = set()
    for op in case["ops"]:
        if op[0] != "create" or op[3] is None or tok_type(op[3]) == op[1]: continue
        sig = (op[1], op[2], op[3])
        if sig in seen: continue
        seen.add(sig)
        res = [_Run(1, dense).do(op).startswith("err") for dense in (False, True)]
        if res[0] != res[1]:
            out.append({"key": "C05/agree/create-default-accepted-by-one-storage",
                        "what": "a default value of another type is refused by one storage and accepted by the other",
                        "detail": f"{op}: sparse {'refuses' if res[0] else 'accepts'}, dense {'refuses' if res[1] else 'accepts'}"})
            return out
    return out


# ------------------------------------------------------------------------------------------------
# generators
# ------------------------------------------------------------------------------------------------
NP_VARIANTS = {"bool": ["bool_"], "int": ["int32", "int64", "uint8"], "float": ["float32", "float64"]}


def _scalar(rng, ty, numpy_ok=True):
    if ty == "bool": t = f"b:{rng.randint(0, 1)}"
    elif ty == "int": t = f"i:{rng.randint(-5, 9)}"
    elif ty == "float": t = "f:" + _fr(Fraction(rng.randint(-32, 32), 8))
    elif ty == "complex": t = "c:" + _fr(Fraction(rng.randint(-8, 8), 4)) + "," + _fr(Fraction(rng.randint(-8, 8), 4))
    else: t = "s:" + "".join(rng.choice("abxyz01") for _ in range(rng.randint(0, 4)))
    if numpy_ok and ty in NP_VARIANTS and rng.random() < 0.15:
        v = rng.choice(NP_VARIANTS[ty])
        if v == "uint8" and t.startswith("i:-"): t = "i:" + t[3:]
        t += "@" + v
    return t


def _value(rng, ty, k):
    r = rng.random()
    if r < 0.55: vt = ty
    elif r < 0.75: vt = rng.choice([a for a in TYPES if can_cast(a, ty)])
    elif r < 0.87: vt = rng.choice([a for a in TYPES if not can_cast(a, ty)])
    else: vt = ty
    arity = k
    if 0.87 <= r < 0.95:
        arity = rng.choice([a for a in (0, 1, 2, 3, 4) if a != k])
    if arity == 1 and (k == 1 or rng.random() < 0.7) and not (vt == "str" and k > 1):
        if k == 1 and 0.87 <= r < 0.95:
            return ["V", [_scalar(rng, vt)]]
        return ["S", _scalar(rng, vt)]
    comps = [_scalar(rng, vt) for _ in range(arity)]
    if r >= 0.95 and arity > 1:      # heterogeneous vector: first component fits, a later one does not
        bad = [a for a in TYPES if not can_cast(a, ty)]
        j = rng.randrange(1, arity)
        comps[j] = _scalar(rng, rng.choice(bad))
    return ["V", comps]


def _index(rng, size):
    r = rng.random()
    if r < 0.80 and size > 0: return rng.randrange(size)
    if r < 0.89: return size
    if r < 0.93: return size + 1
    if r < 0.98: return -1
    return rng.choice([-2, size + 3])


def _script(rng, maxlen):
    n0 = rng.choice([0, 1, 2, 3, 3, 4, 5])
    ops = []
    size = n0
    ty, k = None, None

    def create():
        nonlocal ty, k
        ty_, k_ = rng.choice(TYPES), rng.choice([1, 1, 2, 2, 3])
        r = rng.random()
        d = None
        if r < 0.35: d = _scalar(rng, ty_)
        elif r < 0.39: d = _scalar(rng, rng.choice([a for a in TYPES if a != ty_]), numpy_ok=False)
        ops.append(["create", ty_, k_, d])
        if d is None or tok_type(d) == ty_ or ty is None:
            ty, k = ty_, k_          # (a default of another type is rejected: the previous attribute stays)
    alive = False
    nh = 0
    if rng.random() < 0.94: create(); alive = True
    L = rng.randint(3, maxlen)
    while len(ops) < L:
        r = rng.random()
        if not alive and rng.random() < 0.6:
            create(); alive = True; continue
        if ty is None:
            ty, k = "float", 1     # script without create: ops hit the absent attribute
        if r < 0.18:
            # reads kept alive, stale in-place updates, write-side aliasing
            if r < 0.05: ops.append(["hold", _index(rng, size)]); nh += 1
            elif r < 0.10:
                if nh: ops.append(["muth", rng.randrange(nh) if rng.random() < 0.95 else nh, rng.randrange(max(k, 1)) if rng.random() < 0.95 else k, _scalar(rng, ty, numpy_ok=False)])
                else: ops.append(["hold", _index(rng, size)]); nh += 1
            elif r < 0.14:
                i, j = _index(rng, size), _index(rng, size)
                if size > 0 and rng.random() < 0.6: i, j = rng.randrange(size), rng.randrange(size)
                ops.append(["setfr", i, j])
                if size > 0 and rng.random() < 0.5:      # ... followed by an in-place update of what entry i reads
                    ops.append(["mut", i, rng.randrange(max(k, 1)), _scalar(rng, ty, numpy_ok=False)])
            else:
                v = _value(rng, ty, k)
                if v[0] == "S" and v[1].startswith("s:") and k > 1: v = ["V", [_scalar(rng, ty) for _ in range(k)]]
                if v[0] == "V" and len({tok_type(t) for t in v[1]}) > 1:
                    # a Vec is homogeneous: numpy would coerce a mixed list before the library sees it
                    v = ["V", [_scalar(rng, tok_type(v[1][0])) for _ in v[1]]]
                keys = [_index(rng, size) for _ in range(rng.randint(1, 3))]
                if size > 0 and rng.random() < 0.6: keys = [rng.randrange(size) for _ in keys]
                ops.append(["setsh", v, keys]); nh += 1
                if rng.random() < 0.5:                    # ... the caller then updates its own vector / what one key reads
                    if rng.random() < 0.5: ops.append(["muth", nh - 1, rng.randrange(max(k, 1)), _scalar(rng, ty, numpy_ok=False)])
                    else: ops.append(["mut", keys[0], rng.randrange(max(k, 1)), _scalar(rng, ty, numpy_ok=False)])
            continue
        r = (r - 0.18) / 0.82
        if r < 0.30:
            v = _value(rng, ty, k)
            if v[0] == "V":
                homog = len({tok_type(t) for t in v[1]}) <= 1
                v = v + [rng.choice(["list", "list", "tuple", "nd", "vec"] if homog else ["list", "tuple"])]
            ops.append(["set", _index(rng, size), v] + ([{"ix": rng.choice(["np64", "np32", "npu8"])}] if rng.random() < 0.12 else []))
        elif r < 0.45: ops.append(["get", _index(rng, size)] + ([{"ix": rng.choice(["np64", "np32", "npu8"])}] if rng.random() < 0.12 else []))
        elif r < 0.57: ops.append(["mut", _index(rng, size), rng.randrange(max(k, 1)) if rng.random() < 0.95 else k, _scalar(rng, ty, numpy_ok=False)])
        elif r < 0.63: ops.append(["append"]); size += 1
        elif r < 0.68:
            n = rng.randint(0, 3); ops.append(["extl", n, rng.choice(["list", "dups", "tuple", "set"])]); size += n
        elif r < 0.72:
            n = rng.randint(0, 3); ops.append(["extc", n]); size += n
        elif r < 0.75 and size <= 8: ops.append(["exts"]); size *= 2
        elif r < 0.80: ops.append(["clear"])
        elif r < 0.90: ops.append(["arr"])
        elif r < 0.915: ops.append(["delete"]); alive = False
        elif r < 0.95: create(); alive = True
        elif r < 0.957: ops.append(["cclear"]); size = 0; alive = False
        else: ops.append(["get", _index(rng, size)])
    return {"n0": n0, "ops": ops}


def _script_reg(rng, maxlen):
    """round 5: an ordinary script with ONE register_array_as_attribute inserted (over an existing attribute or on a bare container);
    the registered array has the type / arity of the attribute the rest of the script was written for"""
    for _ in range(20):
        c = _script(rng, maxlen)
        ops = c["ops"]
        # container size / live attribute signature before every position
        size, sig, pos = c["n0"], None, []
        for j, op in enumerate(ops + [None]):
            if size >= 1: pos.append((j, size, sig))
            if op is None: break
            if op[0] == "create" and (op[3] is None or tok_type(op[3]) == op[1]): sig = (op[1], op[2])
            elif op[0] == "append": size += 1
            elif op[0] in ("extl", "extc"): size += op[1]
            elif op[0] == "exts": size *= 2
            elif op[0] == "cclear": size = 0
        if not pos: continue
        j, size, sig = rng.choice(pos)
        later = next(((o[1], o[2]) for o in ops[j:] if o[0] == "create"), None)
        ty, k = sig or later or (rng.choice(TYPES), rng.choice([1, 2, 3]))
        # the rest of the script keeps writing values of the attribute it was generated for: use that signature
        for o in ops:
            if o[0] == "create": ty, k = (ty, k) if sig else (o[1], o[2]); break
        nrows = size
        if rng.random() < 0.15: nrows = max(1, size + rng.choice([-1, 1]))        # round 6: one row short / one row too many
        rows = [[_scalar(rng, ty, numpy_ok=False) for _ in range(k)] for _ in range(nrows)]
        d = _scalar(rng, ty, numpy_ok=False) if rng.random() < 0.4 else None
        o = {}
        if k == 1 and rng.random() < 0.5: o["flat"] = True
        if ty in ("int", "float") and rng.random() < 0.3:
            o["dtype"] = rng.choice({"int": ["int32", "uint8"], "float": ["float32"]}[ty])
            if o["dtype"] == "uint8": rows = [[("i:" + t[2:].lstrip("-")) for t in r] for r in rows]
        reg = ["reg", ty, k, rows, d] + ([o] if o else [])
        return {"t": "reg", "n0": c["n0"], "ops": ops[:j] + [reg] + ops[j:]}
    return {"t": "reg", "n0": 2, "ops": [["reg", "int", 1, [["i:1"], ["i:2"]], None], ["get", 1], ["append"], ["get", 2]]}


def _alphabet():
    return [["set", 0, ["V", ["f:1/2", "i:2"]]], ["set", 1, ["V", ["f:3", "f:-1/4"]]], ["set", 2, ["V", ["f:1", "f:1"]]],
            ["set", 0, ["V", ["c:1,1", "f:0"]]], ["get", 0], ["get", 2], ["mut", 0, 1, "f:7"], ["mut", 1, 0, "f:5"],
            ["append"], ["extl", 2], ["exts"], ["clear"], ["arr"], ["delete"]]


def _alphabet2():
    return [["set", 0, ["V", ["f:1/2", "i:2"]]], ["set", 1, ["V", ["f:3", "f:-1/4"]]], ["get", 2], ["mut", 0, 1, "f:7"],
            ["hold", 0], ["hold", 1], ["muth", 0, 1, "f:9"], ["setfr", 0, 1], ["setsh", ["V", ["f:2", "f:2"]], [0, 1]],
            ["append"], ["clear"], ["arr"]]


def cases(rng, tier):
    n, maxlen = (3000, 14) if tier == "quick" else (12000, 60)
    for _ in range(n):
        c = _script(rng, maxlen)
        if rng.random() < 0.12: c["warn"] = True      # round 4: duplicate-attribute warning switched on (create over an existing name)
        yield c
    for _ in range(300 if tier == "quick" else 2500):       # round 5: register_array_as_attribute (oracle-only family)
        c = _script_reg(rng, maxlen if tier == "quick" else 30)
        if rng.random() < 0.2: c["warn"] = True
        yield c
    # round 3: several attributes (sparse and dense at once) on one container
    from . import c05_multi
    for _ in range(600 if tier == "quick" else 4000):
        yield c05_multi.script(rng, 14 if tier == "quick" else 40)
    if tier == "thorough":
        # exhaustive small scope (a TEST of the model tie and of the oracle, not a proof)
        alpha = _alphabet()
        for d in (None, "f:3/2"):
            head = [["create", "float", 2, d]]
            for L in range(1, 5):
                if d is not None and L == 4: continue
                for seq in itertools.product(alpha, repeat=L):
                    yield {"n0": 2, "ops": head + [list(o) for o in seq]}
        # handles / write-side aliasing: every script of length <= 4 over a 12-letter alphabet (a TEST)
        for L in range(1, 5):
            for seq in itertools.product(_alphabet2(), repeat=L):
                yield {"n0": 2, "ops": [["create", "float", 2, None]] + [list(o) for o in seq]}


def search_on_break(rng, broken, mismatches):
    for j in range(1500):
        c = _script(rng, 20)
        if j % 8 == 0: c["warn"] = True
        yield c
    for j in range(300):
        c = _script_reg(rng, 16)
        if j % 4 == 0: c["warn"] = True
        yield c
    from . import c05_multi
    for _ in range(400):
        yield c05_multi.script(rng, 16)


def nontrivial(case, obs):
    if case.get("t") == "multi":
        from . import c05_multi
        return c05_multi.nontrivial(case, obs)
    recs = obs.split(" || ")[1].split(" | ")
    wrote = False
    for op, rec in zip(case["ops"], recs):
        o = rec.rsplit(";", 2)[0]
        if op[0] in ("set", "setfr", "setsh", "reg") and o == "-": wrote = True
        if wrote and op[0] in ("get", "arr", "hold") and not o.startswith("err"): return True
    return False


def classify(case, obs):
    if case.get("t") == "multi":
        from . import c05_multi
        return c05_multi.classify(case, obs)
    ks = []
    for mode, tr in zip(("sparse", "dense"), obs.split(" || ")):
        for op, rec in zip(case["ops"], tr.split(" | ")):
            o = rec.rsplit(";", 2)[0]
            if mode == "dense":
                ks.append("op:" + op[0])
                if op[0] == "create": ks.append(f"create:{op[1]}/k{op[2]}/{'custom' if op[3] else 'implicit'}")
            if o.startswith("err"): ks.append(f"{mode}:{op[0]}:{o}")
            if o == "?": ks.append(f"{mode}:masked-read")
    ks.append(f"len:{min(len(case['ops']) // 5 * 5, 60)}+")
    if case.get("warn"): ks.append("config:duplicate-warning=on")
    al = False
    for op in case["ops"]:
        if op[0] == "reg":
            ks.append("reg:over-existing" if al else "reg:fresh"); al = True
            if len(op) > 5 and op[5].get("flat"): ks.append("reg:flat-1d")
            if len(op) > 5 and op[5].get("dtype"): ks.append("reg:dtype=" + op[5]["dtype"])
        elif op[0] == "create": al = True
        elif op[0] in ("delete", "cclear"): al = False
    alive = deleted = cleared = False
    for op in case["ops"]:
        if op[0] == "create":
            if deleted: ks.append("history:re-create-after-delete")
            elif alive: ks.append("history:create-over-existing")
            alive, deleted, cleared = True, False, False
        elif op[0] in ("delete", "cclear"): deleted, alive = alive or deleted, False
        elif op[0] == "clear" and alive: cleared = True
        elif op[0] in ("get", "arr", "hold") and cleared: ks.append("history:read-after-clear"); cleared = False
        if op[0] == "set" and op[2][0] == "V" and len(op[2]) > 2: ks.append("rep:vector=" + op[2][2])
        if op[0] == "set":
            for t in ([op[2][1]] if op[2][0] == "S" else op[2][1]):
                if "@" in t: ks.append("rep:numpy-scalar=" + t.split("@")[1])
        if isinstance(op[-1], dict) and "ix" in op[-1]: ks.append("rep:index=" + op[-1]["ix"])
        if op[0] == "extl" and len(op) > 2: ks.append("rep:extend=" + op[2])
    return ks


def describe(case):
    return case


def shrink(case, still):
    if case.get("t") == "multi":
        from . import c05_multi
        return c05_multi.shrink(case, still)
    ops = list(case["ops"])
    i = len(ops) - 1
    while i >= 0:
        trial = dict(case, ops=ops[:i] + ops[i + 1:])
        if still(trial): ops = trial["ops"]
        i -= 1
    cur = dict(case, ops=ops)
    for n0 in range(0, case["n0"]):
        t = dict(cur, n0=n0)
        if still(t): return t
    return cur


# ------------------------------------------------------------------------------------------------
# translated fragments
# ------------------------------------------------------------------------------------------------
_TY_OF_MEMBER = {"Bool": "bool", "Int": "int", "Float": "float", "Complex": "complex", "String": "str"}
ATTR_FILE = "mouette/mesh/mesh_attributes.py"


def _member(node):
    """Attribute.Type.X -> lean constructor"""
    if isinstance(node, ast.Attribute) and node.attr in _TY_OF_MEMBER and isinstance(node.value, ast.Attribute) \
            and node.value.attr == "Type":
        return "." + _TY_OF_MEMBER[node.attr]
    raise T.TranslateError(f"not a Type member: {ast.dump(node)[:80]}")


def _pyname(node):
    if isinstance(node, ast.Name): return node.id
    if isinstance(node, ast.Attribute) and isinstance(node.value, ast.Name) and node.value.id == "np": return "np." + node.attr
    raise T.TranslateError(f"not a type name: {ast.dump(node)[:80]}")


def _const_scalar(node):
    """False | int(0) | float(0.) | complex(0.,0.) | "" -> Lean Scalar term"""
    def num(n):
        if isinstance(n, ast.Constant) and isinstance(n.value, (int, float)) and not isinstance(n.value, bool):
            f = Fraction(n.value)
            return f"({f.numerator} : Rat) / {f.denominator}" if f.denominator != 1 else f"({f.numerator} : Rat)"
        raise T.TranslateError("not a number")
    if isinstance(node, ast.Constant):
        v = node.value
        if isinstance(v, bool): return f".b {'true' if v else 'false'}"
        if isinstance(v, str): return f'.s "{v}"'
        if isinstance(v, int): return f".i {v}"
        if isinstance(v, float): return f".f ({num(node)})"
    if isinstance(node, ast.Call) and isinstance(node.func, ast.Name):
        if node.func.id == "int" and len(node.args) == 1 and isinstance(node.args[0], ast.Constant) and isinstance(node.args[0].value, int):
            return f".i {node.args[0].value}"
        if node.func.id == "float" and len(node.args) == 1: return f".f ({num(node.args[0])})"
        if node.func.id == "complex" and len(node.args) == 2: return f".c ({num(node.args[0])}) ({num(node.args[1])})"
    raise T.TranslateError(f"unsupported default constant {ast.dump(node)[:80]}")


_CMP = {ast.Lt: "<", ast.LtE: "≤", ast.Gt: ">", ast.GtE: "≥", ast.Eq: "=", ast.NotEq: "≠"}


def _guard_expr(node, pname="key"):
    """boolean combination of comparisons of `key` with constants / self.n_elem -> Lean Bool term over (key n : Int)"""
    def atom(n):
        if isinstance(n, ast.Name) and n.id == pname: return "key"
        if isinstance(n, ast.Attribute) and n.attr == "n_elem" and isinstance(n.value, ast.Name) and n.value.id == "self": return "n"
        if isinstance(n, ast.Constant) and isinstance(n.value, int) and not isinstance(n.value, bool): return f"({n.value} : Int)"
        if isinstance(n, ast.BinOp) and type(n.op) in (ast.Add, ast.Sub):
            return f"({atom(n.left)} {'+' if isinstance(n.op, ast.Add) else '-'} {atom(n.right)})"
        raise T.TranslateError(f"unsupported operand {ast.dump(n)[:60]}")
    if isinstance(node, ast.BoolOp):
        op = " || " if isinstance(node.op, ast.Or) else " && "
        return "(" + op.join(_guard_expr(v, pname) for v in node.values) + ")"
    if isinstance(node, ast.UnaryOp) and isinstance(node.op, ast.Not):
        return f"(!{_guard_expr(node.operand, pname)})"
    if isinstance(node, ast.Compare):
        parts, left = [], node.left
        for o, right in zip(node.ops, node.comparators):
            if type(o) not in _CMP: raise T.TranslateError("unsupported comparison")
            parts.append(f"decide ({atom(left)} {_CMP[type(o)]} {atom(right)})")
            left = right
        return "(" + " && ".join(parts) + ")"
    raise T.TranslateError(f"unsupported guard {ast.dump(node)[:80]}")


def translate():
    sites = []
    chunks = {}

    def casts():
        tree, _ = T.load(ATTR_FILE)
        fn = T.find_def(tree, "_BaseAttribute._can_be_casted")
        body = [s for s in fn.body if not (isinstance(s, ast.Expr) and isinstance(s.value, ast.Constant))]
        # shape:  if ta==tb : return True ; casts = {...} ; return (ta,tb) in casts
        if len(body) != 3: raise T.TranslateError(f"_can_be_casted has {len(body)} statements, expected 3")
        i0, a1, r2 = body
        ok0 = (isinstance(i0, ast.If) and isinstance(i0.test, ast.Compare) and isinstance(i0.test.ops[0], ast.Eq)
               and {getattr(i0.test.left, "id", None), getattr(i0.test.comparators[0], "id", None)} == {"ta", "tb"}
               and len(i0.body) == 1 and isinstance(i0.body[0], ast.Return) and getattr(i0.body[0].value, "value", None) is True
               and not i0.orelse)
        if not ok0: raise T.TranslateError("reflexive guard `if ta==tb: return True` not recognised")
        if not (isinstance(a1, ast.Assign) and isinstance(a1.value, ast.Set)): raise T.TranslateError("casts set literal not found")
        pairs = []
        for e in a1.value.elts:
            if not (isinstance(e, ast.Tuple) and len(e.elts) == 2): raise T.TranslateError("cast entry is not a pair")
            pairs.append(f"({_member(e.elts[0])}, {_member(e.elts[1])})")
        name = a1.targets[0].id
        ok2 = (isinstance(r2, ast.Return) and isinstance(r2.value, ast.Compare) and isinstance(r2.value.ops[0], ast.In)
               and isinstance(r2.value.left, ast.Tuple) and [getattr(x, "id", None) for x in r2.value.left.elts] == ["ta", "tb"]
               and getattr(r2.value.comparators[0], "id", None) == name)
        if not ok2: raise T.TranslateError("`return (ta,tb) in casts` not recognised")
        chunks["casts"] = ("/-- `_can_be_casted`: the literal set of widening pairs -/\n"
                           f"def castPairs : List (Ty × Ty) := [{', '.join(pairs)}]\n"
                           "/-- `_can_be_casted(ta, tb)` as written: reflexive guard, then membership -/\n"
                           "def canCast (ta tb : Ty) : Bool := if ta = tb then true else castPairs.contains (ta, tb)\n")
        return f"{len(pairs)} pairs"
    sites.append(T.site("mesh_attributes.py:_can_be_casted", casts))

    def typetable():
        tree, _ = T.load(ATTR_FILE)
        cls = T.find_def(tree, "_BaseAttribute")
        sup = None
        for s in cls.body:
            if isinstance(s, ast.Assign) and getattr(s.targets[0], "id", None) == "SUPPORTED_TYPES":
                sup = [_pyname(e) for e in s.value.elts]
        if sup is None: raise T.TranslateError("SUPPORTED_TYPES not found")
        enum = T.find_def(tree, "_BaseAttribute.Type")
        rows = []
        for s in enum.body:
            if isinstance(s, ast.Assign) and isinstance(s.targets[0], ast.Name) and s.targets[0].id in _TY_OF_MEMBER:
                vals = s.value.elts if isinstance(s.value, ast.Tuple) else [s.value]
                rows.append((s.targets[0].id, [_pyname(v) for v in vals]))
        if sorted(r[0] for r in rows) != sorted(_TY_OF_MEMBER): raise T.TranslateError(f"Type members {[r[0] for r in rows]}")
        chunks["types"] = ("/-- `Type(MultiValueEnum)`: member ↦ Python types that map to it -/\n"
                           "def typeTable : List (Ty × List String) := [" +
                           ", ".join(f"(.{_TY_OF_MEMBER[m]}, [{', '.join(chr(34) + v + chr(34) for v in vs)}])" for m, vs in rows) + "]\n"
                           "/-- `SUPPORTED_TYPES` -/\n"
                           "def supportedTypes : List String := [" + ", ".join(f'"{v}"' for v in sup) + "]\n")
        return f"{len(rows)} members, {len(sup)} supported types"
    sites.append(T.site("mesh_attributes.py:Type/SUPPORTED_TYPES", typetable))

    def defaults():
        tree, _ = T.load(ATTR_FILE)
        fn = T.find_def(tree, "_BaseAttribute.Type.default_value")
        first = fn.body[0]
        if not (isinstance(first, ast.If) and isinstance(first.test, ast.Compare) and getattr(first.test.left, "id", None) == "n"
                and isinstance(first.test.ops[0], ast.Eq) and getattr(first.test.comparators[0], "value", None) == 1):
            raise T.TranslateError("`if n==1:` not recognised")
        rows = []
        for s in first.body:
            if isinstance(s, ast.If):
                t = s.test
                if not (isinstance(t, ast.Compare) and isinstance(t.ops[0], ast.Eq) and getattr(t.left, "id", None) == "self"
                        and len(s.body) == 1 and isinstance(s.body[0], ast.Return)):
                    raise T.TranslateError("default branch not recognised")
                rows.append((_member(t.comparators[0]), _const_scalar(s.body[0].value)))
            elif not isinstance(s, ast.Raise):
                raise T.TranslateError("unexpected statement in default_value")
        # vector default:  return Vec([self.default_value(1)]*n)
        last = fn.body[-1]
        okv = (isinstance(last, ast.Return) and isinstance(last.value, ast.Call) and getattr(last.value.func, "id", None) == "Vec"
               and isinstance(last.value.args[0], ast.BinOp) and isinstance(last.value.args[0].op, ast.Mult)
               and isinstance(last.value.args[0].left, ast.List) and getattr(last.value.args[0].right, "id", None) == "n")
        if not okv: raise T.TranslateError("vector default `Vec([self.default_value(1)]*n)` not recognised")
        chunks["defaults"] = ("/-- `Type.default_value(1)`: first matching branch -/\n"
                              "def zeroTable : List (Ty × Scalar) := [" + ", ".join(f"({m}, {c})" for m, c in rows) + "]\n"
                              "def zero (t : Ty) : Option Scalar := zeroTable.lookup t\n")
        return f"{len(rows)} defaults"
    sites.append(T.site("mesh_attributes.py:Type.default_value", defaults))

    def guard():
        tree, _ = T.load(ATTR_FILE)
        fn = T.find_def(tree, "ArrayAttribute._check_out_of_bounds")
        body = [s for s in fn.body if not (isinstance(s, ast.Expr) and isinstance(s.value, ast.Constant))]
        if not (len(body) == 1 and isinstance(body[0], ast.If) and len(body[0].body) == 1 and isinstance(body[0].body[0], ast.Raise)
                and not body[0].orelse):
            raise T.TranslateError("`if <guard>: raise OutOfBoundsError` not recognised")
        rz = body[0].body[0].exc
        if not (isinstance(rz, ast.Call) and getattr(rz.func, "attr", None) == "OutOfBoundsError"):
            raise T.TranslateError("guard does not raise OutOfBoundsError")
        g = _guard_expr(body[0].test, fn.args.args[1].arg)
        # the guard must be the first statement of both accessors
        for acc in ("__getitem__", "__setitem__"):
            f = T.find_def(tree, "ArrayAttribute." + acc)
            st = [s for s in f.body if not (isinstance(s, ast.Expr) and isinstance(s.value, ast.Constant))][0]
            okc = (isinstance(st, ast.Expr) and isinstance(st.value, ast.Call) and getattr(st.value.func, "attr", None) == "_check_out_of_bounds"
                   and len(st.value.args) == 1 and getattr(st.value.args[0], "id", None) == f.args.args[1].arg)
            if not okc: raise T.TranslateError(f"ArrayAttribute.{acc} does not start with self._check_out_of_bounds(key)")
        chunks["guard"] = ("/-- `ArrayAttribute._check_out_of_bounds`: condition under which OutOfBoundsError is raised -/\n"
                           f"def oobGuard (key n : Int) : Bool := {g}\n")
        return g
    sites.append(T.site("mesh_attributes.py:ArrayAttribute._check_out_of_bounds", guard))

    # ---- round 4: the BODIES of the attribute classes and of the container methods, read imperatively
    from ..gen import c05_translate as SRC
    src_sites, src_body, src_status = SRC.translate_sites()
    _SRC_STATUS.clear(); _SRC_STATUS.update(src_status)
    if src_body is not None:
        T.write_generated("C05Src", src_body)
    else:
        T.write_generated("C05Src", _stub("C05Src", "import Mouette.Model.AttrSource\nimport Mouette.Generated.C05\n", src_sites))
    n_old = len(sites)
    if not all(s["ok"] for s in sites[:4]):
        T.write_generated("C05", _stub("C05", "import Mouette.Model.Attr\n", sites[:4]))
    if all(s["ok"] for s in sites[:4]):
        body = ("import Mouette.Model.Attr\nnamespace Mouette.Generated.C05\nopen Mouette.Attr\n\n" + chunks["casts"] + "\n" + chunks["types"] + "\n"
                + chunks["defaults"] + "\n" + chunks["guard"] + "\nend Mouette.Generated.C05\n")
        T.write_generated("C05", body)
    # round 3 descriptors of the resets / growth (Generated/C05Storage.lean, theorem gen_storage_eq): since round 4 they are DERIVED from
    # the imperative translation of the same functions (the textual shape checks of round 3 refused harmless respellings)
    need = ["ArrayAttribute._expand", "Attribute._expand", "ArrayAttribute.clear", "Attribute.clear", "ArrayAttribute.__init__",
            "DataContainer.append", "DataContainer.__iadd__"]
    if all(src_status.get(q) for q in need):
        T.write_generated("C05Storage", _STORAGE_TEXT)
    else:
        T.write_generated("C05Storage", _stub("C05", "import Mouette.Model.Attr\n", [x for x in src_sites if not x["ok"]]))
    return sites + src_sites


def _stub(ns, imports, sites):
    """round 5: what is written INSTEAD of a generated file when a site of the CURRENT tree is not recognised — an empty namespace, so
    that the bridges fail to build against this tree (and the build log never talks about the file generated from an earlier tree)"""
    bad = [f"   {x['site']}: {x['detail'][:160]}" for x in sites if not x["ok"]]
    return (imports + f"/- STUB: the translation of the current source tree failed, nothing is defined here.\n" + "\n".join(bad).replace("-/", "- /").replace("/-", "/ -")
            + f"\n-/\nnamespace Mouette.Generated.{ns}\nend Mouette.Generated.{ns}\n")


_SRC_STATUS = {}
_STORAGE_TEXT = ("import Mouette.Model.Attr\nnamespace Mouette.Generated.C05\nopen Mouette.Attr\n\n"
                 "/-- `ArrayAttribute._expand(n)`: a NEW array = old rows followed by `n` rows filled with the default, in the attribute's\n"
                 "dtype; `n_elem += n`. Returned: (old rows kept first, number of new rows, new rows hold the default, n_elem after) -/\n"
                 "def denseExpand (nElem n : Nat) : Bool × Nat × Bool × Nat := (true, n, true, nElem + n)\n"
                 "/-- `Attribute._expand` (sparse): nothing to do -/\ndef sparseExpandIsNoop : Bool := true\n\n"
                 "/-- `ArrayAttribute.clear()`: a NEW (n_elem, elemsize) array filled with the default, in the attribute's dtype (as in\n"
                 "`__init__`); `Attribute.clear()`: a new empty dict. Returned: rows of the new dense storage -/\n"
                 "def denseClearRows (nElem : Nat) : Nat := nElem\ndef sparseClearIsEmptyDict : Bool := true\n\n"
                 "/-- container growth: how many rows every attribute is expanded by, per branch, in terms of the number of appended\n"
                 "elements `m` and (container branch) of `len(other._data)` read BEFORE the extension -/\n"
                 "def appendCount : Nat := 1\ndef extendListCount (m : Nat) : Nat := m\n"
                 "def extendContainerCount (lenOtherBefore : Nat) : Nat := lenOtherBefore\n\nend Mouette.Generated.C05\n")

# ------------------------------------------------------------------------------------------------
# SOURCE_MAP: every function of the two anchor files.  "translated" = its body is compiled into Generated/C05*.lean on
# every run AND a bridge theorem of Props/C05.lean / Props/C05Source.lean is stated about that definition.
# ------------------------------------------------------------------------------------------------
_A, _D = "mouette/mesh/mesh_attributes.py::", "mouette/mesh/data_container.py::"
_OOS_EXC = "out-of-scope: exception constructor (message formatting only)"
_OOS_ABS = "out-of-scope: abstract method (`pass`), overridden by both storage classes"
_OOS_CORNER = "out-of-scope: corner-container variant, not driven by this harness (its growth loop is the same `_expand` call)"
SOURCE_MAP = {
    _A + "_BaseAttribute.InvalidTypeError.__init__": _OOS_EXC, _A + "_BaseAttribute.InvalidSizeError.__init__": _OOS_EXC,
    _A + "_BaseAttribute.TypeNotMatchingError.__init__": _OOS_EXC, _A + "_BaseAttribute.DefaultValueTypeDoesNotMatchError.__init__": _OOS_EXC,
    _A + "_BaseAttribute.OutOfBoundsError.__init__": _OOS_EXC,
    _A + "_BaseAttribute.Type.from_string": "out-of-scope: file-format type names (C04)",
    _A + "_BaseAttribute.Type.to_string": "out-of-scope: file-format type names (C04)",
    _A + "_BaseAttribute.Type.byte_size": "out-of-scope: file-format sizes (C04)",
    _A + "_BaseAttribute.Type.dtype": "translated",    # typeDtype; typeDtype_bridge (round 7)  ; old note:                      # widening castTo; `dtype=self.type.dtype` is required at every np.full site
    _A + "_BaseAttribute.Type.default_value": "translated",           # zeroTable / typeDefaultValue; gen_zero_eq, init_bridge
    _A + "_BaseAttribute._can_be_casted": "translated",               # castPairs / canCast; gen_canCast_eq
    _A + "_BaseAttribute.__init__": "out-of-scope: never called (both storage classes define their own __init__ without super())",
    _A + "_BaseAttribute.default_value": "translated",                # defaultValue; init_bridge, expand_bridge, sparseGetitem_bridge
    _A + "_BaseAttribute._check_default_value_type": "translated",    # checkDefaultValueType; init_bridge
    _A + "_BaseAttribute.__getitem__": _OOS_ABS, _A + "_BaseAttribute.__setitem__": _OOS_ABS, _A + "_BaseAttribute.__len__": _OOS_ABS,
    _A + "_BaseAttribute.__iter__": _OOS_ABS, _A + "_BaseAttribute._expand": _OOS_ABS, _A + "_BaseAttribute.as_array": _OOS_ABS,
    _A + "_BaseAttribute.clear": _OOS_ABS,
    _A + "_BaseAttribute.__repr__": "out-of-scope: printing", _A + "_BaseAttribute.__str__": "out-of-scope: printing",
    _A + "_BaseAttribute.empty": "out-of-scope: `len(self)==0`, not part of the statement",
    _A + "Attribute.__init__": "translated",            # sparseInit; init_bridge
    _A + "Attribute.__getitem__": "translated",         # sparseGetitem; sparseGetitem_bridge
    _A + "Attribute.__setitem__": "translated",         # sparseSetitem; sparseSetitem_bridge
    _A + "Attribute._expand": "translated",             # sparseExpand; expand_bridge
    _A + "Attribute.__len__": "translated",             # sparseLen; len_bridge
    _A + "Attribute.__iter__": "out-of-scope: iteration over the non-default keys, not part of the statement",
    _A + "Attribute.as_array": "translated",            # sparseAsArray; sparseAsArray_exact (Lemmas), step_asArray, src_sparse_refines
    _A + "Attribute.clear": "translated",               # sparseClear; sparseClear_bridge
    _A + "ArrayAttribute.__init__": "translated",       # denseInit; init_bridge
    _A + "ArrayAttribute._check_out_of_bounds": "translated",   # checkOutOfBounds + oobGuard; checkOutOfBounds_bridge, gen_oobGuard_exact
    _A + "ArrayAttribute.__getitem__": "translated",    # denseGetitem; denseGetitem_bridge, denseGetitem_val
    _A + "ArrayAttribute.__setitem__": "translated",    # denseSetitem; denseSetitem_bridge
    _A + "ArrayAttribute._expand": "translated",        # denseExpand; expand_bridge, append_all_attributes
    _A + "ArrayAttribute.__len__": "translated",        # denseLen; len_bridge
    _A + "ArrayAttribute.__iter__": "out-of-scope: iteration over the rows, not part of the statement",
    _A + "ArrayAttribute.as_array": "translated",       # denseAsArray; denseAsArray_bridge
    _A + "ArrayAttribute.clear": "translated",          # denseClear; denseClear_bridge
    _D + "_BaseDataContainer.__init__": "translated",   # baseContInit; contInit_bridge (round 7)
    _D + "_BaseDataContainer.empty": _OOS_ABS, _D + "_BaseDataContainer.clear": _OOS_ABS, _D + "_BaseDataContainer.append": _OOS_ABS,
    _D + "_BaseDataContainer.attributes": "out-of-scope: key view of the attribute dict",
    _D + "_BaseDataContainer.create_attribute": "translated",     # createAttribute; createAttribute_bridge
    _D + "_BaseDataContainer.register_array_as_attribute": "translated",      # registerArray; registerArray_spec / _newaxis / _bad_shape (round 6); also driven by family t=reg
    _D + "_BaseDataContainer.delete_attribute": "translated",     # deleteAttribute; deleteAttribute_bridge
    _D + "_BaseDataContainer.has_attribute": "translated",        # hasAttribute; hasAttribute_len_bridge
    _D + "_BaseDataContainer.get_attribute": "translated",        # getAttribute; getAttribute_bridge
    _D + "DataContainer.__init__": "translated",                  # contInit; contInit_bridge, srcInit_by_code (round 7)
    _D + "DataContainer.__getitem__": "out-of-scope: element access, not attributes",
    _D + "DataContainer.__setitem__": "out-of-scope: element access, not attributes",
    _D + "DataContainer.__iter__": "out-of-scope: element access, not attributes",
    _D + "DataContainer.__repr__": "out-of-scope: printing", _D + "DataContainer.__str__": "out-of-scope: printing",
    _D + "DataContainer.__len__": "translated",                   # contLen; hasAttribute_len_bridge
    _D + "DataContainer.size": "out-of-scope: alias of len(container)",
    _D + "DataContainer.empty": "out-of-scope: `not self._data`, not part of the statement",
    _D + "DataContainer.clear": "translated",                     # contClear; contClear_bridge
    _D + "DataContainer.append": "translated",                    # contAppend; contAppend_bridge, append_all_attributes
    _D + "DataContainer.__iadd__": "translated",                  # contIadd; contIadd_bridge, iadd_all_attributes
}
for _m in ("__init__", "__getitem__", "element", "adj", "__iter__", "__repr__", "__str__", "size", "__len__", "empty", "clear", "append", "__iadd__"):
    SOURCE_MAP[_D + "CornerDataContainer." + _m] = _OOS_CORNER


MANIFEST = {
    "level_text": ("Proof. Lean 4 theorems about an executable heap model of the sparse (dict of vector objects) and dense (one matrix "
                   "object, row views) attribute storages and of container growth: for EVERY operation script both storages refine one "
                   "total-map specification (last accepted write or default at every index of the container; identical accept/reject; "
                   "dense: every index outside [0,size) is OutOfBounds), hence agree with each other; growth keeps the dense storage "
                   "aligned and new entries read the default; an in-place update of a value obtained by reading entry i changes no "
                   "other entry (invariant: distinct keys own distinct heap cells, defaults are handed out as fresh copies). The cast "
                   "lattice, the default values, the dense bounds guard and the Type table are re-extracted from the source on every "
                   "run and the theorems are re-checked against them. The model is tied to the Python classes by a per-operation "
                   "trace correspondence on both storages and a direct oracle. Round 4: the bodies of the attribute classes and of the "
                   "container methods are compiled from the working tree on every run and proved equal to the model's primitives "
                   "(bridge theorems), and growth is proved aligned for ANY number of attributes sharing one heap."),
    "level_note": ("Trusted: Lean kernel + propext/Classical.choice/Quot.sound; the hand-written model (checked against the code on the "
                   "scripts of each run only); the ast translator; numpy view/copy rules observed from outside; the updated entry itself "
                   "is unconstrained after an in-place update (masked)."),
    "technique": "Lean 4 refinement proof (heap model -> total-map spec) + translated tables/guards; differential trace correspondence",
}
