"""C19 — samplers stay on their domain; Bezier evaluation matches the Bernstein form.

Cases are JSON dicts; every number is a string "p/q" (exact value of the float handed to the code).
`numpy.random` is replaced by a recorded stream (draws are part of the case), so every sampler is a
deterministic function that the Lean model (Model/Sampling.lean, Model/Bezier.lean) re-computes exactly.
"""
import ast, contextlib, functools, hashlib, json, math, os, random as _random
from fractions import Fraction

from .. import translate as T
from ..gen import mesh as G

PID = "C19"
TITLE = "Samplers stay on their domain; Bezier evaluation matches Bernstein form"
LEAN_MODULES = ["Mouette.Props.C19", "Mouette.Props.C19Source", "Mouette.Props.C19Ext", "Mouette.Props.C19Hist", "Mouette.Props.C19Fn", "Mouette.Props.C19Bez"]
REQUIRED_THEOREMS = [
    # sampling
    "box_uniform_contained", "box_grid_contained", "box_grid_count", "sphere_on_sphere", "ball_in_ball",
    "cbrt_unit_interval", "polyline_point_on_edge", "surface_point_barycentric", "probs_sum_one",
    "probs_nonneg", "probs_proportional", "sampled_normal_is_face_normal",
    # bezier
    "deCasteljau_eq_deC", "deCasteljau_eq_bernstein", "deCasteljau_zero", "deCasteljau_one",
    "bernstein_nonneg", "bernstein_sum_one", "evaluate_rejects", "patch_eq_bernstein",
    "surface_indices_in_range", "vertexIndex_injective", "gridPairs_index", "polyline_indices_in_range",
    # bridges to the translated fragments
    "bridge_surfQuad", "bridge_surfRanges", "bridge_polyEdge", "bridge_ballCoord", "bridge_aabbUniform",
    "bridge_aabbGrid",
    # the statements literally on the extracted source expressions, and further consequences
    "ball_in_ball_source", "box_contained_source", "surface_indices_in_range_source", "polyline_indices_in_range_source",
    "deCasteljau_between", "curve_eq_bernstein", "quad_grid_consistent", "surface_faces_in_range", "patch_rejects",
    "box_guard_gives_BoxLE", "face_normal_orthogonal", "ball_reaches_boundary", "box_grid_spans", "export_params_in_range", "deCasteljau_eq_mathlib_bernstein",
    # refutations of the pinned (unrepaired) laws on concrete witnesses
    "pinned_ball_law_refuted", "pinned_grid_law_refuted", "pinned_surface_index_refuted",
    # round 2 — Props/C19Source: bridges to further translated fragments + the clauses on the extracted expressions
    "bridge_triCoord", "bridge_triWeights", "surface_point_barycentric_source", "bridge_surfIndices", "bridge_surfProb",
    "surface_probabilities_source", "bridge_segCoord", "bridge_polyGuard", "bridge_polyProb", "polyline_point_on_edge_source",
    "bridge_sphereCoord", "sphere_on_sphere_source", "bridge_dcRaises", "dcRaises_iff", "bridge_dcLoop",
    "source_deCasteljau_eq_model", "source_deCasteljau_eq_bernstein", "bridge_evaluateRow", "bridge_patchEvaluate",
    "bridge_surfVert", "patch_eq_bernstein_source",
    # round 2 — Props/C19Ext: wrapping options (list level, all n) and the grid resolution
    "wrapPts_spec", "wrapSurface_spec", "polyline_out", "surface_out", "surface_out_no_normals", "sampled_normals_list",
    "wrapBox_spec", "pad3_spec", "grid_resolution_nearest_root", "grid_resolution_nearest_root_rat",
    "grid_resolution_integer_test", "grid_count_nearest_power", "grid_resolution_zero",
    # round 3 — Props/C19Hist: histories on one object (heap model of de_casteljau) and input representation
    "evaluation_keeps_control_net", "evaluation_history_pure", "source_evaluation_history_pure",
    "evaluation_layout_independent", "inplace_update_refuted", "evaluation_representation_independent",
    "patch_representation_independent", "sampler_history_pure",
    # round 4 — Props/C19Fn: the five samplers + AABB accessors translated as WHOLE functions (Generated/C19Fn*.lean), bridges
    # generated = hand model, and the clauses on the generated functions for ANY random stream; grid resolution without ties
    "bridge_AABB", "bridge_sample_sphere", "bridge_sample_ball", "bridge_boxAffine", "bridge_sample_polyline",
    "bridge_sample_surface", "bridge_sample_AABB", "bridge_defaults",
    "sphere_fn_on_sphere", "ball_fn_in_ball", "box_fn_returns_iff", "box_fn_contained", "polyline_fn_on_edges",
    "surface_fn_in_faces", "grid_no_halfway", "grid_resolution_unique", "grid_rounding_error_harmless",
    "grid_rounding_unique_int", "bridge_curveEvaluate", "bridge_orders", "curve_evaluate_source",
    # round 5 — Props/C19Bez: as_polyline / as_surface / the two constructors translated as WHOLE functions (Generated/C19Bez*.lean)
    "bridge_as_polyline", "bridge_as_surface", "bridge_inits", "bridge_export_descriptors", "as_polyline_source_spec",
    "as_polyline_rejects", "as_surface_source_spec", "init_representation_independent", "as_polyline_bernstein_source",
]
TRUSTED = [
    "Lean 4.33.0 kernel; axioms ⊆ {propext, Classical.choice, Quot.sound}",
    "hand-written models Mouette/Model/Sampling.lean, Bezier.lean tied to mouette/sampling.py, splines/bezier.py by "
    "(a) translated fragments (index expressions/range bounds of as_surface/as_polyline, operation order of sample_ball/"
    "sample_AABB/sample_sphere, barycentric map + probability vector + face/normal index of sample_surface, guard + "
    "interpolation + probability vector of sample_polyline, range guard + loop bounds + update expression of de_casteljau "
    "read as an imperative in-place loop, row/column ranges and parameters of BezierPatch._evaluate_row/evaluate/as_surface) "
    "with bridge lemmas and (b) the recorded-stream correspondence of this run",
    "Model/BezierHeap.lean: de_casteljau on an explicit heap (shallow copy of the control list, stores re-bind slots): the two "
    "facts are re-extracted from the source (dcWorksOnCopy, dcStoreRebinds); numpy arithmetic `t*a + (1-t)*b` is assumed to "
    "allocate a fresh array (T5). The samplers' purity w.r.t. their domain arguments is a structural check of the translator "
    "(no store into mesh/box/centre, attributes computed with persistent=False, float output buffer) plus the history cases",
    "Model/SamplingWrap.lean (return_point_cloud / return_normals as model functions) is tied to the code by the structural "
    "checks of the translator (which array is wrapped / returned) and by the oracle, not by the driver protocol",
    "numpy.random.{normal,uniform,random,choice} are replaced by a recorded stream: their distributions (normal direction "
    "uniform on the sphere, choice follows p) are NOT verified (T7); the chi-square test of the thorough tier is statistical",
    "sqrt / cbrt / norm are recorded parameters carrying a hypothesis (s*s=g.g, c^3=u); the hypothesis holds exactly on part "
    "of the draws (counted) and up to float rounding on the rest; float rounding itself is not modelled (tolerance 1e-9*scale+1e-12)",
    "numpy vector arithmetic is coordinatewise (the Bezier model evaluates each coordinate separately)",
    "the ast translator of vlib/props/c19.py (symbolic evaluation of the straight-line numpy statements)",
    "round 4 — whole-function translation (vlib/gen/c19_fn_translate.py -> Generated/C19Fn*.lean): trusted are the typed ast compiler and "
    "Model/SamplingSource.lean, i.e. the MEANING given to each recognised operation (numpy broadcasting of (n,d)/(n,1)/(d,) operands as "
    "map/zipWith, `for i,x in enumerate` + `buf[i,:] = ..` as a fold of `set`, PointCloud() / vertices += / attribute 'normals', "
    "from_arrays = zero padding to 3 columns, check_argument = membership test, out-of-range reads totalised); random draws (normal "
    "triples, uniforms, choice) and norm/cbrt/sqrt/round(n^(1/d)) are INJECTED arbitrary functions, so the theorems hold for any "
    "generator; that numpy.random.choice(size=n) returns n indices is a hypothesis of the polyline/surface bridges; float rounding of "
    "n**(1/d) is not modelled: grid_no_halfway / grid_rounding_error_harmless state when it cannot change round()",
    "round 5 — whole-function translation of BezierCurve.as_polyline, BezierPatch.as_surface and the two constructors "
    "(vlib/gen/c19_bez_translate.py -> Generated/C19Bez*.lean): trusted are that compiler and Model/BezierSource.lean (RawMeshData "
    "containers as lists with append at the end, a created vertex attribute as an ordered key/value store, `for` as a state-threading "
    "fold that stops at the first exception, PolyLine(out)/SurfaceMesh(out) keep the containers, Vec(x) is an injected value-preserving "
    "conversion, numpy vector arithmetic is coordinatewise (evalVec)); self.evaluate / self._evaluate_row / de_casteljau are injected "
    "functions in the export theorems and instantiated with the translated de_casteljau in as_polyline_bernstein_source",
]
ASSUMPTIONS = ["agreement model/implementation is established on the cases explored in this run only",
               "grid count: res = round(n^(1/d)) is taken as the meaning of 'nearest perfect power' (root nearest); the oracle's integer "
               "test (2res-1)^d <= 2^d n <= (2res+1)^d is proved equivalent to |res - n^(1/d)| <= 1/2 (grid_count_nearest_power)"]
RULE = ("sampler calls with recorded random streams (centres != 0, radii on both sides of 1, boxes of dimension 1-6 in both modes, "
        "empty boxes, polylines/triangulated surfaces from the shared generators incl. single-edge/single-face, normals/point-cloud "
        "switches) and Bezier curves/patches (degree 0-6, dim 1-4, parameters incl. 0, 1 and out-of-range, exports with unequal "
        "sample counts, custom positions); non-trivial = distinct case, call succeeded and returned >= 1 point (samplers) / "
        ">= 1 accepted parameter (evaluation) / >= 1 edge or face (exports). Round 3: 40 % of the cases hand the numbers over as "
        "Python ints / numpy ints / float32 / plain ndarray / tuples (case data = exact values; float32 compared at float32 precision), "
        "parameters as int / np.float32 / np.float64 / 0-d arrays; 30 % of the sampler cases make 1-2 earlier calls on the SAME centre / "
        "box / mesh object (other options and draws, attributes already stored on the mesh, vertices moved between the calls); histories "
        "of evaluations / exports on ONE BezierCurve / BezierPatch (end points again at the end, control net read back by value from the "
        "object and from the caller's array); default arguments (mode omitted, as_surface(), as_polyline()), sample counts 0 and 1")

FR = Fraction
ONE_MINUS = FR(2 ** 53 - 1, 2 ** 53)          # largest float < 1


# ------------------------------------------------------------------------------------------------
# number helpers
# ------------------------------------------------------------------------------------------------
def fs(x):
    """exact string of a number (float/Fraction/int); non-finite floats by name"""
    if isinstance(x, float) or hasattr(x, "dtype"):
        x = float(x)
        if math.isnan(x): return "nan"
        if math.isinf(x): return "inf" if x > 0 else "-inf"
    f = FR(x)
    return str(f.numerator) if f.denominator == 1 else f"{f.numerator}/{f.denominator}"


def fr(s):
    return FR(s)


def fl(s):
    return float(FR(s))


def _dy(rng, lo, hi, den):
    return FR(rng.randint(int(lo * den), int(hi * den)), den)


def _scale(case):
    m = FR(1)

    def walk(o):
        nonlocal m
        if isinstance(o, str):
            try: m = max(m, abs(FR(o)))
            except (ValueError, ZeroDivisionError): pass
        elif isinstance(o, (list, tuple)):
            for x in o: walk(x)
    for k in ("c", "r", "lo", "hi", "V", "P"):
        if k in case: walk(case[k])
    return float(m) * 4 + 1


def _tol(case):
    if case.get("rep") == "f32" or case.get("trep") == "f32":
        # float32 inputs: numpy keeps float32 intermediates (weak Python scalars); the statement is met at that precision
        return 4e-6 * _scale(case) + 1e-9
    return 1e-9 * _scale(case) + 1e-12


# ------------------------------------------------------------------------------------------------
# recorded random stream
# ------------------------------------------------------------------------------------------------
class Stream:
    def __init__(self, normal=(), uniform=(), choice=()):
        self.src = {"normal": list(normal), "uniform": list(uniform), "choice": list(choice)}
        self.pos = {"normal": 0, "uniform": 0, "choice": 0}
        self.log = []
        self.captured_p = []

    def take(self, kind, n):
        src = self.src[kind]
        if not src:
            src = [0.5] if kind != "choice" else [0]
        out = []
        for _ in range(n):
            out.append(src[self.pos[kind] % len(src)]); self.pos[kind] += 1
        return out


def _count(size):
    if size is None: return 1
    if isinstance(size, (tuple, list)):
        n = 1
        for s in size: n *= int(s)
        return n
    return int(size)


@contextlib.contextmanager
def patched(stream):
    import numpy as np
    import mouette.sampling as S

    def shape(vals, size):
        if size is None: return float(vals[0])
        return np.array(vals, dtype=float).reshape(size)

    def normal(loc=0.0, scale=1.0, size=None):
        stream.log.append(("normal", _count(size)))
        v = shape(stream.take("normal", _count(size)), size)
        return loc + scale * v

    def uniform(low=0.0, high=1.0, size=None):
        stream.log.append(("uniform", _count(size), fs(low), fs(high)))
        v = shape(stream.take("uniform", _count(size)), size)
        return low + (high - low) * v

    def rnd(size=None):
        stream.log.append(("random", _count(size)))
        return shape(stream.take("uniform", _count(size)), size)

    def choice(a, size=None, replace=True, p=None):
        n = _count(size)
        stream.log.append(("choice", int(a), n))
        stream.captured_p.append(None if p is None else [float(x) for x in np.asarray(p, dtype=float).ravel()] if np.ndim(p) <= 1 else "bad-shape")
        if p is not None and np.ndim(p) != 1:
            raise TypeError("'p' must be 1-dimensional")     # what numpy.random.choice does
        if int(a) <= 0:
            raise ValueError("a must be non-empty")
        vals = [int(v) % int(a) for v in stream.take("choice", n)]
        return np.array(vals, dtype=int) if size is not None else vals[0]

    saved = (np.random.normal, np.random.uniform, np.random.random, S.random, S.choice)
    np.random.normal, np.random.uniform, np.random.random, S.random, S.choice = normal, uniform, rnd, rnd, choice
    try:
        yield stream
    finally:
        np.random.normal, np.random.uniform, np.random.random, S.random, S.choice = saved


def _err(e):
    if isinstance(e, ValueError): return "err:Value"
    if isinstance(e, IndexError): return "err:Index"
    if isinstance(e, KeyError): return "err:Key"
    if isinstance(e, TypeError): return "err:Type"
    return f"err:Other({type(e).__name__})"


# ------------------------------------------------------------------------------------------------
# running the implementation
# ------------------------------------------------------------------------------------------------
@functools.lru_cache(maxsize=64)
def _built_cached(key):
    case = json.loads(key)
    if case["t"] == "polyline" or case.get("kind") == "polyline":
        m = G.build_polyline({"V": [[fl(c) for c in v] for v in case["V"]], "E": case["E"]})
        return ([[FR(float(c)) for c in m.vertices[i]] for i in range(len(m.vertices))], [tuple(int(x) for x in e) for e in m.edges])
    m = G.build_surface({"V": [[fl(c) for c in v] for v in case["V"]], "F": case["F"]})
    return ([[FR(float(c)) for c in m.vertices[i]] for i in range(len(m.vertices))], [tuple(int(x) for x in f) for f in m.faces])


def _built(case):
    """vertices / elements of the mesh *as mouette built it* (plain exact data, cached)"""
    return _built_cached(json.dumps({k: case[k] for k in ("t", "kind", "V", "E", "F") if k in case}, sort_keys=True))


def _mode(case):
    """mode of a sample_AABB call; None = argument omitted (documented default 'uniform')"""
    return "uniform" if case.get("mode") is None else case["mode"]


def _ival(x):
    f = FR(x)
    if f.denominator != 1: raise ValueError(f"case marked integer-valued holds {x}")
    return int(f)


def _point_obj(vals, rep, vec=True):
    """a point (centre / box corner / vertex / control point) as the caller hands it over, in representation `rep`"""
    import numpy as np
    import mouette as M
    if rep in (None, "float"):
        return M.Vec(*[fl(v) for v in vals]) if vec else [fl(v) for v in vals]
    if rep == "int": return M.Vec(*[_ival(v) for v in vals]) if vec else [_ival(v) for v in vals]
    if rep == "npint": return np.array([_ival(v) for v in vals], dtype=np.int32)
    if rep == "f32": return np.array([fl(v) for v in vals], dtype=np.float32)
    if rep == "nd": return np.array([fl(v) for v in vals], dtype=np.float64)
    if rep == "tuple": return tuple(fl(v) for v in vals)
    if rep == "list": return [fl(v) for v in vals]
    if rep == "ituple": return tuple(_ival(v) for v in vals)
    raise AssertionError(rep)


def _scalar_obj(v, rep):
    import numpy as np
    if rep in (None, "float", "tuple", "list"): return fl(v)
    if rep in ("int", "ituple"): return _ival(v)
    if rep == "npint": return np.int64(_ival(v))
    if rep == "f32": return np.float32(fl(v))
    if rep == "nd": return np.array(fl(v))
    raise AssertionError(rep)


def _f32(x):
    import numpy as np
    return fs(float(np.float32(fl(x))))


def _reprify(case, rep):
    """rewrite the numbers of a case so that they are exactly representable in `rep` (the case always records the exact
    values handed to the library) and mark the case"""
    if rep in (None, "float"): return case
    integer = rep in ("int", "npint", "ituple")
    def q(x): return fs(FR(round(FR(x)))) if integer else (_f32(x) if rep == "f32" else x)
    def qq(o): return [qq(x) for x in o] if isinstance(o, list) else q(o)
    t = case["t"]
    if t in ("sphere", "ball"):
        case["c"] = qq(case["c"]); r = q(case["r"])
        if FR(r) <= 0: r = "1"
        case["r"] = r
    elif t == "box":
        lo = qq(case["lo"]); hi = qq(case["hi"])
        if integer and all(FR(a) < FR(b) for a, b in zip(case["lo"], case["hi"])):   # keep non-empty boxes non-empty
            hi = [h if FR(l) < FR(h) else fs(FR(l) + 1) for l, h in zip(lo, hi)]
        case["lo"], case["hi"] = lo, hi
    elif t in ("polyline", "surface"):
        allV = [case["V"]] + [pr["V"] for pr in case.get("prior", []) if "V" in pr]
        if integer:
            # integer lattice positions by an exact similarity (generator coordinates are multiples of 1/64, moved copies of
            # 1/128): no rounding, so the conditioning guaranteed by the mesh generators is kept; otherwise keep floats
            if not all((FR(c) * 128).denominator == 1 for V in allV for v in V for c in v):
                return case
            conv = lambda V: [[fs(FR(c) * 128) for c in v] for v in V]
        else:
            conv = qq
            if rep == "f32" and any(FR(_f32(c)) != FR(c) for V in allV for v in V for c in v):
                return case          # float32 would round the positions (and could flatten a thin face): keep floats
        case["V"] = conv(case["V"])
        for pr in case.get("prior", []):
            if "V" in pr: pr["V"] = conv(pr["V"])
    elif "P" in case:
        case["P"] = qq(case["P"])
    case["rep"] = rep
    return case


def _mesh_with(case, V):
    """build the mouette mesh of a polyline/surface case with vertices in the case's representation"""
    import mouette as M
    rep = case.get("rep")
    d = M.mesh.RawMeshData()
    if rep == "npint":
        # int64 rows: with int32 vertex arrays mouette's geometry helpers (cross / norm in attributes.face_area, face_normals)
        # overflow already for coordinates of a few hundred (numpy integer arithmetic) - reported as an observation for the
        # owners of geometry/attributes, not demanded from the samplers
        import numpy as np
        d.vertices += [np.array([_ival(c) for c in v], dtype=np.int64) for v in V]
    else:
        d.vertices += [_point_obj(v, rep) for v in V]
    if case["t"] == "polyline" or case.get("kind") == "polyline":
        d.edges += [tuple(e) for e in case["E"]]
        return M.mesh.PolyLine(d)
    d.faces += [list(f) for f in case["F"]]
    return M.mesh.SurfaceMesh(d)


def _fresh_mesh(case):
    return _mesh_with(case, case["V"])


def _views(case):
    """the calls made on ONE domain object: the prior calls (overrides of n / options / draws / vertex positions), then
    the call the case is about"""
    base = {k: v for k, v in case.items() if k != "prior"}
    return [dict(base, **p) for p in case.get("prior", [])] + [base]


def _stream_for(case):
    t = case["t"]
    if t in ("sphere", "ball"):
        g = case["g"]
        normal = [fl(v[0]) for v in g] + [fl(v[1]) for v in g] + [fl(v[2]) for v in g]
        return Stream(normal=normal, uniform=[fl(u) for u in case.get("u", [])])
    if t == "box":
        return Stream(uniform=[fl(x) for row in case["u"] for x in row])
    if t == "polyline":
        return Stream(uniform=[fl(x) for x in case["tt"]], choice=case["e"])
    if t == "surface":
        return Stream(uniform=[fl(x) for row in case["uu"] for x in row], choice=case["f"])
    return Stream()


def _points_of(ret):
    """numpy array or PointCloud -> list of rows of floats"""
    import numpy as np
    if hasattr(ret, "vertices"):
        return [[float(c) for c in ret.vertices[i]] for i in range(len(ret.vertices))]
    a = np.asarray(ret, dtype=float)
    if a.ndim != 2:
        raise AssertionError(f"returned array has shape {a.shape}")
    return [[float(c) for c in row] for row in a]


def run_sampler_all(case):
    """Calls the real sampler under recorded streams: every prior call, then the main call, all on the SAME domain
    object (centre / box / mesh built once). Returns [(view, result)], result = dict(err, exc, pts, normals, stream, is_pc)."""
    import numpy as np
    import mouette as M
    from mouette import sampling as S
    t = case["t"]
    rep = case.get("rep")
    views = _views(case)
    res = []
    dom = {}
    try:
        if t in ("sphere", "ball"):
            dom["c"] = _point_obj(case["c"], rep); dom["r"] = _scalar_obj(case["r"], rep)
        elif t == "box":
            from mouette.geometry import AABB
            dom["box"] = AABB(_point_obj(case["lo"], rep, vec=False), _point_obj(case["hi"], rep, vec=False))
        else:
            dom["mesh"] = _mesh_with(case, views[0]["V"]); dom["V"] = views[0]["V"]
            if case.get("pre_attr"):
                # attributes of the same name / meaning already stored on the mesh by the user
                if t == "polyline": M.attributes.edge_length(dom["mesh"])
                else:
                    M.attributes.face_area(dom["mesh"]); M.attributes.face_normals(dom["mesh"])
    except Exception as e:  # noqa
        return [(views[-1], {"err": _err(e), "exc": e, "pts": None, "normals": None, "stream": Stream(), "is_pc": False})]
    for view in views:
        st = _stream_for(view)
        out = {"err": None, "exc": None, "pts": None, "normals": None, "stream": st, "is_pc": False}
        pc = view.get("pc", False)
        try:
            if t in ("polyline", "surface") and view["V"] != dom["V"]:
                import numpy as _np
                for i, v in enumerate(view["V"]):          # the user moves the vertices between two calls
                    dom["mesh"].vertices[i] = _np.array([_ival(c) for c in v], dtype=_np.int64) if rep == "npint" else _point_obj(v, rep)
                dom["V"] = view["V"]
            with patched(st):
                if t == "sphere":
                    ret = S.sample_sphere(dom["c"], dom["r"], view["n"], return_point_cloud=pc)
                elif t == "ball":
                    ret = S.sample_ball(dom["c"], dom["r"], view["n"], return_point_cloud=pc)
                elif t == "box":
                    kw = {} if view["mode"] is None else {"mode": view["mode"]}
                    ret = S.sample_AABB(dom["box"], view["n"], return_point_cloud=pc, **kw)
                elif t == "polyline":
                    ret = S.sample_polyline(dom["mesh"], view["n"], return_point_cloud=pc)
                elif t == "surface":
                    ret = S.sample_surface(dom["mesh"], view["n"], return_point_cloud=pc, return_normals=view.get("normals", False))
                    if view.get("normals", False):
                        if pc:
                            att = ret.vertices.get_attribute("normals")
                            out["normals"] = [[float(c) for c in att[i]] for i in range(len(ret.vertices))]
                        else:
                            ret, nr = ret
                            out["normals"] = [[float(c) for c in row] for row in np.asarray(nr, dtype=float).reshape((-1, 3))]
                else:
                    raise AssertionError(t)
            out["is_pc"] = hasattr(ret, "vertices")
            out["pts"] = _points_of(ret)
        except Exception as e:  # noqa
            out["err"] = _err(e); out["exc"] = e
        res.append((view, out))
    return res


def run_sampler(case):
    """result of the main (last) call"""
    return run_sampler_all(case)[-1][1]


def _strip_pad(pts, d):
    """point clouds are 3-D: drop the zero padding of lower-dimensional boxes (kept if non-zero)"""
    res = []
    for p in pts:
        if len(p) > d and all(c == 0.0 for c in p[d:]):
            p = p[:d]
        res.append(p)
    return res


def _num(case, c):
    """a control coordinate as the caller would pass it: a float, or a Python int when the case says so"""
    return int(FR(c)) if case.get("ints") else fl(c)


def _integerise(case):
    """round every control coordinate to an integer and mark the case so that ints (not floats) are handed to the library"""
    def r(c): return fs(FR(round(FR(c))))
    if case["t"] in ("curve", "cpoly"):
        case["P"] = [[r(c) for c in p] for p in case["P"]]
    else:
        case["P"] = [[[r(c) for c in p] for p in row] for row in case["P"]]
    case["ints"] = True
    return case


def _net_rep(case):
    return case.get("rep") or ("int" if case.get("ints") else "float")


def _is_curve(case):
    return case["t"] in ("curve", "cpoly", "chist")


def _net_held(case):
    """the control net as the caller holds it and hands it to the constructor, in the case's representation"""
    import numpy as np
    rep = _net_rep(case)
    P = case["P"]
    if rep in ("npint", "f32", "nd"):
        dt = {"npint": np.int64, "f32": np.float32, "nd": np.float64}[rep]
        conv = (lambda c: _ival(c)) if rep == "npint" else fl
        if _is_curve(case): return np.array([[conv(c) for c in p] for p in P], dtype=dt)
        return np.array([[[conv(c) for c in p] for p in row] for row in P], dtype=dt)
    pt = {"float": lambda p: [fl(c) for c in p], "int": lambda p: [_ival(c) for c in p], "list": lambda p: [fl(c) for c in p],
          "tuple": lambda p: tuple(fl(c) for c in p), "ituple": lambda p: tuple(_ival(c) for c in p)}[rep]
    wrap = tuple if rep in ("tuple", "ituple") else list
    if _is_curve(case): return wrap(pt(p) for p in P)
    return wrap(wrap(pt(p) for p in row) for row in P)


def _held_values(held):
    """exact values of a caller-held control net (nested sequences / ndarray) as nested lists of Fractions"""
    import numpy as np
    if isinstance(held, (list, tuple)) or (isinstance(held, np.ndarray) and held.ndim > 0):
        return [_held_values(x) for x in held]
    return FR(float(held)) if not isinstance(held, (int, np.integer)) else FR(int(held))


def _bezier_from(case, held):
    import mouette as M
    return M.splines.BezierCurve(held) if _is_curve(case) else M.splines.BezierPatch(held)


def _bezier_objs(case):
    return _bezier_from(case, _net_held(case))


def _param_obj(s, trep):
    """a parameter value as the caller passes it"""
    import numpy as np
    if s == "nan": return float("nan")
    v = fl(s)
    if trep == "pyint" and FR(s) in (0, 1): return int(FR(s))
    if trep == "f32" and float(np.float32(v)) == v: return np.float32(v)
    if trep == "np64": return np.float64(v)
    if trep == "0d": return np.array(v)
    return v


def _do_eval(obj, params, trep):
    try:
        return ("p", [float(c) for c in obj.evaluate(*[_param_obj(x, trep) for x in params])])
    except Exception as e:  # noqa
        return ("err", _err(e))


def _do_poly(obj, n, custom, trep=None):
    kw = {}
    if n is not None: kw["n_pts"] = n
    if custom is not None:
        if trep == "0d":      # the natural numpy form of a list of positions: a 1-D array
            import numpy as np
            kw["custom_pos"] = np.array([fl(x) for x in custom])
        else:
            kw["custom_pos"] = [_param_obj(x, trep) for x in custom]
    out = {"err": None, "exc": None}
    try:
        pl = obj.as_polyline(**kw)
        att = pl.vertices.get_attribute("t")
        out["verts"] = [[float(c) for c in pl.vertices[i]] for i in range(len(pl.vertices))]
        out["params"] = [float(att[i]) for i in range(len(pl.vertices))]
        out["edges"] = sorted(sorted(int(x) for x in e) for e in pl.edges)
    except Exception as e:  # noqa
        out["err"] = _err(e); out["exc"] = e
    return out


def _do_surf(obj, n1, n2, noargs=False):
    out = {"err": None, "exc": None}
    try:
        sm = obj.as_surface() if noargs else obj.as_surface(n1, n2)
        att = sm.vertices.get_attribute("uv_coords")
        out["verts"] = [[float(c) for c in sm.vertices[i]] for i in range(len(sm.vertices))]
        out["params"] = [[float(c) for c in att[i]] for i in range(len(sm.vertices))]
        out["faces"] = [[int(x) for x in f] for f in sm.faces]
    except Exception as e:  # noqa
        out["err"] = _err(e); out["exc"] = e
    return out


def _net_values(obj, curve):
    """exact values of the control net stored in the object (BezierCurve.pts / BezierPatch.pts)"""
    if curve:
        return [[FR(float(c)) for c in obj.pts[i]] for i in range(len(obj.pts))]
    return [[[FR(float(c)) for c in p] for p in row] for row in obj.pts]


def run_hist(case):
    """a history of operations on ONE BezierCurve / BezierPatch object. Returns dict(err, steps=[(op, result)],
    net_after, held_after): the control net is read back BY VALUE from the object and from the caller-held input."""
    out = {"err": None, "exc": None, "steps": []}
    curve = _is_curve(case)
    trep = case.get("trep")
    try:
        held = _net_held(case)
        obj = _bezier_from(case, held)
    except Exception as e:  # noqa
        out["err"] = _err(e); out["exc"] = e
        return out
    for op in case["ops"]:
        k = op[0]
        if k == "e": r = _do_eval(obj, op[1:], trep)
        elif k == "poly": r = _do_poly(obj, op[1], None)
        elif k == "polyc": r = _do_poly(obj, op[1], op[2], trep)
        elif k == "surf": r = _do_surf(obj, op[1], op[2])
        else: raise AssertionError(op)
        out["steps"].append((op, r))
    try:
        out["net_after"] = _net_values(obj, curve)
        out["held_after"] = _held_values(held)
    except Exception as e:  # noqa
        out["err"] = _err(e); out["exc"] = e
    return out


def _canon_quads(faces):
    out = []
    for f in faces:
        f = [int(x) for x in f]
        k = f.index(min(f))
        out.append(f[k:] + f[:k])
    return sorted(out)


def run_bezier(case):
    """returns dict(err, evals=[('p',[floats])|('err',token)], verts, params, edges/faces)"""
    t = case["t"]
    out = {"err": None, "exc": None}
    trep = case.get("trep")
    try:
        obj = _bezier_objs(case)
    except Exception as e:  # noqa
        out["err"] = _err(e); out["exc"] = e
        return out
    if t == "curve":
        out["evals"] = [_do_eval(obj, [x], trep) for x in case["ts"]]
    elif t == "patch":
        out["evals"] = [_do_eval(obj, [a, b], trep) for (a, b) in case["uv"]]
    elif t == "cpoly":
        out.update(_do_poly(obj, case.get("n"), case.get("custom"), trep))
    elif t == "psurf":
        out.update(_do_surf(obj, case["n1"], case["n2"], case.get("noargs", False)))
    return out


# ------------------------------------------------------------------------------------------------
# recorded irrational parameters (what the model receives instead of evaluating a root)
# ------------------------------------------------------------------------------------------------
def _norm3(g):
    import numpy as np
    return float(np.linalg.norm(np.array([[fl(x) for x in g]]), axis=1)[0])


def _cbrt(u):
    import numpy as np
    return float(np.cbrt(fl(u)))


def _sqrt(u):
    import numpy as np
    return float(np.sqrt(fl(u)))


def _sub(a, b): return [x - y for x, y in zip(a, b)]
def _dot(a, b): return sum(x * y for x, y in zip(a, b))
def _cross(a, b): return [a[1] * b[2] - a[2] * b[1], a[2] * b[0] - a[0] * b[2], a[0] * b[1] - a[1] * b[0]]


def _edge_len(V, e):
    return math.sqrt(_dot(_sub(V[e[0]], V[e[1]]), _sub(V[e[0]], V[e[1]])))


def _face_area(V, f):
    c = _cross(_sub(V[f[1]], V[f[0]]), _sub(V[f[2]], V[f[0]]))
    return math.sqrt(_dot(c, c)) / 2


def _grid_res(n, d):
    import numpy as np
    return int(round(np.power(n, 1 / d)))


def _hyp(case):
    """number of recorded parameters on which the theorems' hypothesis holds exactly (same count as the driver)"""
    t = case["t"]
    if t == "sphere":
        k = 0
        for g in case["g"][:case["n"]]:
            s = FR(_norm3(g)); gg = [fr(x) for x in g]
            k += int(s * s == _dot(gg, gg) and s != 0)
        return [k]
    if t == "ball":
        k = 0
        for g, u in zip(case["g"][:case["n"]], case["u"]):
            s = FR(_norm3(g)); gg = [fr(x) for x in g]; cb = FR(_cbrt(u))
            k += int(s * s == _dot(gg, gg) and s != 0 and cb ** 3 == fr(u))
        return [k]
    if t == "polyline":
        V, E = _built(case)
        return [sum(int(FR(_edge_len(V, e)) ** 2 == _dot(_sub(V[e[0]], V[e[1]]), _sub(V[e[0]], V[e[1]]))) for e in E)]
    if t == "surface":
        V, F = _built(case)
        ka = 0
        for f in F:
            c = _cross(_sub(V[f[1]], V[f[0]]), _sub(V[f[2]], V[f[0]]))
            ka += int((2 * FR(_face_area(V, f))) ** 2 == _dot(c, c))
        ks = sum(int(FR(_sqrt(u1)) ** 2 == fr(u1)) for u1, _ in case["uu"][:case["n"]])
        return [ka, ks]
    return []


# ------------------------------------------------------------------------------------------------
# protocol
# ------------------------------------------------------------------------------------------------
def _coord_major(P):
    d = len(P[0])
    return [[p[k] for p in P] for k in range(d)]


def model_request(case):
    t = case["t"]
    if t == "sphere":
        toks = ["sphere"] + case["c"] + [case["r"], str(case["n"])]
        for g in case["g"][:case["n"]]:
            toks += list(g) + [fs(_norm3(g))]
        return " ".join(toks)
    if t == "ball":
        toks = ["ball"] + case["c"] + [case["r"], str(case["n"])]
        for g, u in zip(case["g"][:case["n"]], case["u"]):
            toks += list(g) + [fs(_norm3(g)), u, fs(_cbrt(u))]
        return " ".join(toks)
    if t == "box":
        d = len(case["lo"])
        if not isinstance(_mode(case), str) or len(case["hi"]) != d:
            return None
        res = 0
        if _mode(case) == "grid" and d > 0 and case["n"] >= 0:
            res = _grid_res(case["n"], d)
        rows = case["u"][:case["n"]] if _mode(case) == "uniform" else []
        mode_tok = _mode(case) if _mode(case) in ("uniform", "grid") else "invalid"
        toks = ["box", mode_tok, "1" if case.get("pc") else "0", str(d)] + case["lo"] + case["hi"] + [str(res), str(len(rows))]
        for row in rows: toks += list(row)
        return " ".join(toks)
    if t == "polyline":
        V, E = _built(case)
        if not E: return None
        toks = ["polyline", str(len(V))] + [fs(c) for v in V for c in v] + [str(len(E))]
        for e in E: toks += [str(e[0]), str(e[1]), fs(_edge_len(V, e))]
        toks.append(str(case["n"]))
        for i in range(case["n"]):
            ei = (case["e"][i % len(case["e"])] % len(E)) if len(E) > 1 else 0
            toks += [str(ei), case["tt"][i % len(case["tt"])]]
        return " ".join(toks)
    if t == "surface":
        V, F = _built(case)
        if not F or any(len(f) != 3 for f in F): return None
        toks = ["surface", str(len(V))] + [fs(c) for v in V for c in v] + [str(len(F))]
        for f in F: toks += [str(f[0]), str(f[1]), str(f[2]), fs(_face_area(V, f))]
        toks += ["1" if case.get("normals") else "0", str(case["n"])]
        for i in range(case["n"]):
            u1, u2 = case["uu"][i % len(case["uu"])]
            toks += [str(case["f"][i % len(case["f"])] % len(F)), u1, fs(_sqrt(u1)), u2]
        return " ".join(toks)
    if t in ("chist", "phist"):
        ev = [op[1:] for op in case["ops"] if op[0] == "e"]
        if not ev: return None
        pseudo = {"t": "curve", "P": case["P"], "ts": [e[0] for e in ev]} if t == "chist" else {"t": "patch", "P": case["P"], "uv": [list(e) for e in ev]}
        return model_request(pseudo)
    if t == "curve":
        if any(s == "nan" for s in case["ts"]): return None
        cm = _coord_major(case["P"])
        toks = ["curve", str(len(cm)), str(len(case["P"]))] + [c for row in cm for c in row] + [str(len(case["ts"]))] + case["ts"]
        return " ".join(toks)
    if t == "patch":
        P = case["P"]; d = len(P[0][0])
        toks = ["patch", str(d), str(len(P)), str(len(P[0]))]
        for k in range(d):
            for row in P: toks += [p[k] for p in row]
        toks.append(str(len(case["uv"])))
        for a, b in case["uv"]: toks += [a, b]
        return " ".join(toks)
    if t == "cpoly":
        cm = _coord_major(case["P"])
        toks = ["cpoly", str(len(cm)), str(len(case["P"]))] + [c for row in cm for c in row]
        if case.get("custom") is not None:
            toks += ["1", str(len(case["custom"]))] + case["custom"]
        else:
            toks += ["0", str(case["n"] if case.get("n") is not None else 100)]
        return " ".join(toks)
    if t == "psurf":
        P = case["P"]; d = len(P[0][0])
        toks = ["psurf", str(d), str(len(P)), str(len(P[0]))]
        for k in range(d):
            for row in P: toks += [p[k] for p in row]
        toks += [str(case["n1"]), str(case["n2"])]
        return " ".join(toks)
    return None


def _fmt_pts(pts):
    return " ".join(fs(c) for p in pts for c in p)


def impl_observe(case):
    t = case["t"]
    if t == "chi2":
        return "statistical"
    if t in ("sphere", "ball", "box", "polyline", "surface"):
        r = run_sampler(case)
        if r["err"]:
            return r["err"]
        pts = r["pts"]
        if t in ("sphere", "ball"):
            return " ".join(x for x in ["ok", str(len(pts)), "3", _fmt_pts(pts), "hyp", str(_hyp(case)[0])] if x != "")
        if t == "box":
            d = len(case["lo"])
            if r["is_pc"]: pts = _strip_pad(pts, d)
            if _mode(case) == "grid": pts = sorted(pts)
            return " ".join(x for x in ["ok", str(len(pts)), str(d), _fmt_pts(pts)] if x != "")
        cp = r["stream"].captured_p
        p = cp[0] if cp else []
        if p is None or p == "bad-shape": p = []
        head = ["ok", "probs", str(len(p))] + [fs(x) for x in p] + ["pts", str(len(pts)), "3", _fmt_pts(pts)]
        if t == "polyline":
            return " ".join(x for x in head + ["hyp", str(_hyp(case)[0])] if x != "")
        nr = r["normals"] or []
        h = _hyp(case)
        return " ".join(x for x in head + ["nrm", str(len(nr)), _fmt_pts(nr), "hyp", str(h[0]), str(h[1])] if x != "")
    if t in ("chist", "phist"):
        r = run_hist(case)
        if r["err"]:
            return r["err"]
        r["evals"] = [res for op, res in r["steps"] if op[0] == "e"]
        t = "curve"
    else:
        r = run_bezier(case)
    if r["err"]:
        return r["err"]
    if t in ("curve", "patch"):
        toks = ["ok", str(len(r["evals"]))]
        for k, v in r["evals"]:
            toks += (["p"] + [fs(c) for c in v]) if k == "p" else [v]
        return " ".join(toks)
    d = len(case["P"][0]) if t == "cpoly" else len(case["P"][0][0])
    vs = _strip_pad(r["verts"], d)
    if t == "cpoly":
        toks = ["ok", "V", str(len(vs))]
        for tv, v in zip(r["params"], vs): toks += [fs(tv)] + [fs(c) for c in v]
        toks += ["E", str(len(r["edges"]))] + [str(x) for e in r["edges"] for x in e]
        return " ".join(toks)
    toks = ["ok", "V", str(len(vs))]
    for uv, v in zip(r["params"], vs): toks += [fs(c) for c in uv] + [fs(c) for c in v]
    fc = _canon_quads(r["faces"])
    toks += ["F", str(len(fc))] + [str(x) for f in fc for x in f]
    return " ".join(toks)


def _is_num(tok):
    try:
        FR(tok); return True
    except (ValueError, ZeroDivisionError):
        return False


def compare(case, model, impl):
    t = case["t"]
    mt, it = model.split(), impl.split()
    if t == "box" and _mode(case) == "grid" and mt[:1] == ["ok"] and len(mt) >= 3:
        # order of grid points is not constrained by the property: compare as sorted point lists
        n, d = int(mt[1]), int(mt[2])
        if d > 0 and len(mt) == 3 + n * d:
            rows = sorted([mt[3 + i * d: 3 + (i + 1) * d] for i in range(n)], key=lambda r: [FR(x) for x in r])
            mt = mt[:3] + [x for r in rows for x in r]
    if t == "surface" and mt[:1] == ["ok"] and "nrm" in mt and it[:1] == ["ok"]:
        # the model outputs the un-normalised cross product; normalise (sqrt outside the model)
        i0 = mt.index("nrm"); k = int(mt[i0 + 1])
        for j in range(k):
            v = [FR(x) for x in mt[i0 + 2 + 3 * j: i0 + 5 + 3 * j]]
            nn = math.sqrt(_dot(v, v))
            if nn == 0:
                return "model: degenerate face normal requested (generator should avoid zero-area faces)"
            mt[i0 + 2 + 3 * j: i0 + 5 + 3 * j] = [fs(float(x) / nn) for x in v]
    if len(mt) != len(it):
        return f"reply shapes differ: model has {len(mt)} tokens ({' '.join(mt[:6])} ..), implementation {len(it)} ({' '.join(it[:6])} ..)"
    tol = _tol(case)
    for k, (a, b) in enumerate(zip(mt, it)):
        if a == b: continue
        if _is_num(a) and _is_num(b):
            if abs(float(FR(a) - FR(b))) <= tol: continue
            return f"token {k}: model {float(FR(a))!r} vs implementation {float(FR(b))!r} (tol {tol:.2e}); context {' '.join(mt[max(0, k - 3):k])}"
        return f"token {k}: model '{a[:40]}' vs implementation '{b[:40]}'"
    return None


# ------------------------------------------------------------------------------------------------
# oracle: the property stated directly on the implementation (no Lean model involved)
# ------------------------------------------------------------------------------------------------
def _finding(key, what, detail=""):
    return {"key": key, "what": what, "detail": str(detail)[:500]}


def _rtag(r):
    r = fr(r)
    return "r<1" if r < 1 else ("r=1" if r == 1 else "r>1")


def _on_segment(p, A, B, tol):
    """exact test (Fractions) that p is within tol of segment [A,B]"""
    ab = _sub(A, B); L2 = _dot(ab, ab)
    if L2 == 0:
        d = _sub(p, B); return float(_dot(d, d)) <= tol * tol
    lam = _dot(_sub(p, B), ab) / L2
    if lam < -FR(tol) or lam > 1 + FR(tol): return False
    res = _sub(_sub(p, B), [lam * x for x in ab])
    return float(_dot(res, res)) <= tol * tol


def _in_triangle(p, A, B, C, tol):
    ab, ac = _sub(B, A), _sub(C, A)
    n = _cross(ab, ac); n2 = _dot(n, n)
    if n2 == 0:       # degenerate face: the face is a segment
        return _on_segment(p, A, B, tol) or _on_segment(p, A, C, tol) or _on_segment(p, B, C, tol)
    ap = _sub(p, A)
    off = _dot(ap, n)                      # distance to the plane times |n|
    if float(off * off / n2) > tol * tol: return False
    # barycentric coordinates by projection
    b = _dot(_cross(ap, ac), n) / n2
    c = _dot(_cross(ab, ap), n) / n2
    a = 1 - b - c
    return min(a, b, c) >= -FR(tol) - FR(1, 10 ** 9)


def _oracle_sampler(case):
    """every call made on the one domain object must satisfy the statement; a failure that only shows on a later call
    (reused centre / box / mesh, attributes already on the mesh, vertices moved in between) gets its own key"""
    calls = run_sampler_all(case)
    for k, (view, r) in enumerate(calls):
        fnd = _oracle_call(view, r)
        if fnd:
            if k > 0 or case.get("pre_attr"):
                tag = "/reused-domain" if k > 0 else "/mesh-has-attributes"
                for f in fnd: f["key"] += tag; f["detail"] = f"call #{k + 1} on the same object: " + f["detail"]
            return fnd
    return []


def _oracle_call(case, r):
    out = []
    t = case["t"]
    tol = _tol(case)
    ptol = 1e-5 if case.get("rep") == "f32" else 1e-9      # relative quantities (probabilities, unit normals)
    n = case["n"]
    # ---- expected rejections ------------------------------------------------------------------
    if t == "box":
        d = len(case["lo"])
        lo, hi = [fr(x) for x in case["lo"]], [fr(x) for x in case["hi"]]
        empty = any(a >= b for a, b in zip(lo, hi))
        bad_mode = _mode(case) not in ("uniform", "grid")
        must_fail = bad_mode or empty or (d > 3 and case.get("pc"))
        if must_fail:
            # round 4 (soundness): the STATEMENT only says that returned points lie within the box.  Refusing an unknown mode, a flat
            # box or a point cloud of dimension > 3 is documented behaviour, tied by the translated guards (bridge_sample_AABB,
            # box_fn_returns_iff) and by the correspondence, but an implementation that accepts them does not contradict the
            # statement.  What does contradict it: points returned for a box with maxi < mini in some coordinate (no point is inside).
            inverted = any(a > b for a, b in zip(lo, hi))
            if not r["err"] and inverted and len(r["pts"]) > 0:
                out.append(_finding("C19/box/accepts-invalid", "sample_AABB returned points for a box with maxi < mini in some coordinate (no point can be inside)", case.get("mode")))
            return out
    if r["err"]:
        tag = ""
        if t == "surface": tag = "/NF=1" if len(_built(case)[1]) == 1 else ""
        if t == "polyline": tag = "/NE=1" if len(_built(case)[1]) == 1 else ""
        out.append(_finding(f"C19/{t}/raises/{type(r['exc']).__name__}{tag}", f"sampler {t} raised {type(r['exc']).__name__} on a valid domain", r["exc"]))
        return out
    pts = [[FR(c) if math.isfinite(c) else None for c in p] for p in r["pts"]]
    if any(c is None for p in pts for c in p):
        out.append(_finding(f"C19/{t}/non-finite", "sampler returned NaN/inf coordinates", "")); return out
    # ---- counts -------------------------------------------------------------------------------
    if t == "box" and _mode(case) == "grid":
        cnt = len(pts); rr = round(cnt ** (1.0 / d)) if cnt else 0
        cand = [x for x in (rr - 1, rr, rr + 1) if x >= 0 and x ** d == cnt]
        okc = bool(cand) and any((x == 0 or (2 * x - 1) ** d <= 2 ** d * n) and 2 ** d * n <= (2 * x + 1) ** d for x in cand)
        if not okc:
            out.append(_finding("C19/box/grid/count", "grid mode does not return round(n^(1/d))^d points", f"n={n} d={d} got {cnt}"))
    elif len(pts) != n:
        out.append(_finding(f"C19/{t}/count", "sampler does not return the requested number of points", f"n={n} got {len(pts)}"))
    dim = len(case["lo"]) if t == "box" else 3
    if t == "box" and r["is_pc"]: pts = [p[:dim] if all(c == 0 for c in p[dim:]) else p for p in pts]
    if any(len(p) != dim for p in pts):
        out.append(_finding(f"C19/{t}/dimension", "points do not have the dimension of the domain", ""))
        return out
    if case.get("pc") and not r["is_pc"]:
        out.append(_finding(f"C19/{t}/not-pointcloud", "return_point_cloud=True did not return a PointCloud", ""))
    # ---- containment --------------------------------------------------------------------------
    if t in ("sphere", "ball"):
        c = [fr(x) for x in case["c"]]; rad = fr(case["r"]); r2 = rad * rad
        slack = FR(tol) * (2 * abs(rad) + FR(tol))
        for i, p in enumerate(pts):
            d2 = _dot(_sub(p, c), _sub(p, c))
            if t == "sphere" and abs(d2 - r2) > slack:
                out.append(_finding(f"C19/sphere/off-sphere/{_rtag(case['r'])}", "sample_sphere point is not on the sphere of the given centre and radius",
                                    f"point {i}: |p-c|={math.sqrt(d2):.6g} radius={float(rad):.6g}")); break
            if t == "ball" and d2 > r2 + slack:
                out.append(_finding(f"C19/ball/outside/{_rtag(case['r'])}", "sample_ball point lies outside the ball of the given centre and radius",
                                    f"point {i}: |p-c|={math.sqrt(d2):.6g} radius={float(rad):.6g} (draw u={case['u'][i % len(case['u'])]})")); break
    elif t == "box":
        for i, p in enumerate(pts):
            if any(x < a - FR(tol) or x > b + FR(tol) for x, a, b in zip(p, lo, hi)):
                out.append(_finding(f"C19/box/{_mode(case)}/outside", f"sample_AABB(mode={_mode(case)}) point lies outside the box",
                                    f"point {i}: {[float(x) for x in p]} box {[float(x) for x in lo]}..{[float(x) for x in hi]}")); break
    elif t in ("polyline", "surface"):
        V, EL = _built(case)
        st = r["stream"]
        NE = len(EL)
        chosen = None
        need_choice = (t == "surface") or NE > 1
        weights = [(_edge_len(V, e) if t == "polyline" else _face_area(V, e)) for e in EL]
        tot = sum(weights)
        if need_choice:
            calls = [l for l in st.log if l[0] == "choice"]
            if len(calls) != 1 or calls[0][1] != NE or calls[0][2] != n:
                out.append(_finding(f"C19/{t}/choice-call", "element choice is not one numpy.random.choice(N, size=n, p=...) call", calls))
            elif st.captured_p[0] is None or st.captured_p[0] == "bad-shape":
                out.append(_finding(f"C19/{t}/probabilities/missing", "numpy.random.choice called without a 1-D probability vector", ""))
            else:
                p = st.captured_p[0]
                if len(p) != NE or abs(sum(p) - 1) > ptol or any(x < 0 for x in p):
                    out.append(_finding(f"C19/{t}/probabilities/not-a-distribution", "probability vector is not non-negative with sum 1", f"sum={sum(p)!r}"))
                elif tot > 0 and any(abs(x - w / tot) > ptol for x, w in zip(p, weights)):
                    out.append(_finding(f"C19/{t}/probabilities/not-proportional", "probabilities handed to numpy.random.choice are not proportional to length/area",
                                        f"p={p[:6]} expected={[w / tot for w in weights][:6]}"))
            chosen = [case["e" if t == "polyline" else "f"][i % len(case["e" if t == "polyline" else "f"])] % NE for i in range(n)]
        else:
            chosen = [0] * n
        for i, p in enumerate(pts[:n]):
            def inside(k):
                el = EL[k]
                return _on_segment(p, V[el[0]], V[el[1]], tol) if t == "polyline" else _in_triangle(p, V[el[0]], V[el[1]], V[el[2]], tol)
            if not inside(chosen[i]):
                if any(inside(k) for k in range(NE)):
                    out.append(_finding(f"C19/{t}/other-element", f"sampled point is not on the {'edge' if t == 'polyline' else 'face'} drawn by numpy.random.choice (shares cannot follow length/area)", f"point {i}"))
                else:
                    out.append(_finding(f"C19/{t}/off-domain", f"sampled point is on no {'edge of the polyline' if t == 'polyline' else 'face of the surface'}", f"point {i}: {[float(x) for x in p]}"))
                break
        if t == "surface" and case.get("normals"):
            nr = r["normals"]
            if nr is None or len(nr) != len(pts):
                out.append(_finding("C19/surface/normals/count", "normals were requested but not one normal per sample was returned", ""))
            else:
                for i in range(min(n, len(nr))):
                    f = EL[chosen[i]]
                    c = _cross(_sub(V[f[1]], V[f[0]]), _sub(V[f[2]], V[f[0]]))
                    nn = math.sqrt(_dot(c, c))
                    if nn == 0: continue
                    if any(abs(float(x) / nn - y) > ptol for x, y in zip(c, nr[i])):
                        out.append(_finding("C19/surface/normals/wrong-face", "normal attached to a sample is not the unit normal of the face it lies in", f"sample {i}")); break
    return out


def _bern(n, i, t):
    return math.comb(n, i) * t ** i * (1 - t) ** (n - i)


def _curve_exact(P, t):
    n = len(P) - 1
    return [sum(_bern(n, i, t) * P[i][k] for i in range(n + 1)) for k in range(len(P[0]))]


def _patch_exact(P, u, v):
    m, k = len(P) - 1, len(P[0]) - 1
    return [sum(_bern(m, i, v) * _bern(k, j, u) * P[i][j][c] for i in range(m + 1) for j in range(k + 1)) for c in range(len(P[0][0]))]


def _hull_dirs(case, d):
    rr = _random.Random(hashlib.sha1(json.dumps(case, sort_keys=True).encode()).hexdigest())
    dirs = []
    for k in range(d):
        e = [0] * d; e[k] = 1; dirs.append(e); dirs.append([-x for x in e])
    for _ in range(12):
        dirs.append([rr.randint(-5, 5) for _ in range(d)])
    return dirs


def _close(a, b, tol):
    return len(a) == len(b) and all(math.isfinite(x) and abs(FR(x) - y) <= FR(tol) for x, y in zip(a, b))


def _oracle_eval(case):
    r = run_bezier(case)
    if r["err"]:
        return [_finding(f"C19/{case['t']}/construct-raises/{type(r['exc']).__name__}", "constructing the Bezier object raised", r["exc"])]
    return _eval_check(case, r["evals"], case["t"])


def _eval_check(case, evals, name):
    """evaluation results against the Bernstein form of the control points AS GIVEN IN THE CASE (exact Fractions);
    `case` is a curve/patch (pseudo-)case, `name` the kind used in the finding keys"""
    out = []
    r = {"evals": evals}
    tol = _tol(case)
    t = name
    if case["t"] == "curve":
        P = [[fr(c) for c in p] for p in case["P"]]; ctrl = P
        params = [(s,) for s in case["ts"]]
        exact = lambda q: _curve_exact(P, q[0])
        ends = {(FR(0),): P[0], (FR(1),): P[-1]}
    else:
        P = [[[fr(c) for c in p] for p in row] for row in case["P"]]; ctrl = [p for row in P for p in row]
        params = [tuple(q) for q in case["uv"]]
        exact = lambda q: _patch_exact(P, q[0], q[1])
        ends = {(FR(0), FR(0)): P[0][0], (FR(1), FR(0)): P[0][-1], (FR(0), FR(1)): P[-1][0], (FR(1), FR(1)): P[-1][-1]}
    d = len(ctrl[0])
    dirs = _hull_dirs(case, d)
    for q, (kind, val) in zip(params, r["evals"]):
        if any(s == "nan" for s in q):
            inside = False; qq = None
        else:
            qq = tuple(fr(s) for s in q); inside = all(0 <= x <= 1 for x in qq)
        if not inside:
            if kind == "p":
                side = "nan" if qq is None else ("below0" if any(x < 0 for x in qq) else "above1")
                out.append(_finding(f"C19/{t}/accepts-out-of-range/{side}", "parameter outside [0,1] was not rejected", q))
            continue
        if kind == "err":
            out.append(_finding(f"C19/{t}/rejects-in-range", "parameter inside [0,1] was rejected", f"{q} {val}")); continue
        ex = exact(qq)
        if not _close(val, ex, tol):
            out.append(_finding(f"C19/{t}/not-bernstein", "evaluation differs from the Bernstein polynomial of the control points",
                                f"param {[float(x) for x in qq]}: got {val} expected {[float(x) for x in ex]}"))
            continue
        if qq in ends and not _close(val, ends[qq], tol):
            out.append(_finding(f"C19/{t}/interpolation", "end/corner control point is not interpolated", q))
        pv = [FR(x) for x in val]
        for w in dirs:
            if _dot(w, pv) > max(_dot(w, c) for c in ctrl) + FR(tol) * (1 + sum(abs(x) for x in w)):
                out.append(_finding(f"C19/{t}/outside-hull", "evaluated point is outside the convex hull of the control points", f"param {q} direction {w}")); break
    return out


def _oracle_export(case):
    return _export_check(case, run_bezier(case))


def _export_check(case, r):
    out = []
    t = case["t"]
    tol = _tol(case)
    if t == "cpoly":
        P = [[fr(c) for c in p] for p in case["P"]]
        if case.get("custom") is not None:
            ts = [fr(x) for x in case["custom"]]
            if any(not (0 <= x <= 1) for x in ts):
                if not r["err"]:
                    out.append(_finding("C19/cpoly/accepts-out-of-range", "as_polyline accepted a custom position outside [0,1]", ""))
                return out
        else:
            n = case["n"] if case.get("n") is not None else 100
            ts = [FR(0)] if n == 1 else [FR(i, n - 1) for i in range(n)]
        if r["err"]:
            return [_finding(f"C19/cpoly/raises/{type(r['exc']).__name__}", "as_polyline raised on valid input", r["exc"])]
        tag = "custom" if case.get("custom") is not None else "linspace"
        if len(r["verts"]) != len(ts):
            out.append(_finding(f"C19/cpoly/{tag}/vertex-count", "as_polyline does not return one vertex per sample position", f"{len(r['verts'])} vs {len(ts)}")); return out
        nv = len(r["verts"])
        if any(a < 0 or b >= nv for a, b in r["edges"]):
            out.append(_finding(f"C19/cpoly/{tag}/index-out-of-range", "as_polyline edge index out of range", ""))
        if r["edges"] != [[i, i + 1] for i in range(nv - 1)]:
            out.append(_finding(f"C19/cpoly/{tag}/not-a-chain", "as_polyline edges are not the chain (i,i+1) over all sampled vertices",
                                f"{nv} vertices, {len(r['edges'])} edges"))
        d = len(P[0])
        for i, (tv, v) in enumerate(zip(ts, r["verts"])):
            ex = _curve_exact(P, tv) + [FR(0)] * (3 - d)
            if not _close(v, ex, tol) or abs(FR(r["params"][i]) - tv) > FR(tol):
                out.append(_finding(f"C19/cpoly/{tag}/vertex-position", "polyline vertex i is not the curve point at its parameter", f"vertex {i}")); break
        return out
    # psurf
    P = [[[fr(c) for c in p] for p in row] for row in case["P"]]
    n1, n2 = case["n1"], case["n2"]
    rel = "n1=n2" if n1 == n2 else ("n1<n2" if n1 < n2 else "n1>n2")
    if r["err"]:
        return [_finding(f"C19/psurf/raises/{type(r['exc']).__name__}/{rel}", "as_surface raised on valid input", r["exc"])]
    U = [FR(0)] if n1 == 1 else [FR(i, n1 - 1) for i in range(n1)]
    Vv = [FR(0)] if n2 == 1 else [FR(i, n2 - 1) for i in range(n2)]
    nv = len(r["verts"])
    if nv != n1 * n2:
        out.append(_finding(f"C19/psurf/vertex-count/{rel}", "as_surface does not return n1*n2 vertices", f"{nv}")); return out
    # every vertex is the patch point at its own uv attribute, and the uv attributes enumerate the grid
    uvs = [tuple(FR(c) for c in uv) for uv in r["params"]]
    d = len(P[0][0])
    for k, (uv, v) in enumerate(zip(uvs, r["verts"])):
        if not all(0 <= x <= 1 for x in uv):
            out.append(_finding(f"C19/psurf/uv-range/{rel}", "uv attribute outside [0,1]", k)); return out
        if not _close(v, _patch_exact(P, uv[0], uv[1]) + [FR(0)] * (3 - d), tol):
            out.append(_finding(f"C19/psurf/vertex-position/{rel}", "surface vertex is not the patch point at its uv coordinates", f"vertex {k}")); return out

    def nearest(x, L):
        return min(range(len(L)), key=lambda i: abs(L[i] - x))
    cell_of = [(nearest(uv[0], U), nearest(uv[1], Vv)) for uv in uvs]
    if any(abs(U[i] - uv[0]) > FR(tol) or abs(Vv[j] - uv[1]) > FR(tol) for (i, j), uv in zip(cell_of, uvs)) or len(set(cell_of)) != nv:
        out.append(_finding(f"C19/psurf/uv-grid/{rel}", "uv attributes do not enumerate the n1 x n2 sample grid", "")); return out
    faces = r["faces"]
    if any(x < 0 or x >= nv for f in faces for x in f):
        out.append(_finding(f"C19/psurf/index-out-of-range/{rel}", "as_surface face index out of range (row stride must be the inner sample count)",
                            f"n1={n1} n2={n2}: max index {max(x for f in faces for x in f)} >= {nv} vertices"))
        return out
    want = set()
    for i in range(n1 - 1):
        for j in range(n2 - 1):
            want.add(((i, j), (i, j + 1), (i + 1, j + 1), (i + 1, j)))
    got = []
    for f in faces:
        cells = [cell_of[x] for x in f]
        k = cells.index(min(cells))
        got.append(tuple(cells[k:] + cells[:k]))
    if len(faces) != (max(n1, 1) - 1) * (max(n2, 1) - 1) or set(got) != want or len(set(got)) != len(got):
        out.append(_finding(f"C19/psurf/not-grid-consistent/{rel}", "as_surface faces are not the quads (i,j),(i,j+1),(i+1,j+1),(i+1,j) of the sample grid",
                            f"n1={n1} n2={n2}: {len(faces)} faces, {len(set(got))} distinct, {len(set(got) & want)} correct"))
    return out


def _oracle_chi2(case):
    """statistical sanity test (thorough tier): shares per edge/face follow length/area. Flags only below p=1e-6."""
    import numpy as np
    from scipy import stats
    from mouette import sampling as S
    V, EL = _built(case)
    Vf = np.array([[float(c) for c in v] for v in V])
    mesh = _fresh_mesh(case)
    np.random.seed(case["seed"])
    n = case["n"]
    if case["kind"] == "polyline":
        pts = np.asarray(S.sample_polyline(mesh, n))
        w = np.array([_edge_len(V, e) for e in EL])
        dist = np.empty((len(EL), n))
        for k, e in enumerate(EL):
            A, B = Vf[e[0]], Vf[e[1]]
            ab = A - B
            lam = np.clip(((pts - B) @ ab) / (ab @ ab), 0, 1)
            dist[k] = np.linalg.norm(pts - B - lam[:, None] * ab, axis=1)
    else:
        pts = np.asarray(S.sample_surface(mesh, n))
        w = np.array([_face_area(V, f) for f in EL])
        dist = np.empty((len(EL), n))
        for k, f in enumerate(EL):
            A, B, C = Vf[f[0]], Vf[f[1]], Vf[f[2]]
            nrm = np.cross(B - A, C - A); nn = nrm @ nrm
            ap = pts - A
            b = (np.cross(ap, C - A) @ nrm) / nn
            c = (np.cross(B - A, ap) @ nrm) / nn
            a = 1 - b - c
            viol = np.maximum(0, -np.minimum(np.minimum(a, b), c))
            dist[k] = np.abs(ap @ nrm) / math.sqrt(nn) + viol
    owner = np.argmin(dist, axis=0)
    if float(np.max(np.min(dist, axis=0))) > 1e-6 * _scale(case):
        return [_finding(f"C19/chi2/{case['kind']}/off-domain", "a sampled point (real numpy stream) lies on no element", "")]
    obs = np.bincount(owner, minlength=len(EL)).astype(float)
    exp = w / w.sum() * n
    keep = exp > 5
    if keep.sum() < 2: return []
    o = np.append(obs[keep], obs[~keep].sum()); e = np.append(exp[keep], exp[~keep].sum())
    if e[-1] == 0: o, e = o[:-1], e[:-1]
    p = float(stats.chisquare(o, e).pvalue)
    if p < 1e-6:
        return [_finding(f"C19/chi2/{case['kind']}/shares", "STATISTICAL: shares per element do not follow length/area (chi-square p < 1e-6)", f"p={p:.3g}")]
    return []


def _oracle_hist(case):
    """a history on ONE object: every evaluation / export in it must satisfy the statement w.r.t. the control points
    the object was built from (so an operation that alters the net is seen at the next one), and the net itself,
    read back by value from the object and from the array the caller still holds, must be unchanged at the end"""
    t = case["t"]
    r = run_hist(case)
    if r["err"]:
        return [_finding(f"C19/{t}/raises/{type(r['exc']).__name__}", "constructing / reading back the Bezier object raised", r["exc"])]
    out = []
    curve = t == "chist"
    base = {k: case[k] for k in ("P", "rep", "trep", "ints") if k in case}
    ev = [(op, res) for op, res in r["steps"] if op[0] == "e"]
    if ev:
        pseudo = dict(base, t="curve", ts=[op[1] for op, _ in ev]) if curve else dict(base, t="patch", uv=[[op[1], op[2]] for op, _ in ev])
        out += _eval_check(pseudo, [res for _, res in ev], t)
    for op, res in r["steps"]:
        if op[0] == "poly": pseudo = dict(base, t="cpoly", n=op[1], custom=None)
        elif op[0] == "polyc": pseudo = dict(base, t="cpoly", n=op[1], custom=op[2])
        elif op[0] == "surf": pseudo = dict(base, t="psurf", n1=op[1], n2=op[2])
        else: continue
        for f in _export_check(pseudo, res):
            f["key"] = f["key"].replace("C19/cpoly/", "C19/chist/as_polyline/").replace("C19/psurf/", "C19/phist/as_surface/")
            out.append(f)
    want = [[fr(c) for c in p] for p in case["P"]] if curve else [[[fr(c) for c in p] for p in row] for row in case["P"]]
    if r["net_after"] != want:
        out.append(_finding(f"C19/{t}/control-net-changed", "evaluating / exporting changed the control points stored in the object",
                            f"ops {case['ops'][:6]}"))
    if r["held_after"] != want:
        out.append(_finding(f"C19/{t}/caller-net-changed", "evaluating / exporting changed the control-point data the caller handed to the constructor",
                            f"representation {_net_rep(case)}"))
    # report each key once
    seen, uniq = set(), []
    for f in out:
        if f["key"] not in seen: seen.add(f["key"]); uniq.append(f)
    return uniq


def oracle(case):
    t = case["t"]
    if t in ("chist", "phist"):
        return _oracle_hist(case)
    if t in ("sphere", "ball", "box", "polyline", "surface"):
        return _oracle_sampler(case)
    if t in ("curve", "patch"):
        return _oracle_eval(case)
    if t in ("cpoly", "psurf"):
        return _oracle_export(case)
    if t == "chi2":
        return _oracle_chi2(case)
    return []


# ------------------------------------------------------------------------------------------------
# generators
# ------------------------------------------------------------------------------------------------
_PYTH = [(1, 2, 2), (2, 3, 6), (1, 4, 8), (4, 4, 7), (2, 6, 9), (6, 6, 7), (3, 4, 12), (2, 10, 11), (0, 3, 4), (0, 0, 1), (1, 0, 0)]
_RADII = ["1/16", "1/8", "1/4", "1/2", "3/4", "1", "3/2", "2", "5", "8", "27", "100", fs(0.1), fs(2.5), fs(1e-3), fs(1e3), fs(0.9)]


def _gen_dir(rng):
    if rng.random() < 0.4:
        v = list(rng.choice(_PYTH)); rng.shuffle(v)
        sc = FR(rng.choice([1, 1, 2, 3]), rng.choice([1, 2, 4, 8, 16]))
        return [fs(sc * rng.choice([-1, 1]) * x) for x in v]
    while True:
        v = [_dy(rng, -3, 3, 1024) for _ in range(3)]
        if any(x != 0 for x in v): return [fs(x) for x in v]


def _gen_u(rng, cubes=False):
    r = rng.random()
    if r < 0.08: return "0"
    if r < 0.18: return fs(ONE_MINUS)
    if cubes and r < 0.45: return fs(FR(rng.randint(0, 7), 8) ** 3)
    if r < 0.55: return fs(FR(rng.randint(0, 15), 16) ** 2)
    if r < 0.65: return fs(1 - FR(1, 2 ** rng.randint(3, 40)))
    return fs(FR(rng.randrange(2 ** 20), 2 ** 20))


def _gen_center(rng):
    while True:
        c = [_dy(rng, -8, 8, 16) for _ in range(3)]
        if any(x != 0 for x in c) or rng.random() < 0.1: return [fs(x) for x in c]


def gen_ballsphere(rng, kind, big=False):
    n = rng.choice([0, 1, 1, 2, 3, 5, 8] + ([40] if big else []))
    case = {"t": kind, "c": _gen_center(rng), "r": rng.choice(_RADII) if rng.random() < 0.8 else fs(_dy(rng, 0, 12, 64) + FR(1, 64)),
            "n": n, "g": [_gen_dir(rng) for _ in range(max(n, 1))], "pc": rng.random() < 0.15}
    if kind == "ball":
        case["u"] = [_gen_u(rng, cubes=True) for _ in range(max(n, 1))]
    return case


def gen_box(rng, big=False):
    d = rng.choice([1, 2, 2, 3, 3, 3, 4, 4, 5, 6])
    lo = [_dy(rng, -8, 8, 16) for _ in range(d)]
    hi = [a + rng.choice([FR(1, 8), FR(1, 2), 1, 1, 2, 3, FR(5, 4), 20, FR(1, 64)]) for a in lo]
    r = rng.random()
    if r < 0.06: k = rng.randrange(d); hi[k] = lo[k]                       # flat -> empty
    elif r < 0.10: k = rng.randrange(d); hi[k] = lo[k] - 1                 # inverted -> empty
    mode = rng.choice(["uniform", "grid", "grid"]) if rng.random() < 0.96 else rng.choice(["Grid", "random", ""])
    if mode == "grid":
        maxres = {1: 40, 2: 9, 3: 5, 4: 4, 5: 3, 6: 3}[d] if not big else {1: 200, 2: 20, 3: 8, 4: 5, 5: 4, 6: 3}[d]
        res = rng.randint(0, maxres)
        n = max(0, res ** d + rng.randint(-(res ** d - (max(res - 1, 0)) ** d) // 3, ((res + 1) ** d - res ** d) // 3))
    else:
        n = rng.choice([0, 1, 2, 3, 5, 8] + ([60] if big else []))
    u = [[_gen_u(rng) for _ in range(d)] for _ in range(max(n if mode != "grid" else 1, 1))]
    if mode == "uniform" and rng.random() < 0.25: mode = None        # argument omitted
    return {"t": "box", "lo": [fs(x) for x in lo], "hi": [fs(x) for x in hi], "n": n, "mode": mode, "u": u,
            "pc": rng.random() < (0.2 if d <= 3 else 0.35)}


def _strs(V):
    return [[fs(c) for c in v] for v in V]


def gen_polyline(rng, big=False):
    r = rng.random()
    if r < 0.12:
        V = [[G.dy(rng.uniform(-4, 4)) for _ in range(3)] for _ in range(2)]
        if V[0] == V[1]: V[1][0] += 1.0
        pl = {"V": V, "E": [[0, 1]], "tag": "single-edge"}
    else:
        pl = G.random_polyline(rng, max_v=40 if big else 10)
        # distinct positions (zero-length edges make 'on an edge' degenerate; a few are kept on purpose)
        if rng.random() < 0.9:
            seen = set()
            for v in pl["V"]:
                while tuple(v) in seen: v[0] += 0.25
                seen.add(tuple(v))
    n = rng.choice([0, 1, 2, 3, 5, 8] + ([50] if big else []))
    return {"t": "polyline", "V": _strs(pl["V"]), "E": pl["E"], "tag": pl["tag"], "n": n,
            "e": [rng.randrange(1000) for _ in range(max(n, 1))], "tt": [_gen_u(rng) for _ in range(max(n, 1))],
            "pc": rng.random() < 0.2}


def gen_surface(rng, big=False):
    r = rng.random()
    if r < 0.12:
        V = [[0.0, 0.0, 0.0], [G.dy(rng.uniform(1, 4)), 0.0, G.dy(rng.uniform(-1, 1))], [G.dy(rng.uniform(-2, 2)), G.dy(rng.uniform(1, 4)), 0.5]]
        s = {"V": V, "F": [[0, 1, 2]], "tag": "single-face"}
    else:
        s = G.random_surface(rng, max_faces=120 if big else 24, tri_only=True)
    n = rng.choice([0, 1, 2, 3, 5, 8] + ([50] if big else []))
    return {"t": "surface", "V": _strs(s["V"]), "F": s["F"], "tag": s["tag"], "n": n,
            "f": [rng.randrange(1000) for _ in range(max(n, 1))],
            "uu": [[_gen_u(rng), _gen_u(rng)] for _ in range(max(n, 1))],
            "pc": rng.random() < 0.3, "normals": rng.random() < 0.5}


def _ctrl(rng, d):
    return [fs(_dy(rng, -8, 8, 16)) for _ in range(d)]


def _gen_t(rng):
    r = rng.random()
    if r < 0.1: return "0"
    if r < 0.2: return "1"
    if r < 0.3: return rng.choice(["-1/4", "3/2", fs(1 + FR(1, 2 ** 52)), fs(-FR(1, 2 ** 60)), "-7", "100"])
    if r < 0.4: return fs(FR(rng.randint(0, 8), 8))
    return fs(FR(rng.randrange(2 ** 16), 2 ** 16))


def gen_curve(rng, big=False):
    k = rng.choice([0, 1, 1, 2, 2, 3, 3, 4, 5, 6] + ([9, 12] if big else []))
    d = rng.choice([1, 2, 3, 3, 4])
    ts = ["0", "1"] + [_gen_t(rng) for _ in range(rng.randint(1, 6))]
    if rng.random() < 0.05: ts.append("nan")
    rng.shuffle(ts)
    return {"t": "curve", "P": [_ctrl(rng, d) for _ in range(k + 1)], "ts": ts}


def _gen_net(rng, d, big=False):
    m, k = rng.choice([0, 1, 2, 3, 4] + ([6] if big else [])), rng.choice([0, 1, 2, 3, 4, 5])
    return [[_ctrl(rng, d) for _ in range(k + 1)] for _ in range(m + 1)]


def gen_patch(rng, big=False):
    d = rng.choice([1, 2, 3, 3])
    uv = [["0", "0"], ["1", "0"], ["0", "1"], ["1", "1"]] + [[_gen_t(rng), _gen_t(rng)] for _ in range(rng.randint(1, 5))]
    rng.shuffle(uv)
    return {"t": "patch", "P": _gen_net(rng, d, big), "uv": uv}


def gen_cpoly(rng, big=False):
    k = rng.choice([0, 1, 2, 3, 4, 5])
    d = rng.choice([2, 3, 3])
    case = {"t": "cpoly", "P": [_ctrl(rng, d) for _ in range(k + 1)], "n": rng.choice([0, 1, 2, 3, 4, 5, 8, 13, None] + ([60] if big else [])), "custom": None}
    r = rng.random()
    if r < 0.35:
        m = rng.randint(1, 9)
        cs = sorted(FR(rng.randrange(2 ** 10 + 1), 2 ** 10) for _ in range(m))
        case["custom"] = [fs(x) for x in cs]
        case["n"] = rng.choice([None, m, m, rng.randint(1, 12)])
        if rng.random() < 0.08: case["custom"][-1] = "5/4"
    return case


def gen_psurf(rng, big=False):
    hi = 14 if big else 7
    n1, n2 = rng.randint(1, hi), rng.randint(1, hi)
    if rng.random() < 0.15: n2 = n1
    if rng.random() < 0.06: n1 = 0
    if rng.random() < 0.06: n2 = 0
    c = {"t": "psurf", "P": _gen_net(rng, 3), "n1": n1, "n2": n2}
    if rng.random() < 0.02:      # as_surface() with its documented defaults
        c.update(n1=20, n2=20, noargs=True)
    return c


_REPS = {"sphere": ["int", "npint", "f32", "nd"], "ball": ["int", "npint", "f32", "nd"],
         "box": ["tuple", "ituple", "int", "npint", "f32", "nd"],
         "polyline": ["int", "npint", "f32"], "surface": ["int", "npint", "f32"],
         "curve": ["int", "npint", "f32", "nd", "tuple", "ituple"], "patch": ["int", "npint", "f32", "nd", "tuple", "ituple"],
         "cpoly": ["int", "npint", "f32", "nd", "tuple"], "psurf": ["int", "npint", "f32", "nd", "tuple"],
         "chist": ["int", "npint", "f32", "nd", "tuple"], "phist": ["int", "npint", "f32", "nd", "tuple"]}
_TREPS = ["pyint", "f32", "np64", "0d"]


def with_rep(rng, case, p=0.4):
    """with probability p hand the numbers over in another representation (ints, numpy ints, float32, plain ndarray,
    tuples): the statement quantifies over the values, not over their Python type"""
    t = case["t"]
    if rng.random() < p and not (t == "box" and not all(FR(a) < FR(b) for a, b in zip(case["lo"], case["hi"]))):
        _reprify(case, rng.choice(_REPS[t]))
    if "P" in case and rng.random() < 0.3:
        case["trep"] = rng.choice(_TREPS)
    return case


def with_history(rng, case, p=0.3):
    """with probability p: one or two earlier calls on the same centre / box / mesh object (other counts, options and
    draws; for meshes possibly attributes already stored on the mesh, or vertices moved between the calls)"""
    t = case["t"]
    if rng.random() >= p: return case
    fresh = {"sphere": lambda: gen_ballsphere(rng, "sphere"), "ball": lambda: gen_ballsphere(rng, "ball"), "box": lambda: gen_box(rng),
             "polyline": lambda: gen_polyline(rng), "surface": lambda: gen_surface(rng)}[t]
    keep = {"sphere": ["n", "g", "pc"], "ball": ["n", "g", "u", "pc"], "box": ["n", "pc"],
            "polyline": ["n", "e", "tt", "pc"], "surface": ["n", "f", "uu", "pc", "normals"]}[t]
    prior = []
    for _ in range(rng.choice([1, 1, 2])):
        o = fresh()
        pr = {k: o[k] for k in keep}
        if t == "box":
            d = len(case["lo"])
            pr["mode"] = rng.choice(["uniform", "grid", None])
            pr["n"] = rng.choice([0, 1, 2, 4, 9])
            pr["u"] = [[_gen_u(rng) for _ in range(d)] for _ in range(max(pr["n"], 1))]
            if d > 3: pr["pc"] = False
        prior.append(pr)
    if t in ("polyline", "surface"):
        if rng.random() < 0.4: case["pre_attr"] = True       # lengths / areas / normals already stored on the mesh by the user
        if rng.random() < 0.4:      # the earlier call(s) (and the stored attributes) saw the mesh before the user moved it
            k = [rng.choice([2, 3, FR(1, 2), 1]) for _ in range(3)]; sh = rng.choice([1, -2, 5])   # anisotropic: area shares change
            prior[0]["V"] = [[fs(k[j] * FR(c) + sh) for j, c in enumerate(v)] for v in case["V"]]
            if len(prior) > 1 and rng.random() < 0.5: prior[1]["V"] = prior[0]["V"]
    case["prior"] = prior
    return case


def _hist_t(rng):
    r = rng.random()
    if r < 0.15: return "0"
    if r < 0.3: return "1"
    return fs(FR(rng.randrange(2 ** 10 + 1), 2 ** 10))


def gen_chist(rng, big=False):
    """several evaluations / exports on one BezierCurve; ends with the end points again"""
    k = rng.choice([1, 2, 2, 3, 3, 4, 5])
    d = rng.choice([2, 3, 3])
    ops = []
    for _ in range(rng.randint(2, 9 if big else 6)):
        r = rng.random()
        if r < 0.6: ops.append(["e", _hist_t(rng)])
        elif r < 0.85: ops.append(["poly", rng.choice([0, 1, 2, 3, 5, 8])])
        else:
            cs = sorted(FR(rng.randrange(2 ** 8 + 1), 2 ** 8) for _ in range(rng.randint(1, 5)))
            ops.append(["polyc", rng.choice([None, len(cs)]), [fs(x) for x in cs]])
    if rng.random() < 0.5 and ops: ops.append(list(ops[0]))      # the very same request again
    ops += [["e", "0"], ["e", "1"]]
    return {"t": "chist", "P": [_ctrl(rng, d) for _ in range(k + 1)], "ops": ops}


def gen_phist(rng, big=False):
    ops = []
    for _ in range(rng.randint(2, 7 if big else 5)):
        if rng.random() < 0.7: ops.append(["e", _hist_t(rng), _hist_t(rng)])
        else: ops.append(["surf", rng.randint(0, 5), rng.randint(0, 5)])
    if rng.random() < 0.5 and ops: ops.append(list(ops[0]))
    ops += [["e", "0", "0"], ["e", "1", "0"], ["e", "0", "1"], ["e", "1", "1"]]
    return {"t": "phist", "P": _gen_net(rng, 3), "ops": ops}


def gen_chi2(rng, kind):
    if kind == "polyline":
        n = rng.randint(3, 7)
        V = [[float(i) * 2 + G.dy(rng.uniform(0, 1)), G.dy(rng.uniform(-3, 3)), G.dy(rng.uniform(-1, 1))] for i in range(n)]
        return {"t": "chi2", "kind": kind, "V": _strs(V), "E": [[i, i + 1] for i in range(n - 1)], "n": 20000, "seed": rng.randrange(2 ** 31)}
    V, F = G.grid(rng, 3, 3, tri=True)
    return {"t": "chi2", "kind": kind, "V": _strs([[float(c) for c in v] for v in V]), "F": F, "n": 20000, "seed": rng.randrange(2 ** 31)}


def cases(rng, tier):
    big = tier != "quick"
    ns = {"sphere": 150, "ball": 300, "box": 400, "polyline": 200, "surface": 200, "curve": 250, "patch": 150, "cpoly": 200, "psurf": 200}
    if big:
        ns = {"sphere": 1500, "ball": 3000, "box": 4500, "polyline": 3000, "surface": 3000, "curve": 2000, "patch": 1200, "cpoly": 1200, "psurf": 1200}
    gens = {"sphere": lambda: gen_ballsphere(rng, "sphere", big), "ball": lambda: gen_ballsphere(rng, "ball", big), "box": lambda: gen_box(rng, big),
            "polyline": lambda: gen_polyline(rng, big), "surface": lambda: gen_surface(rng, big), "curve": lambda: gen_curve(rng, big),
            "patch": lambda: gen_patch(rng, big), "cpoly": lambda: gen_cpoly(rng, big), "psurf": lambda: gen_psurf(rng, big)}
    ns.update({"chist": 1500, "phist": 800} if big else {"chist": 150, "phist": 80})
    gens.update({"chist": lambda: gen_chist(rng, big), "phist": lambda: gen_phist(rng, big)})
    for k, n in ns.items():
        for _ in range(n):
            c = gens[k]()
            if k in ("sphere", "ball", "box", "polyline", "surface"):
                with_history(rng, c)
            with_rep(rng, c)         # ints / numpy ints / float32 / ndarray / tuples: results must not depend on the type
            yield c
    if big:
        for kind in ("polyline", "polyline", "surface", "surface"):
            yield gen_chi2(rng, kind)


def search_on_break(rng, broken, mismatches):
    """targeted boxes of parameters for the failing-input search (oracle only)"""
    for n1 in range(1, 7):
        for n2 in range(1, 7):
            yield {"t": "psurf", "P": _gen_net(rng, 3), "n1": n1, "n2": n2}
    for n in (1, 2, 3, 5):
        c = gen_cpoly(rng); c["n"] = n; c["custom"] = None; yield c
    for _ in range(20): yield gen_cpoly(rng)
    for _ in range(20): yield _integerise(gen_curve(rng))
    for _ in range(10): yield _integerise(gen_patch(rng))
    for _ in range(40): yield with_rep(rng, gen_chist(rng), p=0.6)
    for _ in range(25): yield with_rep(rng, gen_phist(rng), p=0.6)
    for g in (lambda: gen_ballsphere(rng, "sphere"), lambda: gen_ballsphere(rng, "ball"), lambda: gen_box(rng), lambda: gen_polyline(rng), lambda: gen_surface(rng)):
        for _ in range(25): yield with_rep(rng, with_history(rng, g(), p=0.7), p=0.7)
    for r in _RADII:
        c = gen_ballsphere(rng, "ball"); c["r"] = r; c["n"] = 4; c["g"] = [_gen_dir(rng) for _ in range(4)]
        c["u"] = [fs(ONE_MINUS), "1/8", "343/512", _gen_u(rng)]; yield c
        s = gen_ballsphere(rng, "sphere"); s["r"] = r; yield s
    for _ in range(60): yield gen_box(rng)
    for _ in range(30): yield gen_polyline(rng)
    for _ in range(30): yield gen_surface(rng)
    for _ in range(30): yield gen_curve(rng)
    for _ in range(30): yield gen_patch(rng)


# ------------------------------------------------------------------------------------------------
# bookkeeping
# ------------------------------------------------------------------------------------------------
def nontrivial(case, obs):
    if not obs.startswith("ok"): return False
    t = case["t"]
    toks = obs.split()
    if t in ("sphere", "ball", "box"): return int(toks[1]) >= 1
    if t in ("polyline", "surface"): return case["n"] >= 1
    if t in ("curve", "patch"): return " p " in obs
    if t in ("chist", "phist"): return " p " in obs and len(case["ops"]) >= 3
    if t == "cpoly": return int(toks[toks.index("E") + 1]) >= 1
    if t == "psurf": return int(toks[toks.index("F") + 1]) >= 1
    return False


def classify(case, obs):
    t = case["t"]
    ks = ["kind:" + t]
    if t != "chi2":
        ks.append(f"rep:{'bezier' if 'P' in case else t}:{_net_rep(case) if 'P' in case else (case.get('rep') or 'float')}")
        if case.get("trep"): ks.append("param-rep:" + case["trep"])
    if case.get("prior"):
        ks.append(f"history:{t}:{len(case['prior'])}-earlier-calls")
        if any("V" in p for p in case["prior"]): ks.append("history:vertices-moved-between-calls")
    if case.get("pre_attr"): ks.append("history:mesh-already-has-attributes")
    if t in ("chist", "phist"):
        ks.append(f"history:{t}:ops={min(len(case['ops']), 9)}")
        ks += [f"history:{t}:op-{op[0]}" for op in case["ops"]]
        if any(op[0] in ("poly", "surf") and 0 in op[1:3] for op in case["ops"]): ks.append("history:export-n=0")
        if not obs.startswith("ok"): ks.append(f"{t}:{obs.split()[0]}")
        return ks
    if t == "box" and case.get("mode") is None: ks.append("box:mode=default(omitted)")
    if t == "psurf" and case.get("noargs"): ks.append("psurf:default-arguments")
    if t == "psurf" and 0 in (case["n1"], case["n2"]): ks.append("psurf:n=0")
    if t == "cpoly" and case.get("custom") is None and case.get("n") is None: ks.append("cpoly:default-n_pts")
    if t == "cpoly" and case.get("n") == 0 and case.get("custom") is None: ks.append("cpoly:n=0")
    if not obs.startswith("ok") and t != "chi2": ks.append(f"{t}:{obs.split()[0]}")
    if t in ("sphere", "ball"):
        ks += [f"{t}:{_rtag(case['r'])}", f"{t}:n={'0' if case['n'] == 0 else '1' if case['n'] == 1 else '2+'}"]
        if case.get("pc"): ks.append(f"{t}:pointcloud")
        h = _hyp(case)[0]
        ks.append(f"{t}:hyp-exact-draws" if h else f"{t}:hyp-rounded-only")
    elif t == "box":
        ks += [f"box:d={len(case['lo'])}", f"box:mode={_mode(case) if _mode(case) in ('uniform', 'grid') else 'invalid'}"]
        if case.get("pc"): ks.append("box:pointcloud")
        if _mode(case) == "grid" and obs.startswith("ok"):
            cnt = int(obs.split()[1]); ks.append("box:grid-count=" + ("0" if cnt == 0 else "1" if cnt == 1 else "n" if cnt == case["n"] else "!=n"))
    elif t in ("polyline", "surface"):
        ks += [f"{t}:{case.get('tag', '?').split('+')[0]}", f"{t}:n={'0' if case['n'] == 0 else '1+'}"]
        if case.get("pc"): ks.append(f"{t}:pointcloud")
        if case.get("normals"): ks.append("surface:normals")
    elif t == "curve":
        ks += [f"curve:degree={len(case['P']) - 1}", f"curve:dim={len(case['P'][0])}"]
        ks += ["curve:param-" + ("nan" if s == "nan" else "0" if fr(s) == 0 else "1" if fr(s) == 1 else "in" if 0 < fr(s) < 1 else "out") for s in case["ts"]]
    elif t == "patch":
        ks += [f"patch:degree={len(case['P']) - 1}x{len(case['P'][0]) - 1}", f"patch:dim={len(case['P'][0][0])}"]
    elif t == "cpoly":
        ks += [f"cpoly:{'custom' if case.get('custom') is not None else 'linspace'}", f"cpoly:dim={len(case['P'][0])}"]
        if case.get("custom") is not None:
            ks.append("cpoly:custom-n_pts=" + ("default" if case["n"] is None else "len" if case["n"] == len(case["custom"]) else "other"))
    elif t == "psurf":
        ks.append("psurf:" + ("n1=n2" if case["n1"] == case["n2"] else "n1<n2" if case["n1"] < case["n2"] else "n1>n2"))
        if min(case["n1"], case["n2"]) == 1: ks.append("psurf:degenerate-1-row")
    return ks


def describe(case):
    d = {k: v for k, v in case.items() if k in ("t", "c", "r", "n", "lo", "hi", "mode", "pc", "normals", "tag", "n1", "n2", "ts", "uv", "custom", "rep", "trep", "ops", "pre_attr", "noargs")}
    if case.get("prior"): d["prior_calls"] = [{k: v for k, v in p.items() if k in ("n", "pc", "normals", "mode")} | ({"moved": True} if "V" in p else {}) for p in case["prior"]]
    for k in ("g", "u", "V", "E", "F", "P", "e", "f", "tt", "uu"):
        if k in case: d[k + "_len"] = len(case[k])
    return d


def shrink(case, still):
    t = case["t"]
    cur = case
    if t in ("chist", "phist"):
        ops = list(case["ops"]); i = 0
        while i < len(ops) and len(ops) > 1:
            trial = dict(case, ops=ops[:i] + ops[i + 1:])
            if still(trial): ops = trial["ops"]
            else: i += 1
        return dict(case, ops=ops)
    if cur.get("prior"):
        for trial in (dict({k: v for k, v in cur.items() if k != "prior"}), dict(cur, prior=cur["prior"][:1]), dict(cur, prior=cur["prior"][-1:])):
            if still(trial): cur = trial; break
    if cur.get("pre_attr"):
        trial = {k: v for k, v in cur.items() if k != "pre_attr"}
        if still(trial): cur = trial
    case = cur
    if t in ("sphere", "ball", "polyline", "surface") or (t == "box" and _mode(case) == "uniform"):
        keys = {"sphere": ["g"], "ball": ["g", "u"], "box": ["u"], "polyline": ["e", "tt"], "surface": ["f", "uu"]}[t]
        n = case["n"]
        for i in range(min(n, len(case[keys[0]]))):
            trial = dict(case, n=1, **{k: [case[k][i % len(case[k])]] for k in keys})
            if still(trial): cur = trial; break
    if t == "curve":
        for s in case["ts"]:
            trial = dict(case, ts=[s])
            if still(trial): cur = trial; break
    if t == "patch":
        for q in case["uv"]:
            trial = dict(case, uv=[q])
            if still(trial): cur = trial; break
    if cur.get("pc"):
        trial = dict(cur, pc=False)
        if still(trial): cur = trial
    return cur


# ------------------------------------------------------------------------------------------------
# translated fragments
# ------------------------------------------------------------------------------------------------
from ..gen import c19_translate as _TF, c19_fn_translate as _TW, c19_bez_translate as _TB  # noqa: E402


def _stub(fname, site, detail):
    """round 5: a site that raised must not leave the Generated file of an EARLIER tree on disk: it is replaced by a stub without
    definitions, so that the bridges fail to build (broken obligation) and the build log never talks about another tree"""
    msg = (str(detail) or "").replace("-/", "- /").replace("/-", "/ -")[:600]
    T.write_generated(fname, f"/- STUB: the translation site\n     {site}\n   did not recognise the current source tree:\n     {msg}\n"
                             f"   No definition is emitted; the bridge theorems that use this file cannot build. -/\n")


def translate():
    """round 1-3 fragments (index expressions, guards, per-coordinate maps, de_casteljau loop nest) + round 4 whole functions
    (samplers, AABB accessors, BezierCurve.evaluate / order) + round 5 whole functions (as_polyline, as_surface, constructors)"""
    out = []
    for name, fn, files in list(_TF.SITES) + list(_TW.SITES) + list(_TB.SITES):
        rec = T.site(name, fn)
        if not rec["ok"]:
            for f in files: _stub(f, name, rec.get("detail", ""))
        out.append(rec)
    return out


# every function / method defined in the anchor files (mouette/sampling.py, mouette/splines/bezier.py, mouette/geometry/aabb.py):
#   translated  = a Generated/ definition is produced from that body on every run AND a bridge theorem uses it
#   modelled    = hand model only, tied by the recorded-stream correspondence / oracle
_C12 = ("out-of-scope: box algebra (intersection/union/containment/projection/distance/padding/constructors) is property C12 (translated there: "
        "Generated/C12Box.lean), not used by the samplers")
SOURCE_MAP = {
    "mouette/sampling.py::sample_sphere": "translated",        # whole body -> C19FnSphere.sample_sphere; bridge_sample_sphere (+ C19Sphere.sphereCoord)
    "mouette/sampling.py::sample_ball": "translated",          # whole body -> C19FnBall.sample_ball; bridge_sample_ball (+ C19Ball.ballCoord)
    "mouette/sampling.py::sample_AABB": "translated",          # whole body -> C19FnBox.sample_AABB; bridge_sample_AABB (+ C19Box)
    "mouette/sampling.py::sample_polyline": "translated",      # whole body -> C19FnPoly.sample_polyline; bridge_sample_polyline (+ C19Seg)
    "mouette/sampling.py::sample_surface": "translated",       # whole body -> C19FnSurf.sample_surface; bridge_sample_surface (+ C19Tri)
    "mouette/splines/bezier.py::de_casteljau": "translated",   # guard + loop nest read imperatively -> C19DC; source_deCasteljau_eq_model
    "mouette/splines/bezier.py::BezierCurve.__init__": "translated",   # C19BezInit.curveInit; bridge_inits, init_representation_independent
    "mouette/splines/bezier.py::BezierCurve.order": "translated",      # C19FnCurve.curveOrder; bridge_orders, curve_evaluate_source (degree of the Bernstein form)
    "mouette/splines/bezier.py::BezierCurve.evaluate": "translated",   # delegation de_casteljau(self.pts, t) -> C19FnCurve.curveEvaluate; bridge_curveEvaluate
    "mouette/splines/bezier.py::BezierCurve.as_polyline": "translated",   # WHOLE body -> C19BezPoly.as_polyline; bridge_as_polyline, as_polyline_source_spec (+ C19Poly fragments)
    "mouette/splines/bezier.py::BezierPatch.__init__": "translated",   # C19BezInit.patchInit; bridge_inits
    "mouette/splines/bezier.py::BezierPatch.order": "translated",      # C19FnCurve.patchOrder; bridge_orders
    "mouette/splines/bezier.py::BezierPatch._evaluate_row": "translated",   # C19Patch.evaluateRow; bridge_evaluateRow
    "mouette/splines/bezier.py::BezierPatch.evaluate": "translated",        # C19Patch.evaluate; bridge_patchEvaluate
    "mouette/splines/bezier.py::BezierPatch.as_surface": "translated",      # WHOLE body -> C19BezSurf.as_surface; bridge_as_surface, as_surface_source_spec (+ C19Surf/C19Patch fragments)
    "mouette/geometry/aabb.py::AABB.__init__": "translated",     # which attribute holds which corner (copy of the caller's data): C19FnAABB, bridge_AABB
    "mouette/geometry/aabb.py::AABB.dim": "translated",
    "mouette/geometry/aabb.py::AABB.mini": "translated",
    "mouette/geometry/aabb.py::AABB.maxi": "translated",
    "mouette/geometry/aabb.py::AABB.span": "translated",
    "mouette/geometry/aabb.py::AABB.center": "translated",
    "mouette/geometry/aabb.py::AABB.is_empty": "translated",
    "mouette/geometry/aabb.py::AABB.IncompatibleDimensionError.__init__": _C12,
    "mouette/geometry/aabb.py::AABB.__repr__": "out-of-scope: text rendering, no clause of the statement",
    "mouette/geometry/aabb.py::AABB.unit_cube": _C12,
    "mouette/geometry/aabb.py::AABB.infinite": _C12,
    "mouette/geometry/aabb.py::AABB.of_points": _C12,
    "mouette/geometry/aabb.py::AABB.of_mesh": _C12,
    "mouette/geometry/aabb.py::AABB.intersection": _C12,
    "mouette/geometry/aabb.py::AABB.__and__": _C12,
    "mouette/geometry/aabb.py::AABB.do_intersect": _C12,
    "mouette/geometry/aabb.py::AABB.union": _C12,
    "mouette/geometry/aabb.py::AABB.__or__": _C12,
    "mouette/geometry/aabb.py::AABB.pad": _C12,
    "mouette/geometry/aabb.py::AABB.contains_point": _C12,
    "mouette/geometry/aabb.py::AABB.project": _C12,
    "mouette/geometry/aabb.py::AABB.distance": _C12,
}


MANIFEST = {
    "level_text": ("Proof. Lean 4 theorems about executable models of mouette/sampling.py and splines/bezier.py: for ALL draws the box sampler "
                   "stays in the box (uniform and grid mode, any dimension; grid count = res^d), sphere points are at distance r of the centre "
                   "(norm as a hypothesis-bearing parameter), ball points within r for the law r*cbrt(u) (cbrt as a parameter with c^3=u), polyline "
                   "points are on the chosen edge, surface points have barycentric weights >= 0 summing to 1 and carry the chosen face's normal, the "
                   "probability vector handed to numpy.random.choice is non-negative, sums to 1 and is proportional to length/area; the in-place de "
                   "Casteljau loop as coded equals the Bernstein polynomial (Nat.choose form, induction on the degree) for curves and patches, "
                   "interpolates end control points, has convex-hull coefficients on [0,1], rejects parameters outside [0,1]; as_surface/as_polyline "
                   "indices are in range, injective and enumerate the loop nest for ALL (n1,n2). Index expressions, range bounds, guards, update "
                   "expressions, probability vectors and the barycentric/affine maps of sampling.py and bezier.py are re-extracted from the source "
                   "with Python ast on every run (19 sites, bridge lemmas; round 5: as_polyline, as_surface and the two constructors as whole functions, bridged to hand models, export clauses — one vertex per position, chain / grid quads with stride n2, indices in range, rejection — on the source for any sample counts; the de_casteljau loop nest read imperatively is proved equal to the model); "
                   "round 4: the five samplers and the AABB accessors they call are translated as WHOLE functions (statement order, guards, mode/option dispatch, enumerate loop with row stores, defaults) and proved EQUAL to the hand models (bridge_sample_*), so count / container / containment / normals clauses hold on what the source says for ANY random stream; the grid resolution has no ties (grid_no_halfway, grid_resolution_unique); the point-cloud/normals options are model functions with list-level theorems; the grid resolution test of the oracle is proved "
                   "equivalent to 'nearest integer to n^(1/d)'. The models are "
                   "tied to the code by a recorded-random-stream correspondence and a direct oracle (exact Fractions)."),
    "level_note": ("Trusted: Lean kernel + propext/Classical.choice/Quot.sound; hand-written models (checked against the code on the cases of each run "
                   "and through the translated fragments); numpy's random generators (distribution not verified; chi-square sanity test in the thorough "
                   "tier is statistical); sqrt/cbrt as recorded parameters with stated hypotheses; float rounding not modelled."),
    "technique": "Lean 4 algebraic/inductive proofs over executable Rat models; ast-translated fragments with bridge lemmas; differential recorded-stream correspondence",
}
