"""C18 — surface frame fields are unit, border-aligned and topologically consistent (PARTIAL).

Theorem-backed (Lean, for all inputs): the algebraic scaffolding (normalisation gives unit modulus, the solve step
never touches constrained entries, the holonomy sums telescope for ANY edge rotations, branch matching quantises
every index, the connection Laplacian is Hermitian and reduces to the scalar one for trivial transports, the
constants `**4` / `*2/pi` read from the source work for every order on faces with one feature edge).
Checked on every run only (oracle on the real code + exact residual in the model): that spsolve / inverse power
iteration return the harmonic extension, numbering independence, the geometric closure of fans (Gauss-Bonnet side).
Round 4: method bodies translated imperatively (vlib/gen/c18stranslate.py -> Generated/C18Src.lean), bridges + theorems on the
generated definitions in Props/C18Source.lean (harmonic extension GIVEN an exact linear solve, renumbering), 4*chi over the reals
in Props/C18Real.lean, SOURCE_MAP below.
"""
import cmath, math, os
from fractions import Fraction

from ..gen import mesh as G
from ..gen import c18gen as GG
from ..gen import c18translate as TR
from ..gen import c18vtranslate as TRV
from ..gen import c18htranslate as TRH
from ..gen import c18stranslate as TRS
from ..gen import c18ltranslate as TRL          # registers its sites in TRS.EXTRA_SITES

PID = "C18"
TITLE = "Surface frame fields are unit, border-aligned and topologically consistent"
LEAN_MODULES = ["Mouette.Props.C18", "Mouette.Props.C18Source", "Mouette.Props.C18Real", "Mouette.Props.C18Mesh"]
REQUIRED_THEOREMS = [
    "normalize_unit", "normalize_all_unit", "constrained_untouched", "constrained_survive_normalize",
    "index_sum_telescopes", "matching_quantised", "matching_minimal", "index_quantised", "fan_theta_telescopes",
    "connection_laplacian_hermitian", "connection_laplacian_hermitian_faces", "connection_laplacian_hermitian_vertices",
    "flat_connection_reduces", "flat_connection_reduces_vertices", "constraint_tangent_every_order", "constraint_unit",
    "index_scale_every_order", "index_total_is_scale_times_chi", "feature_faces_fixed", "partition_disjoint",
    # proved negations / witnesses for the open findings
    "normalize_unit_fails_on_vanishing_entry", "odd_order_opposite_constraints_cancel", "odd_order_crease_constraint_vanishes",
    "multi_feature_face_constraint_depends_on_write_order", "guarded_constraint_depends_on_edge_order",
    # round 2: vertex-based field, connection / operator formulas, bridges to Generated/C18Vertex.lean
    "vertex_constraint_unit", "vertex_guard_keeps_sums_nonvanishing", "vertex_init_free_untouched", "feature_vertices_fixed", "vertex_constrained_untouched",
    "vertex_matching_quantised", "vertex_face_index_quantised", "vertex_face_index_quantised_mesh",
    "vertex_face_index_multiple_of_quantum", "vertex_face_holonomy_telescopes", "vertex_face_index_sum_telescopes",
    "vertex_face_index_sum_closed",
    "bridge_angle_diff", "bridge_roots", "bridge_vertex_candidates", "bridge_vertex_flag_structure", "bridge_curv_term",
    "bridge_vertex_init", "bridge_connection_formulas", "bridge_vertex_thresholds",
    "connection_interior_rescale", "connection_feature_ring_closes_on_quantum", "connection_face_transports_opposite",
    "laplacian_vertex_phases_sum", "laplacian_faces_phase", "laplacian_phase_is_order_times_curv_term",
    # round 3: histories on one object / mesh, face-based matching, attach weight
    "run_idempotent", "run_on_fresh", "run_after_initialize_faces", "run_after_initialize_vertices", "run_after_initialize_needs_flag",
    "flag_attributes_independent_of_history", "flag_twice_eq_once", "stale_flag_survives_without_clear",
    "fixed_flags_independent_of_history", "stale_fixed_flag_survives_without_clear",
    "bridge_face_candidates", "bridge_attach_weight", "attach_weight_positive", "alpha_positive",
    # round 4: method bodies translated imperatively (Generated/C18Src.lean), bridges and theorems on the generated definitions
    "bridge_normalize", "bridge_normalize_all", "bridge_run", "bridge_fresh", "bridge_initialize_faces", "bridge_initialize_vertices",
    "bridge_init_variables_faces", "bridge_optimize_faces", "bridge_optimize_vertices", "bridge_partition_faces",
    "source_check_init_passes", "source_check_init_raises_on_fresh", "source_run_idempotent",
    "source_normalize_unit", "source_optimize_faces_unit", "source_optimize_vertices_unit",
    "source_optimize_faces_constrained_untouched", "source_optimize_vertices_constrained_untouched",
    "source_optimize_faces_harmonic_extension", "source_optimize_vertices_harmonic_extension",
    "harmonic_equation_renumbers", "renumbering_commutes_partial",
    "bridge_flag_faces_edge_rot", "bridge_flag_faces_singuls", "source_flag_faces_independent_of_history",
    "source_flag_faces_rotation_quantised", "source_flag_faces_index_is_scaled_holonomy", "source_flag_faces_index_multiple_of_quantum",
    # round 4, over the reals: index total = 4 chi from C07's Gauss-Bonnet + telescoping with the polarity read from the source
    "contribR_sum", "holonomy_total", "index_total_four_chi", "index_total_four_chi_closed",
    # round 5: vertex-based _initialize_variables and flag_singularities as whole bodies; adjacency-form sum refines the edge-list model
    "bridge_init_variables_vertices", "source_init_vertices_constraint_unit", "source_init_vertices_free_untouched",
    "bridge_flag_vertices_edge_rot", "bridge_flag_vertices_singuls", "source_flag_vertices_dict_is_rotD", "source_flag_vertices_face_angle",
    "source_flag_vertices_flag_is_sign", "source_flag_vertices_independent_of_history",
    "source_flag_faces_holonomy_refines", "source_flag_faces_index_total",
    # round 6: operator assembly, connection, export_as_mesh as whole bodies
    "bridge_laplacian_vertices", "source_laplacian_vertices_hermitian", "bridge_laplacian_triangles", "source_laplacian_triangles_hermitian",
    "source_connection_faces_basis_on_feature", "source_connection_faces_basis_plain", "bridge_connection_faces_transport",
    "source_connection_faces_transport_antisymmetric", "source_connection_vertices_ring",
    "source_export_faces_edges_in_range", "source_export_vertices_edges_in_range",
    # round 7: connectivity contract discharged from C01 (Props/C18Mesh.lean), ring loops in closed form + closure, _initialize_attributes, flat faces
    "vertex_to_edges_contract", "source_flag_faces_index_total_on_mesh",
    "source_connection_vertices_feature_closed_form", "source_connection_vertices_interior_closed_form",
    "source_connection_vertices_feature_ring_closes", "source_connection_vertices_interior_ring_closes",
    "source_initialize_attributes_faces_default", "source_initialize_attributes_faces_custom", "source_initialize_attributes_vertices_default",
    "source_initialize_attributes_vertices_defect", "source_laplacian_triangles_flat",
    # round 8: cotan_edge_diagonal, flat connection on vertices, options read by the constructors
    "source_cotan_opposite_slot", "source_cotan_edge_weight_regular", "source_cotan_edge_weight_degenerate", "source_laplacian_triangles_row_weight",
    "source_laplacian_vertices_flat", "source_ctor_options_cover_harness",
]
TRUSTED = [
    "Lean 4.33.0 kernel; axioms ⊆ {propext, Classical.choice, Quot.sound}",
    "Mathlib v4.33.0 tactic modules (Ring, Linarith, FieldSimp) used in Lemmas/C18Lemmas.lean",
    "translator vlib/gen/c18translate.py (exponent of the face constraint, index scale A in angle*A/pi, ZERO_THRESHOLD, "
    "sign polarity of the holonomy sum, normalisation threshold, vertex cancellation guard) -> Generated/C18Consts.lean",
    "hand-written model Mouette/Model/FrameField.lean tied to faces2d.py / vertex2d.py / base.py / laplacian_op.py by the "
    "correspondence of this run (the implementation's own per-edge transports, weights, phases, solver output are fed, "
    "rationalised exactly, to the model; assembled matrix, partition, constraint values, normalised field, edge rotations, "
    "vertex index sums are compared at 1e-9)",
    "translator vlib/gen/c18vtranslate.py (round 2: python float expressions -> Lean Rat terms in turns, pi = 1/2): maths.angle_diff / roots, "
    "vertex2d._initialize_variables (branch condition, feature normalisation threshold), vertex2d.flag_singularities (matching arguments, "
    "signs of the stores, half-edge list, curvature term, threshold), connection.py (dfct, feature / interior rescaling, face transports), "
    "laplacian / laplacian_triangles phases, parallel_transport_curvature -> Generated/C18Vertex.lean, bridged to the models in Props/C18.lean",
    "hand-written model Mouette/Model/FrameFieldV.lean (vertex-based initialisation with normalisation, matching on edges, per-face holonomy + "
    "curvature) tied to vertex2d.py by the INITV / IDXV sections of the correspondence (the harness supplies abs() of the accumulated sums, "
    "the phases of the solved field and every directed transport of the connection)",
    "scipy.sparse.linalg.spsolve / factorized / eigsh and the inverse power iteration are NOT modelled (T7): their output is an "
    "input of the model, which computes the exact residual of the linear system; convergence is checked numerically per run",
    "floating point (T6): sqrt / atan2 / phase / cos / sin are evaluated by the implementation and the harness only",
    "translator vlib/gen/c18stranslate.py (round 4: method BODIES read statement by statement -> Generated/C18Src.lean: base.normalize / run / "
    "_check_init, faces2d initialize / _initialize_variables / optimize / flag_singularities, vertex2d initialize / optimize); the numeric "
    "primitives abs / spsolve / factorized / inverse_power_method are parameters (FFS.Num) whose contracts are hypotheses of the theorems",
    "translator vlib/gen/c18ltranslate.py (round 6: laplacian, laplacian_triangles, SurfaceConnectionFaces/Vertices._initialize, export_as_mesh x2 -> Generated/C18Src.lean); "
    "`U x` = cmath.rect(1, 2 pi x), atan2 angles, cot values, corner angles and geom.face_basis are parameters fed by the harness / hypotheses of the theorems",
]
ASSUMPTIONS = [
    "history clauses (round 3): a second run() / flag_singularities() on the same object, a field computed on a mesh that already carried "
    "another field, an equivalent custom feature detector and integer / float32 coordinates are compared BY VALUE with the fresh float64 run "
    "(1e-8; 1e-3 for float32, whose geometric tolerances are widened to single precision); with n_smooth > 0 both runs use a prescribed attach weight",
    "partial: harmonic-extension, numbering-independence and index-sum = scale*chi clauses are established on the inputs of this run only",
    "cad_correction (OSQP-modified transport) and singularity_indices (trivial connection classes) are outside the quantifier and not exercised",
    "moved-mesh history: only the VERTEX-based field is required to ignore a `cotan` attribute computed for an earlier geometry (its unchanged initialize() "
    "refreshes it); the face-based field reads the mesh's `cotan` cache as it is (caller's responsibility, DESIGN 10.9) and is not exercised on moved meshes",
]
RULE = ("triangulated oriented manifold surfaces from 14 families (height-field / planar grids, Delaunay disks, annuli, grids with holes, "
        "jittered and symmetric spheres, tori, folded grids and cubes/open boxes with sharp creases, strips, 1-2 triangle meshes), random face "
        "rotation / order / vertex numbering; x orders 1-6 x {faces, vertices} x features on/off x n_smooth in {0,1,3} x cotan/uniform; "
        "bordered cases are re-run on a renumbered + face-rotated copy (metamorphic). Non-trivial = the field was computed by a solver "
        "(linear solve with >= 1 free element, or eigen-solve) and, for faces, singularities were flagged. Round 3 adds history families "
        "(run() twice + flag twice; initialize() then the callable; two fields of different order / element / features one after the other on "
        "ONE mesh (systematically: features on then off and off then on across a sharp crease, order 4 then 6, both elements, optionally re-using the first field's detector or passing two explicit detectors); another complete field on ANOTHER mesh between construction and run of the field under test (state shared between instances); an explicitly passed equivalent FeatureEdgeDetector) and representation "
        "families (integer-coordinate grids handed in as int64 arrays, Vec of python ints, int lists, float32 arrays), n_smooth in {0,1,3,10}. "
        "Round 5 adds the moved-mesh history (vertex-based field only): a scalar Laplacian / cotangents / the cotan edge diagonal is "
        "computed on the mesh (each leaves only the `cotan` corner attribute, which the unchanged vertex-based initialize() refreshes), the mesh is deformed in place with transform.scale_xyz (unequal factors), then the field is computed and compared by value with "
        "the field on a fresh mesh of the same coordinates.")


# ------------------------------------------------------------------------------------------------
# which function of the anchor files is tied to the Lean side how (goes into the evidence through core._source_map)
#   translated  = a definition of lean/Mouette/Generated/C18*.lean is produced from the BODY of that function on every run and a
#                 bridge theorem of Props/C18.lean / Props/C18Source.lean uses it ("imperative": the whole body, statement by statement;
#                 "fragments": expressions / constants / guards of the body)
#   modelled    = hand-written Lean model, tied by the correspondence run only
#   oracle-only = no Lean counterpart; exercised / read by the oracle and the harness
# ------------------------------------------------------------------------------------------------
_FF = "mouette/processing/framefield/"
SOURCE_MAP = {
    # ---- base.py
    _FF + "base.py::FrameField.__init__": "translated: fragments (initial flags -> C18S.fresh; bridge_fresh)",
    _FF + "base.py::FrameField.element": "out-of-scope: read-only accessor of the element kind",
    _FF + "base.py::FrameField._check_init": "translated: imperative (C18S.checkInitRaises; source_check_init_passes)",
    _FF + "base.py::FrameField.__getitem__": "out-of-scope: read accessor `ff[i]` of self.var, not used by the check nor by the field's computation",
    _FF + "base.py::FrameField.initialize": "out-of-scope: abstract method",
    _FF + "base.py::FrameField.optimize": "out-of-scope: abstract method",
    _FF + "base.py::FrameField.run": "translated: imperative (C18S.run; bridge_run)",
    _FF + "base.py::FrameField.normalize": "translated: imperative (C18S.normalize; bridge_normalize, bridge_normalize_all)",
    _FF + "base.py::FrameField.export_as_mesh": "out-of-scope: abstract method",
    _FF + "base.py::FrameField.flag_singularities": "out-of-scope: abstract method",
    # ---- faces2d.py
    _FF + "faces2d.py::_BaseFrameField2DFaces.__init__": "translated: fragments (positional parameters and kwargs.get option names with defaults -> C18S.ctorOptionsFaces; source_ctor_options_cover_harness: every option the harness passes explicitly is read); values are stored only",
    _FF + "faces2d.py::_BaseFrameField2DFaces._initialize_attributes": "translated: imperative (C18S.initializeAttributesFaces: cot not persisted, default detector only_border = not features, connection built on the field's feature set, custom ones kept; source_initialize_attributes_faces_default / _custom)",
    _FF + "faces2d.py::_BaseFrameField2DFaces._initialize_variables": "translated: imperative (C18S.initVariablesFaces; bridge_init_variables_faces)",
    _FF + "faces2d.py::_BaseFrameField2DFaces._compute_attach_weight": "translated: fragments (filter threshold, fail value, abs(min); bridge_attach_weight)",
    _FF + "faces2d.py::_BaseFrameField2DFaces.flag_singularities": "translated: imperative (C18S.flagEdgeRotFaces / flagSingulsFaces; bridge_flag_faces_edge_rot, bridge_flag_faces_singuls)",
    _FF + "faces2d.py::_BaseFrameField2DFaces.export_as_mesh": "translated: imperative (index structure of the exported poly-line: C18S.exportFacesEdges / VerticesPer; source_export_faces_edges_in_range); geometry of the tips not modelled; not an observable of the property",
    _FF + "faces2d.py::FrameField2DFaces.__init__": "oracle-only: forwards to the base constructor",
    _FF + "faces2d.py::FrameField2DFaces.initialize": "translated: imperative (C18S.initializeFaces; bridge_initialize_faces)",
    _FF + "faces2d.py::FrameField2DFaces.optimize": "translated: imperative (C18S.optimizeFaces; bridge_optimize_faces)",
    _FF + "faces2d.py::TrivialConnectionFaces.__init__": "out-of-scope: trivial connections are outside the quantifier of C18",
    _FF + "faces2d.py::TrivialConnectionFaces.initialize": "out-of-scope: trivial connections are outside the quantifier of C18",
    _FF + "faces2d.py::TrivialConnectionFaces.optimize": "out-of-scope: trivial connections are outside the quantifier of C18",
    # ---- vertex2d.py
    _FF + "vertex2d.py::_BaseFrameField2DVertices.__init__": "translated: fragments (C18S.ctorOptionsVerts; source_ctor_options_cover_harness); also creates the zero field the translated _initialize_variables starts from",
    _FF + "vertex2d.py::_BaseFrameField2DVertices._initialize_attributes": "translated: imperative (C18S.initializeAttributesVerts + defectSumsVerts: cot refreshed on the mesh, detector with corner_order = order, connection on the feature set, defect loop; source_initialize_attributes_vertices_default / _defect)",
    _FF + "vertex2d.py::_BaseFrameField2DVertices._initialize_variables": "translated: imperative (C18S.initVariablesVerts, whole body; bridge_init_variables_vertices to FFV.initVertsFull under the contract of abs)",
    _FF + "vertex2d.py::_BaseFrameField2DVertices._compute_attach_weight": "translated: fragments (same constants as the face-based one; bridge_attach_weight)",
    _FF + "vertex2d.py::_BaseFrameField2DVertices.flag_singularities": "translated: imperative (C18S.flagEdgeRotVerts / flagSingulsVerts, whole body; bridge_flag_vertices_edge_rot, bridge_flag_vertices_singuls, source_flag_vertices_dict_is_rotD)",
    _FF + "vertex2d.py::_BaseFrameField2DVertices.export_as_mesh": "translated: imperative (index structure, both repr_vector branches: C18S.exportVertsEdges / VerticesPer; source_export_vertices_edges_in_range); geometry not modelled; not an observable of the property",
    _FF + "vertex2d.py::FrameField2DVertices.__init__": "oracle-only: forwards to the base constructor",
    _FF + "vertex2d.py::FrameField2DVertices.initialize": "translated: imperative (C18S.initializeVerts; bridge_initialize_vertices)",
    _FF + "vertex2d.py::FrameField2DVertices._modify_parallel_transport": "out-of-scope: cad_correction (OSQP-modified transport) is outside the quantifier",
    _FF + "vertex2d.py::FrameField2DVertices.optimize": "translated: imperative (C18S.optimizeVerts; bridge_optimize_vertices)",
    _FF + "vertex2d.py::TrivialConnectionVertices.__init__": "out-of-scope: trivial connections are outside the quantifier of C18",
    _FF + "vertex2d.py::TrivialConnectionVertices.initialize": "out-of-scope: trivial connections are outside the quantifier of C18",
    _FF + "vertex2d.py::TrivialConnectionVertices.optimize": "out-of-scope: trivial connections are outside the quantifier of C18",
    # ---- connection.py
    "mouette/processing/connection.py::SurfaceConnection.__init__": "oracle-only: stores mesh / feat and calls the translated _initialize",
    "mouette/processing/connection.py::SurfaceConnection._initialize": "out-of-scope: abstract method",
    "mouette/processing/connection.py::SurfaceConnection.transport": "oracle-only: dict lookup `_transport[(iA,iB)]` of what the translated _initialize wrote; the harness reads every transport through it",
    "mouette/processing/connection.py::SurfaceConnection.base": "oracle-only: array lookup of the bases; read by the harness (projections, angles of edges in the bases) and checked orthonormal / tangent by the oracle",
    "mouette/processing/connection.py::SurfaceConnection.bX": "out-of-scope: array view of the bases, not used by the surface frame fields nor by the check",
    "mouette/processing/connection.py::SurfaceConnection.bY": "out-of-scope: array view of the bases, not used by the surface frame fields nor by the check",
    "mouette/processing/connection.py::SurfaceConnection.project": "oracle-only: two dot products with the stored basis; its values are the `proj` parameter of the translated vertex _initialize_variables",
    "mouette/processing/connection.py::SurfaceConnectionVertices.__init__": "oracle-only: computes total_angle (the `total` parameter of the translated ring loops) from the corner angles and calls _initialize",
    "mouette/processing/connection.py::SurfaceConnectionVertices._initialize": "translated: imperative (C18S.connVertsFirst / connVertsRingFeature / connVertsRingInterior / connVertsTransport, whole body; source_connection_vertices_ring; formulas bridge_connection_formulas); the 3-D basis vectors themselves are oracle-only",
    "mouette/processing/connection.py::FlatConnectionVertices.__init__": "oracle-only: only used by the oracle's flat-connection clause (planar meshes)",
    "mouette/processing/connection.py::FlatConnectionVertices._initialize": "out-of-scope: empty body",
    "mouette/processing/connection.py::FlatConnectionVertices.transport": "translated: imperative (C18S.flatVertsTransport: arctan2 of vertices[iB] - vertices[iA]; source_laplacian_vertices_flat: the connection triplets are the scalar triplets)",
    "mouette/processing/connection.py::FlatConnectionVertices.base": "out-of-scope: constant basis, not read by the operators",
    "mouette/processing/connection.py::FlatConnectionVertices.project": "out-of-scope: not read by the operators",
    "mouette/processing/connection.py::SurfaceConnectionFaces.__init__": "oracle-only: forwards to SurfaceConnection.__init__",
    "mouette/processing/connection.py::SurfaceConnectionFaces._initialize": "translated: imperative (C18S.connFacesTriple / connFacesTransport, whole body; source_connection_faces_basis_on_feature, bridge_connection_faces_transport); geom.face_basis itself is oracle-only",
    "mouette/processing/connection.py::FlatConnectionFaces.__init__": "oracle-only: only used by the oracle's flat-connection clause",
    "mouette/processing/connection.py::FlatConnectionFaces._initialize": "out-of-scope: empty body",
    "mouette/processing/connection.py::FlatConnectionFaces.transport": "translated: imperative (C18S.flatFacesTransport; source_laplacian_triangles_flat: the connection rows of Nabla become the scalar rows)",
    "mouette/processing/connection.py::FlatConnectionFaces.base": "out-of-scope: constant basis, not read by the operators",
    "mouette/processing/connection.py::FlatConnectionFaces.project": "out-of-scope: not read by the operators",
    "mouette/processing/connection.py::SurfaceConnectionEdges.__init__": "out-of-scope: edge-based connection, not used by the surface frame fields",
    "mouette/processing/connection.py::SurfaceConnectionEdges._initialize": "out-of-scope: edge-based connection, not used by the surface frame fields",
    # ---- laplacian_op.py
    "mouette/operators/laplacian_op.py::graph_laplacian": "out-of-scope: not used by the surface frame fields",
    "mouette/operators/laplacian_op.py::graph_laplacian.add": "out-of-scope: not used by the surface frame fields",
    "mouette/operators/laplacian_op.py::laplacian": "translated: imperative (C18S.laplacianTriplets: every triplet in fill order; bridge_laplacian_vertices to FF.entryVert / coeff; source_laplacian_vertices_hermitian)",
    "mouette/operators/laplacian_op.py::cotan_edge_diagonal": "translated: imperative (C18S.oppositeSlot / cotanEdgeWeight / cotanEdgeDiagonal: opposite-vertex index, border side counts 0, 1e-8 guard with the 1e8 cap, inverse or not; source_cotan_edge_weight_regular / _degenerate, source_laplacian_triangles_row_weight: it is the `dw` of the translated face operator)",
    "mouette/operators/laplacian_op.py::laplacian_triangles": "translated: imperative (C18S.nablaRows / nablaRowWeight: rows of Nabla, returned product; bridge_laplacian_triangles to FF.entryFace / coeff; source_laplacian_triangles_hermitian)",
    "mouette/operators/laplacian_op.py::laplacian_edges": "out-of-scope: not used by the surface frame fields",
    "mouette/operators/laplacian_op.py::volume_laplacian": "out-of-scope: volumes",
    "mouette/operators/laplacian_op.py::laplacian_tetrahedra": "out-of-scope: volumes",
    # ---- eigensolve.py, maths.py
    "mouette/optimize/eigensolve.py::inverse_power_method": "oracle-only: numeric eigen-solver (T7), the parameter Num.ipm of the translated optimize; its output is checked per run (unit modulus, Hermitian operator)",
    "mouette/optimize/eigensolve.py::rayleigh_quotient_iteration": "out-of-scope: not used by the surface frame fields",
    "mouette/utils/maths.py::roots": "translated: fragments (C18V.rootPhase; bridge_roots)",
    "mouette/utils/maths.py::angle_diff": "translated: fragments (C18V.angleDiff; bridge_angle_diff)",
    "mouette/utils/maths.py::principal_angle": "out-of-scope: only used by the trivial connections",
    "mouette/utils/maths.py::solve_quadratic": "out-of-scope: not used by the surface frame fields",
}

TWO_PI = 2 * math.pi
_CACHE = {}
_CONST = {}


def _consts():
    """(ZERO_THRESHOLD, A of angle*A/pi) as the source states them now (fallback: the values of the pinned tree)"""
    if "thr" not in _CONST:
        try:
            thr, a, plus = TR.face_flag_constants()
            _CONST.update(thr=float(thr), a=float(a))
        except Exception:  # noqa  (reported by translate() as a broken obligation)
            _CONST.update(thr=1e-3, a=2.0)
    return _CONST["thr"], _CONST["a"]


def _vthr():
    if "vthr" not in _CONST:
        try:
            _CONST["vthr"] = float(TRV.site_vertex_flag()["thr"])
        except Exception:  # noqa  (reported by translate() as a broken obligation)
            _CONST["vthr"] = 1e-2
    return _CONST["vthr"]


# ------------------------------------------------------------------------------------------------
# cases
# ------------------------------------------------------------------------------------------------
def _config(rng, fam, st):
    elem = rng.choice(["faces", "faces", "vertices"])
    order = rng.choice([1, 2, 3, 4, 4, 5, 6])
    creased = fam in ("fold", "cube", "box", "cube-sym")
    features = (rng.random() < 0.75) if creased else (rng.random() < 0.3)
    ns = rng.choice([0, 0, 0, 0, 1, 1, 3, 3, 10])
    cotan = rng.random() < 0.65
    return {"elem": elem, "order": order, "features": features, "n_smooth": ns, "cotan": cotan, "seed": rng.randrange(1000)}


def cases(rng, tier):
    nsurf, ncfg, big = (35, 8, False) if tier == "quick" else (150, 16, True)
    fams = GG.families(tier)
    for k in range(nsurf):
        fam = fams[k % len(fams)] if k < 2 * len(fams) else rng.choice(fams)
        V, F, st = GG.make_surface(rng, fam, big=big)
        bordered = st["border_edges"] > 0
        for c in range(ncfg):
            cfg = _config(rng, fam, st)
            case = {"V": V, "F": F, "fam": fam, **cfg}
            if bordered and rng.random() < 0.5:
                V2, F2, vperm, fperm = GG.metamorphic(rng, V, F)
                case["meta"] = {"vperm": vperm, "fperm": fperm, "F2": F2}
            yield case
    # ---- round 3: histories on one object / one mesh, input representations, custom feature detectors
    nh = 30 if tier == "quick" else 130
    kinds = ["two-fields", "repr", "rerun", "two-fields", "call", "interleaved", "two-fields", "custom-features", "two-fields", "repr", "moved"]
    nh += nh // 10
    for k in range(nh):
        kind = kinds[k % len(kinds)]
        creased = False
        if kind == "repr":
            V, F, st = _int_surface(rng)
            fam = "intgrid"
        else:
            fam = rng.choice(["fold", "box", "cube"]) if (kind == "two-fields" and k % 2 == 0) else \
                rng.choice(["grid", "fold", "box", "annulus", "holes", "sphere", "cube", "delaunay"])
            creased = fam in ("fold", "box", "cube")
            V, F, st = GG.make_surface(rng, fam, big=False)
        cfg = _config(rng, fam, st)
        cfg["n_smooth"] = rng.choice([0, 0, 0, 1, 3])
        case = {"V": V, "F": F, "fam": fam, **cfg}
        if kind == "repr":
            nrep = sum(1 for q in range(k) if kinds[q % len(kinds)] == "repr")
            case["elem"] = ["faces", "vertices"][nrep % 2]
            case["build"] = ["int64", "pyint", "f32", "intlists", "pyint", "int64"][nrep % 6]
            case["hist"] = {"kind": "repr"}
        elif kind == "two-fields":
            first = _config(rng, fam, st)
            first["n_smooth"] = rng.choice([0, 1])
            first["elem"] = cfg["elem"] if rng.random() < 0.75 else first["elem"]
            if creased:
                # the constrained set of the first field is larger / smaller / equal: attributes it leaves on the mesh must not leak
                ncre = k // 2
                ff_, cf_ = [(True, False), (False, True), (True, False), (True, True)][ncre % 4]
                first["features"], case["features"] = ff_, cf_
                case["elem"] = first["elem"] = ["faces", "vertices", "faces"][(ncre // 2) % 3] if ncre % 4 != 3 else case["elem"]
                if ncre % 4 == 0:
                    first["order"], case["order"] = 4, 6
            if first["order"] == case["order"] and first["features"] == case["features"]:
                first["order"] = case["order"] % 6 + 1
            case["hist"] = {"kind": "two-fields", "first": first,
                            "reuse_detector": bool(case["features"] == first["features"] and rng.random() < 0.4),
                            "custom_both": bool(k % 3 == 0)}
        elif kind == "interleaved":
            fam2 = rng.choice(["grid", "fold", "sphere", "annulus"])
            V2, F2, st2 = GG.make_surface(rng, fam2, big=False)
            other = _config(rng, fam2, st2); other["n_smooth"] = rng.choice([0, 1])
            if rng.random() < 0.7: other["elem"] = case["elem"]
            case["hist"] = {"kind": "interleaved", "other": dict(other, V=V2, F=F2, fam=fam2)}
        elif kind == "moved":
            # round 5: the mesh carried a conventional attribute computed for an EARLIER geometry (a scalar Laplacian / cotangents were
            # asked for), was then deformed in place with the documented transform, and only then the (vertex-based) field is computed.
            # Only the vertex-based field: its unchanged initialize() refreshes what optimize() reads from the mesh; the face-based one
            # reads the mesh's caches as they are (caller's responsibility, DESIGN 10.9).
            nm = sum(1 for q in range(k) if kinds[q % len(kinds)] == "moved")
            case["elem"] = "vertices"
            case["cotan"] = True
            case["n_smooth"] = [0, 0, 1][nm % 3]
            case["hist"] = {"kind": "moved", "pre": ["laplacian", "cotangent", "edge-diagonal"][nm % 3],
                            "scale": [[1.0, 3.0, 1.0], [2.0, 1.0, 0.5], [0.5, 1.0, 2.0], [1.0, 1.0, 2.5]][(nm // 3 + nm) % 4]}
            # (a complete face-based field before the move is NOT part of this family: it leaves `area`, `angles`, ... attributes that the unchanged
            # vertex-based code reads as they are - area_weight_matrix -, i.e. the caller's responsibility by the caching policy)
        else:
            if creased and rng.random() < 0.6: case["features"] = True
            case["hist"] = {"kind": kind}
        yield case
    if tier == "thorough":
        # all option combinations on a few fixed small surfaces
        for fam in ["grid", "fold", "annulus", "sphere", "torus", "box"]:
            V, F, st = GG.make_surface(rng, fam)
            for elem in ["faces", "vertices"]:
                for order in range(1, 7):
                    for features in [False, True]:
                        for ns in [0, 2]:
                            for cotan in [True, False]:
                                yield {"V": V, "F": F, "fam": fam, "elem": elem, "order": order, "features": features,
                                       "n_smooth": ns, "cotan": cotan, "seed": 1}


def _int_surface(rng):
    """a triangulated height-field grid whose coordinates are (small) INTEGERS, non-degenerate (every triangle has
    area >= 4 and no angle below ~15 degrees: checked, the draw is repeated otherwise)"""
    while True:
        nu, nv = rng.randint(3, 5), rng.randint(3, 5)
        V = [[4 * i + rng.randint(-1, 1), 4 * j + rng.randint(-1, 1), rng.randint(-1, 1)] for i in range(nu) for j in range(nv)]
        F = []
        for i in range(nu - 1):
            for j in range(nv - 1):
                a, b, c, d = i * nv + j, (i + 1) * nv + j, (i + 1) * nv + j + 1, i * nv + j + 1
                F += [[a, b, c], [a, c, d]] if rng.random() < 0.5 else [[a, b, d], [b, c, d]]
        ok = True
        for f in F:
            p = [V[t] for t in f]
            for k in range(3):
                u = [p[(k + 1) % 3][t] - p[k][t] for t in range(3)]; w = [p[(k + 2) % 3][t] - p[k][t] for t in range(3)]
                cr = [u[1] * w[2] - u[2] * w[1], u[2] * w[0] - u[0] * w[2], u[0] * w[1] - u[1] * w[0]]
                c2 = sum(x * x for x in cr); uu = sum(x * x for x in u); ww = sum(x * x for x in w)
                if c2 < 64 or c2 < 0.067 * uu * ww: ok = False       # area < 4 or sin^2(angle) < 0.067
        if ok: break
    F = G.rotate_faces(rng, F); F = G.shuffle_faces(rng, F)
    V = [[float(c) for c in v] for v in V]
    st = G.surface_stats(len(V), F)
    return V, F, st


def search_on_break(rng, broken, mismatches):
    """extra inputs for the failing-input search: small bordered/closed surfaces, every order, both elements"""
    for fam in ["grid", "fold", "box", "annulus", "sphere", "tiny", "strip", "holes"]:
        V, F, st = GG.make_surface(rng, fam)
        for elem in ["faces", "vertices"]:
            for order in range(1, 7):
                case = {"V": V, "F": F, "fam": fam, "elem": elem, "order": order, "features": fam in ("fold", "box"),
                        "n_smooth": rng.choice([0, 2]), "cotan": rng.random() < 0.5, "seed": 3}
                if st["border_edges"] > 0 and order in (2, 3, 4):
                    V2, F2, vperm, fperm = GG.metamorphic(rng, V, F)
                    case["meta"] = {"vperm": vperm, "fperm": fperm, "F2": F2}
                yield case
    for fam in ["fold", "box", "grid", "sphere"]:
        V, F, st = GG.make_surface(rng, fam)
        for elem in ["faces", "vertices"]:
            for o1, o2 in ((4, 2), (2, 3), (6, 4)):
                base = {"V": V, "F": F, "fam": fam, "elem": elem, "order": o2, "features": fam in ("fold", "box"), "n_smooth": 0, "cotan": True, "seed": 5}
                yield dict(base, hist={"kind": "two-fields", "reuse_detector": False,
                                       "first": {"elem": elem, "order": o1, "features": fam in ("fold", "box"), "n_smooth": 0, "cotan": True, "seed": 5}})
                yield dict(base, hist={"kind": "rerun"})
                yield dict(base, hist={"kind": "call"})
    for fam in ["grid", "holes", "delaunay"]:
        V, F, st = GG.make_surface(rng, fam)
        for pre in ("laplacian", "cotangent"):
            yield {"V": V, "F": F, "fam": fam, "elem": "vertices", "order": 4, "features": False, "n_smooth": 0, "cotan": True, "seed": 5,
                   "hist": {"kind": "moved", "pre": pre, "scale": [1.0, 3.0, 1.0]}}
    for _ in range(6):
        V, F, st = _int_surface(rng)
        for b in ("int64", "pyint", "f32"):
            yield {"V": V, "F": F, "fam": "intgrid", "elem": rng.choice(["faces", "vertices"]), "order": rng.choice([2, 3, 4]), "features": False,
                   "n_smooth": 0, "cotan": True, "seed": 5, "build": b, "hist": {"kind": "repr"}}


# ------------------------------------------------------------------------------------------------
# running the implementation
# ------------------------------------------------------------------------------------------------
class Run:
    pass


def _exc_name(e):
    return type(e).__name__


def _build(V, F, kind=None):
    """the surface as a mouette SurfaceMesh; `kind` selects the representation of the SAME coordinates handed to the library"""
    if kind is None:
        return G.build_surface({"V": V, "F": F})
    import numpy as np, mouette as M
    if kind == "int64":
        return M.mesh.from_arrays(np.array([[int(c) for c in v] for v in V], dtype=np.int64), F=np.array(F, dtype=np.int64))
    if kind == "f32":
        return M.mesh.from_arrays(np.array(V, dtype=np.float32), F=np.array(F, dtype=np.int32))
    d = M.mesh.RawMeshData()
    if kind == "pyint":
        d.vertices += [M.Vec(*[int(c) for c in v]) for v in V]
        d.faces += [list(f) for f in F]
    elif kind == "intlists":
        d.vertices += [[int(c) for c in v] for v in V]
        d.faces += [tuple(f) for f in F]
    else:
        raise ValueError(kind)
    return M.mesh.SurfaceMesh(d)


def _make_ff(m, case, alpha=None, detector=None):
    from mouette import framefield as ff
    return ff.SurfaceFrameField(m, case["elem"], order=case["order"], features=case["features"], verbose=False,
                                n_smooth=case["n_smooth"], use_cotan=case["cotan"], cad_correction=False,
                                smooth_attach_weight=alpha, custom_features=detector)


def _run_once(case, V, F, want_sing=True, alpha=None, mesh=None, detector=None, build="case", via_call=False, twice=False, between=None):
    import numpy as np
    r = Run()
    r.err = None
    r.V, r.F = V, F
    r.m = mesh if mesh is not None else _build(V, F, case.get("build") if build == "case" else build)
    np.random.seed(case["seed"])
    # the attach weight is estimated with ARPACK (eigsh, tol=1e-3) from an unseeded random start vector: inject the
    # randomness from the case seed so that a run (and a replay) is reproducible
    import scipy.sparse.linalg as spl
    orig_eigsh = spl.eigsh

    def eigsh_seeded(*a, **k):
        if k.get("v0") is None and k.get("rng") is None:
            k["rng"] = np.random.default_rng(case["seed"])
        return orig_eigsh(*a, **k)
    spl.eigsh = eigsh_seeded
    r.captured = []
    stage = "construct"
    try:
        r.f = f = _make_ff(r.m, case, alpha, detector)
        if between is not None:
            between()                # something else happens between construction and use (another field on another mesh)
            np.random.seed(case["seed"])   # numpy's global generator is shared by design: the harness re-injects this case's randomness
        stage = "initialize"
        f.initialize()
        r.var_init = np.array(f.var, dtype=complex).copy()
        orig = f.normalize

        def norm():
            r.captured.append(np.array(f.var, dtype=complex).copy())
            orig()
        f.normalize = norm
        stage = "optimize"
        if via_call:
            f()                      # Worker.__call__ -> run(): initialize() was already called, so only optimize() must happen
        else:
            f.optimize()
            f.smoothed = True
        f.normalize = orig
        r.var = np.array(f.var, dtype=complex).copy()
        if twice:
            stage = "run (second time)"
            f.run()
            r.var_second = np.array(f.var, dtype=complex).copy()
        if want_sing:
            stage = "flag_singularities"
            f.flag_singularities()
            if twice:
                stage = "flag_singularities (second time)"
                f.flag_singularities()
    except Exception as e:  # noqa
        r.err = (stage, _exc_name(e), str(e)[:200])
    finally:
        spl.eigsh = orig_eigsh
    return r


def _run(case):
    from ..core import case_id
    k = case_id(case)
    if k not in _CACHE:
        if len(_CACHE) > 4000: _CACHE.clear()
        _CACHE[k] = _run_once(case, case["V"], case["F"])
    return _CACHE[k]


# ---- independent combinatorics (does not use mouette) --------------------------------------------
def _topology(V, F):
    sides = {}
    for fi, f in enumerate(F):
        for i in range(3):
            sides[(f[i], f[(i + 1) % 3])] = fi
    und = {}
    for (a, b), fi in sides.items():
        und.setdefault((min(a, b), max(a, b)), []).append(fi)
    border = {k for k, v in und.items() if len(v) == 1}
    bverts = {v for e in border for v in e}
    chi = len(V) - len(und) + len(F)
    return sides, und, border, bverts, chi


def _frac(x):
    return Fraction(float(x))


def _fs(x):
    f = x if isinstance(x, Fraction) else _frac(x)
    return str(f.numerator) if f.denominator == 1 else f"{f.numerator}/{f.denominator}"


def _cs(z):
    z = complex(z)
    return _fs(z.real) + " " + _fs(z.imag)


def _opt(t):
    return "N" if t is None else str(int(t))


# ------------------------------------------------------------------------------------------------
# data handed to the model: the implementation's own per-edge / per-element quantities
# ------------------------------------------------------------------------------------------------
def _impl_data(case, r):
    """Everything the model needs, read off the implementation's objects (no value is recomputed by the harness except
    where the code computes it in a local variable: then the same expression is evaluated on the same objects)."""
    import numpy as np
    from mouette import operators
    m, f = r.m, r.f
    order = case["order"]
    d = {}
    faces = case["elem"] == "faces"
    n = len(m.faces) if faces else len(m.vertices)
    d["n"] = n
    if faces:
        if case["cotan"]:
            D = operators.cotan_edge_diagonal(m).diagonal()
        lap = []
        for ie, (ei, ej) in enumerate(m.edges):
            T1, T2 = m.connectivity.edge_to_faces(ei, ej)
            if T1 is None or T2 is None: continue
            w = float(D[ie]) if case["cotan"] else 1.0
            lap.append((int(T1), int(T2), w, cmath.rect(1, order * f.conn.transport(T1, T2))))
        d["lap"] = lap
        d["L"] = operators.laplacian_triangles(m, cotan=case["cotan"], connection=f.conn, order=order).toarray()
        adj, writes = [], []
        for e in f.feat.feature_edges:
            e1, e2 = m.edges[e]
            T1, T2 = m.connectivity.edge_to_faces(e1, e2)
            adj.append((T1, T2))
        for e in f.feat.feature_edges:
            e1, e2 = m.edges[e]
            edge = m.vertices[e2] - m.vertices[e1]
            for T in m.connectivity.edge_to_faces(e1, e2):
                if T is None: continue
                X, Y = f.conn.base(T)
                c = complex(edge.dot(X), edge.dot(Y))
                writes.append((int(T), c, abs(c)))
        d["adj"], d["writes"] = adj, writes
    else:
        cot = m.face_corners.get_attribute("cotan") if case["cotan"] else None
        lap = []
        for iT, (p, q, rr) in enumerate(m.faces):
            if case["cotan"]:
                a, b, c = (cot[m.connectivity.vertex_to_corner_in_face(_v, iT)] / 2 for _v in (p, q, rr))
            else:
                a, b, c = 0.5, 0.5, 0.5
            for (i, j, v) in [(p, q, c), (q, rr, a), (rr, p, b)]:
                ai, aj = f.conn.transport(i, j), f.conn.transport(j, i)
                lap.append((int(i), int(j), float(v), cmath.rect(1., order * (ai - aj - math.pi)), cmath.rect(1., order * (aj - ai - math.pi))))
        d["lap"] = lap
        d["L"] = operators.laplacian(m, cotan=case["cotan"], connection=f.conn, order=order).toarray()
        d["featV"] = sorted(int(v) for v in f.feat.feature_vertices)
        guarded = bool(f.smooth_normals and order % 2 != 1)
        contribs = []
        for e in f.feat.feature_edges:
            A, B = m.edges[e]
            if guarded:
                edge = m.vertices[B] - m.vertices[A]
                vx, vy = f.conn.project(edge, B); v = complex(vx, vy); contribs.append((int(B), v / abs(v)))
                vx, vy = f.conn.project(edge, A); v = complex(vx, vy); contribs.append((int(A), v / abs(v)))
            else:
                contribs.append((int(A), cmath.rect(1, f.conn.transport(A, B))))
                contribs.append((int(B), cmath.rect(1, f.conn.transport(B, A))))
        d["guarded"], d["contribs"] = guarded, contribs
        # --- round 2: full vertex initialisation (with normalisation) and flag_singularities on faces
        d["smooth"] = bool(f.smooth_normals)
        acc = [0j] * n
        for v, u in contribs:
            sacc = acc[v] + u ** order
            if (not guarded) or abs(sacc) > 1e-10: acc[v] = sacc
        d["sum_abs"] = [abs(z) for z in acc]          # abs() of the accumulated sums: the square roots handed to the model
        d["vtheta"] = [cmath.phase(complex(z)) / TWO_PI for z in r.var]
        ts = []
        for (A, B) in m.edges:
            ts.append((int(A), int(B), f.conn.transport(A, B) / TWO_PI)); ts.append((int(B), int(A), f.conn.transport(B, A) / TWO_PI))
        d["vts"] = ts
        d["vedges"] = [(int(A), int(B)) for (A, B) in m.edges]
        d["vfaces"] = [tuple(int(x) for x in fc) for fc in m.faces]
    # solve section
    if r.captured:
        pre = r.captured[-1]
        d["pre"] = pre
    # index section
    if faces:
        th = [cmath.phase(complex(z)) / TWO_PI for z in r.var]
        edges = []
        for ie, (A, B) in enumerate(m.edges):
            T1, T2 = m.connectivity.edge_to_faces(A, B)
            if T1 is None or T2 is None:
                edges.append((int(A), int(B), T1, T2, 0.0, 0.0)); continue
            E = m.vertices[B] - m.vertices[A]
            X1, Y1 = f.conn.base(T1); X2, Y2 = f.conn.base(T2)
            a1 = math.atan2(Y1.dot(E), X1.dot(E)); a2 = math.atan2(Y2.dot(E), X2.dot(E))
            edges.append((int(A), int(B), int(T1), int(T2), a1 / TWO_PI, a2 / TWO_PI))
        d["theta"], d["edges"] = th, edges
        d["defect"] = [float(f.defect[v]) / TWO_PI for v in m.id_vertices]
    return d


def _flags(case, d):
    n = d["n"]
    fl = [False] * n
    if case["elem"] == "faces":
        for T1, T2 in d["adj"]:
            if T1 is not None: fl[T1] = True
            if T2 is not None: fl[T2] = True
    else:
        for v in d["featV"]: fl[v] = True
    return fl


def model_request(case):
    r = _run(case)
    if r.err or case.get("build") == "f32":
        return None      # f32: the comparison tolerances of the correspondence (1e-9) assume double-precision geometry
    d = r.data = _impl_data(case, r)
    faces = case["elem"] == "faces"
    t = ["ff", "f" if faces else "v", str(case["order"]), str(d["n"])]
    t.append(str(len(d["lap"])))
    for e in d["lap"]:
        if faces: t += [str(e[0]), str(e[1]), _fs(e[2]), _cs(e[3])]
        else: t += [str(e[0]), str(e[1]), _fs(e[2]), _cs(e[3]), _cs(e[4])]
    if faces:
        t.append(str(len(d["adj"])))
        for a, b in d["adj"]: t += [_opt(a), _opt(b)]
        t.append(str(len(d["writes"])))
        for T, c, rr in d["writes"]: t += [str(T), _cs(c), _fs(rr)]
    else:
        t.append(str(len(d["featV"]))); t += [str(v) for v in d["featV"]]
        t.append("1" if d["guarded"] else "0")
        t.append(str(len(d["contribs"])))
        for v, u in d["contribs"]: t += [str(v), _cs(u)]
    if "pre" in d:
        fl = _flags(case, d)
        free = [i for i in range(d["n"]) if not fl[i]]
        pre = d["pre"]
        t.append("1")
        t.append(str(d["n"])); t += [_cs(z) for z in r.var_init]
        t.append(str(len(free))); t += [_cs(pre[i]) for i in free]
        t.append(str(d["n"])); t += [_fs(abs(complex(z))) for z in pre]
    else:
        t.append("0")
    if faces:
        t.append("1")
        t.append(str(len(d["defect"]))); t += [_fs(x) for x in d["defect"]]
        t.append(str(len(d["theta"]))); t += [_fs(x) for x in d["theta"]]
        t.append(str(len(d["edges"])))
        for a, b, T1, T2, a1, a2 in d["edges"]: t += [str(a), str(b), _opt(T1), _opt(T2), _fs(a1), _fs(a2)]
    else:
        t.append("0")
    if not faces:
        t += ["VX", "1" if d["smooth"] else "0"]
        t.append(str(len(d["contribs"])))
        for v, u in d["contribs"]: t += [str(v), _cs(u)]
        t.append(str(len(d["featV"]))); t += [str(v) for v in d["featV"]]
        t.append(str(d["n"])); t += [_fs(x) for x in d["sum_abs"]]
        t.append(str(d["n"])); t += [_fs(x) for x in d["vtheta"]]
        t.append(str(len(d["vts"])))
        for u, v, x in d["vts"]: t += [str(u), str(v), _fs(x)]
        t.append(str(len(d["vedges"])))
        for a, b in d["vedges"]: t += [str(a), str(b)]
        t.append(str(len(d["vfaces"])))
        for a, b, c in d["vfaces"]: t += [str(a), str(b), str(c)]
    return " ".join(t)


def impl_observe(case):
    """canonical summary of the run (the full numeric comparison with the model happens in compare())"""
    r = _run(case)
    if r.err:
        return f"err:Other({r.err[1]})@{r.err[0]}"
    import numpy as np
    mods = np.abs(r.var)
    nfe = len(r.f.feat.feature_edges)
    nfix = int(sum(_fixed_mask(case, r)))
    s = f"n={len(r.var)} featE={nfe} fixed={nfix} solves={len(r.captured)} unit={'1' if np.all(np.abs(mods - 1) < 1e-9) else '0'}"
    if case["elem"] == "faces":
        sg = r.m.vertices.get_attribute("singuls")
        vals = sorted((int(k), Fraction(round(float(sg[k]) * case["order"] / 4))) for k in sg if not r.m.is_vertex_on_border(k))
        s += " interior-index*order/4=" + ",".join(f"{k}:{v}" for k, v in vals)
    return s


def _fixed_mask(case, r):
    """constrained elements, from the library's feature set and the face list (independent of the optimiser's locals)"""
    m, f = r.m, r.f
    if case["elem"] == "faces":
        sides, und, border, bverts, chi = _topology(r.V, r.F)
        mask = [False] * len(r.F)
        for e in f.feat.feature_edges:
            a, b = m.edges[e]
            for fi in und[(min(a, b), max(a, b))]: mask[fi] = True
        return mask
    mask = [False] * len(r.V)
    for e in f.feat.feature_edges:
        a, b = m.edges[e]
        mask[a] = True; mask[b] = True
    return mask


# ------------------------------------------------------------------------------------------------
# comparison model <-> implementation
# ------------------------------------------------------------------------------------------------
def _pr(tok):
    return Fraction(tok)


def _close(x, y, scale=1.0, tol=1e-9):
    return abs(complex(x) - complex(y)) <= tol * scale + 1e-12


def _parse_cpx_list(toks):
    n = int(toks[0]); out = []
    for i in range(n):
        out.append(complex(float(_pr(toks[1 + 2 * i])), float(_pr(toks[2 + 2 * i]))))
    return out, toks[1 + 2 * n:]


def _parse_rat_list(toks):
    n = int(toks[0])
    return [_pr(t) for t in toks[1:1 + n]], toks[1 + n:]


def compare(case, model, impl):
    import numpy as np
    r = _run(case)
    if r.err:
        return None
    if model == "bad-request":
        return "model rejected the request"
    d = r.data
    secs = [s.strip() for s in model.split(" | ")]
    faces = case["elem"] == "faces"
    if len(secs) != (5 if faces else 7):
        return "model reply malformed"
    if not faces:
        why = _compare_vertex(case, r, d, secs[5], secs[6])
        if why: return why
    order = case["order"]
    # ---- lap
    lap_s, herm_s = secs[0].split(" ; ")
    tk = lap_s.split()[1:]
    k = int(tk[0]); tk = tk[1:]
    L = d["L"]
    scale = float(np.max(np.abs(L))) if L.size else 1.0
    seen = set()
    for i in range(k):
        a, b = int(tk[4 * i]), int(tk[4 * i + 1])
        z = complex(float(_pr(tk[4 * i + 2])), float(_pr(tk[4 * i + 3])))
        seen.add((a, b))
        if not _close(L[a, b], z, scale):
            return f"lap: coefficient ({a},{b}) implementation {L[a, b]} model {z}"
    for a, b in zip(*np.nonzero(np.abs(L) > 1e-13 * scale)):
        if (int(a), int(b)) not in seen:
            return f"lap: implementation has a coefficient at ({a},{b}) the model does not"
    hd = float(_pr(herm_s))
    if faces and hd != 0:
        return f"lap: model matrix (faces) not exactly Hermitian: dev^2={hd}"
    if hd > (1e-12 * scale) ** 2:
        return f"lap: model matrix not Hermitian: dev^2={hd}"
    # ---- partition
    free_s, fixed_s = secs[1][len("part "):].split(" ; ")
    mfree = [int(x) for x in free_s.split()[1:]]
    mfixed = [int(x) for x in fixed_s.split()[1:]]
    mask = _fixed_mask(case, r)
    if mfixed != [i for i, b in enumerate(mask) if b] or mfree != [i for i, b in enumerate(mask) if not b]:
        return "part: model fixed/free partition differs from the constrained set of the implementation"
    if faces and r.m.faces.has_attribute("fixed"):
        fa = r.m.faces.get_attribute("fixed")
        if any(i is None or isinstance(i, (tuple, str)) for i in fa):
            return "part: the optimiser's `fixed` face attribute has a key that is not a face index"
        if sorted(int(i) for i in fa if fa[i]) != mfixed:
            return "part: model fixedInds differ from the optimiser's `fixed` face attribute"
    # ---- init
    minit, _ = _parse_cpx_list(secs[2].split()[1:])
    for i, z in enumerate(minit):
        zi = complex(r.var_init[i])
        if not faces:
            a = abs(z)
            if mask[i] and a > 1e-8: z = z / a
        if not _close(zi, z, 1.0, 1e-8):
            return f"init: constraint of element {i}: implementation {zi} model {z}"
    # ---- solve
    if secs[3] != "solve -":
        fin_s, ns_s, res_s = secs[3][len("solve "):].split(" ; ")
        fin, _ = _parse_cpx_list(fin_s.split())
        nsq, _ = _parse_rat_list(ns_s.split())
        resid, _ = _parse_cpx_list(res_s.split())
        for i, z in enumerate(fin):
            if not _close(r.var[i], z, 1.0, 1e-9):
                return f"solve: final value of element {i}: implementation {r.var[i]} model {z}"
            if abs(d["pre"][i]) > 1e-10 and abs(float(nsq[i]) - 1) > 1e-12:
                return f"solve: model squared modulus of element {i} is {float(nsq[i])}"
        if case["n_smooth"] == 0 and any(mask) and resid:
            pre = d["pre"]
            rs = max(abs(z) for z in resid)
            bound = 1e-9 * (scale * max(1.0, float(np.max(np.abs(pre)))) * len(pre)) + 1e-12
            r.model_resid = (rs, bound)
            if rs > bound:
                return f"solve: exact residual of L_II x + L_IB x_B on the solver output is {rs:.3e} > {bound:.3e}"
    # ---- idx
    if secs[4] != "idx -":
        parts = secs[4][len("idx "):].split(" ; ")
        rots, _ = _parse_rat_list(parts[0].split())
        angles, _ = _parse_rat_list(parts[1].split())
        total, sumdef = _pr(parts[2]), _pr(parts[3])
        thS, _ = _parse_rat_list(parts[4].split())
        gS, _ = _parse_rat_list(parts[5].split())
        jS, _ = _parse_rat_list(parts[6].split())
        if total != sumdef:
            return "idx: model total of vertex sums differs from the sum of defects (telescoping broken)"
        sides, und, border, bverts, chi = _topology(r.V, r.F)
        er = r.m.edges.get_attribute("angles")
        near_tie = set()
        for ie, (a, b, T1, T2, a1, a2) in enumerate(d["edges"]):
            if T1 is None or T2 is None: continue
            ir = float(er[ie]); mr = float(rots[ie]) * TWO_PI
            if abs(ir - mr) > 1e-9:
                q = (ir - mr) / (TWO_PI / order)
                if abs(q - round(q)) < 1e-7 and abs(abs(ir) - abs(mr)) < 1e-7:
                    near_tie.add(a); near_tie.add(b)          # two best candidates tie: either is a valid matching
                else:
                    return f"idx: rotation of edge {ie}: implementation {ir} model {mr}"
        sg = r.m.vertices.get_attribute("singuls")
        zthr, sca = _consts()
        for v in range(len(r.V)):
            if jS[v].denominator != 1:
                return f"idx: J_{v} is not an integer in the model"
            if v not in bverts:
                if thS[v] != 0:
                    return f"idx: theta sum around interior vertex {v} does not telescope in the model: {thS[v]}"
                g = float(gS[v])
                if abs(g - round(g)) > 1e-9:
                    return f"idx: geometric closure at interior vertex {v} is {g} turns (not an integer)"
            if v in near_tie: continue
            ang = float(angles[v]) * TWO_PI
            flagged = v in set(int(k) for k in sg)
            if abs(abs(ang) - zthr) < 1e-9: continue
            if flagged != (abs(ang) > zthr):
                return f"idx: vertex {v} flagged={flagged} but model angle {ang}"
            if flagged and abs(float(sg[v]) - ang * sca / math.pi) > 1e-9:
                return f"idx: index of vertex {v}: implementation {float(sg[v])} model {ang * sca / math.pi}"
    return None


def _compare_vertex(case, r, d, initv_s, idxv_s):
    """round 2: vertex-based INITV / IDXV sections"""
    from mouette import attributes
    order = case["order"]
    minit, _ = _parse_cpx_list(initv_s.split()[1:])
    for i, z in enumerate(minit):
        if not _close(r.var_init[i], z, 1.0, 1e-8):
            return f"initv: constraint of vertex {i}: implementation {complex(r.var_init[i])} model {z}"
    parts = idxv_s[len("idxv "):].split(" ; ")
    rots, _ = _parse_rat_list(parts[0].split())
    curv, _ = _parse_rat_list(parts[1].split())
    ang, _ = _parse_rat_list(parts[2].split())
    nang, _ = _parse_rat_list(parts[3].split())
    total, sc, bt, wf = _pr(parts[4]), _pr(parts[5]), _pr(parts[6]), parts[7].strip()
    if wf != "1":
        return "idxv: the edge list of the mesh is not well formed for the model (self loop / duplicate edge)"
    if total != sc + bt:
        return "idxv: model total of face angles differs from sum of curvatures + border term (telescoping broken)"
    sides, und, border, bverts, chi = _topology(r.V, r.F)
    if not border and bt != 0:
        return "idxv: border term is not zero on a closed surface"
    for F_, x in enumerate(nang):
        if x.denominator != 1:
            return f"idxv: order * angle of face {F_} is not an integer in the model: {x}"
    er = r.m.edges.get_attribute("angles")
    near_tie = set()
    for ie, (a, b) in enumerate(d["vedges"]):
        ir = -float(er[ie]); mr = float(rots[ie]) * TWO_PI          # the attribute stores -angles[i_angle]
        if abs(ir - mr) > 1e-9:
            q = (ir - mr) / (TWO_PI / order)
            if abs(q - round(q)) < 1e-7 and abs(abs(ir) - abs(mr)) < 1e-7:
                near_tie.add(a); near_tie.add(b)
            else:
                return f"idxv: rotation of edge {ie}: implementation {ir} model {mr}"
    K = attributes.parallel_transport_curvature(r.m, r.f.conn, persistent=False)
    sg = r.m.faces.get_attribute("singuls")
    thr = _vthr()
    for F_, fc in enumerate(d["vfaces"]):
        dk = (float(K[F_]) / TWO_PI - float(curv[F_]))
        if abs(dk - round(dk)) > 1e-9 or (abs(dk) > 1e-9 and abs(abs(float(curv[F_])) - 0.5) > 1e-6):
            return f"idxv: curvature of face {F_}: implementation {float(K[F_])} model {float(curv[F_]) * TWO_PI}"
        if any(v in near_tie for v in fc): continue
        a = float(ang[F_]) * TWO_PI
        if abs(abs(a) - thr) < 1e-9 or abs(dk) > 1e-9: continue
        want = 1 if a > thr else (-1 if a < -thr else 0)
        if int(sg[F_]) != want:
            return f"idxv: face {F_} flagged {int(sg[F_])} but model angle {a}"
    return None


# ------------------------------------------------------------------------------------------------
# the oracle: the property stated directly on the implementation
# ------------------------------------------------------------------------------------------------
def _F(key, what, detail=""):
    return {"key": key, "what": what, "detail": detail}


def _np(v):
    import numpy as np
    return np.array([float(v[0]), float(v[1]), float(v[2])])


def oracle(case):
    import numpy as np
    out = []
    r = _run(case)
    elem, order = case["elem"], case["order"]
    V, F = case["V"], case["F"]
    sides, und, border, bverts, chi = _topology(V, F)
    closed = not border
    tagc = "closed" if closed else "bordered"
    # single-precision coordinates: the library's geometry (bases, angles) is only accurate to float32 round-off; the
    # geometric tolerances of the clauses are widened accordingly (unit modulus and the solve stay in double precision)
    ts = 1e4 if case.get("build") == "f32" else 1.0
    if r.err:
        stage, name, msg = r.err
        nf = "1face" if len(F) == 1 else "n"
        return [_F(f"C18/raises/{elem}/{stage}/{name}/{nf}", f"{stage}() raised {name} on a valid triangulated surface ({elem})", msg)]
    m, f = r.m, r.f
    var = r.var
    mask = _fixed_mask(case, r)
    nfree = sum(1 for b in mask if not b)
    feat_pairs = {(min(m.edges[e]), max(m.edges[e])) for e in f.feat.feature_edges}

    # (0) border edges are feature edges; with features off nothing else is
    if not border <= feat_pairs:
        out.append(_F(f"C18/features/{elem}/border-not-feature", "a border edge is not in the feature set used by the field", ""))
    if not case["features"] and feat_pairs != border:
        out.append(_F(f"C18/features/{elem}/extra-feature", "features switched off but a non-border edge is constrained", ""))

    # (1) unit modulus on every element; (2) constrained elements carry a unit constraint and keep it
    mods = np.abs(var)
    sums = _vertex_constraint_sums(case, r) if elem == "vertices" else {}
    badc = [i for i, b in enumerate(mask) if b and abs(abs(r.var_init[i]) - 1) > 1e-9]
    for i in badc[:1]:
        if elem == "vertices":
            par = "odd-order" if order % 2 else "even-order"
            loc = "border-vertex" if i in bverts else "crease-vertex"
            canc = "cancelled" if abs(sums.get(i, 1)) < 1e-6 else "other"
            key = f"C18/constraint/vertices/not-unit/{par}/{loc}/{canc}"
        else:
            key = "C18/constraint/faces/not-unit"
        out.append(_F(key, f"{len(badc)} constrained element(s) carry a non-unit constraint after initialize(), so the field is not unit there",
                      f"element {i}: constraint {complex(r.var_init[i])}, final modulus {mods[i]:.3e}; order {order}"))
    bad = [i for i in range(len(var)) if not abs(mods[i] - 1) <= 1e-9 and i not in badc]
    if bad:
        tiny = all(mods[i] <= 1e-9 for i in bad)
        kind = "vanishing-entry" if tiny else "non-unit"
        solver = "eigen" if not any(mask) else "linear"
        out.append(_F(f"C18/unit/{elem}/{solver}/{kind}", f"{len(bad)} element(s) of the {elem} field do not have unit modulus ({kind}, {solver} solve)",
                      f"first: element {bad[0]} modulus {mods[bad[0]]:.3e}; order {order}, n_smooth {case['n_smooth']}"))
    for i, b in enumerate(mask):
        if b and abs(var[i] - r.var_init[i]) > 1e-9 and i not in badc:
            out.append(_F(f"C18/constraint/{elem}/moved", "a constrained element was changed by optimize()",
                          f"element {i}: {r.var_init[i]} -> {var[i]}")); break
    for i in badc:
        if abs(var[i] - r.var_init[i]) > 1e-9 * max(1.0, abs(r.var_init[i])) and abs(abs(var[i]) - 1) > 1e-9:
            out.append(_F(f"C18/constraint/{elem}/moved-nonunit", "a constrained (non-unit) element was changed by optimize() without becoming unit",
                          f"element {i}: {r.var_init[i]} -> {var[i]}")); break
    for i, b in enumerate(mask):
        if (not b) and abs(r.var_init[i]) != 0:
            out.append(_F(f"C18/constraint/{elem}/free-initialised", "an unconstrained element received a constraint", f"element {i}")); break

    # (2b) face-based: one branch tangent to the feature edge of each face having exactly one such edge
    if elem == "faces":
        n_against = 0
        for fi, fc in enumerate(F):
            fe = [(fc[i], fc[(i + 1) % 3]) for i in range(3) if (min(fc[i], fc[(i + 1) % 3]), max(fc[i], fc[(i + 1) % 3])) in feat_pairs]
            if len(fe) != 1: continue
            a, b = fe[0]
            E = _np(V[b]) - _np(V[a]); Eh = E / np.linalg.norm(E)
            pa, pb, pc = (_np(V[t]) for t in fc)
            N = np.cross(pb - pa, pc - pa); N /= np.linalg.norm(N)
            X, Y = (_np(t) for t in f.conn.base(fi))
            if abs(X @ N) > 1e-9 * ts or abs(Y @ N) > 1e-9 * ts or abs(X @ Y) > 1e-9 * ts or abs(X @ X - 1) > 1e-9 * ts or abs(Y @ Y - 1) > 1e-9 * ts or np.cross(X, Y) @ N < 0.5:
                out.append(_F("C18/faces/basis/not-orthonormal-tangent", "local basis of a face is not a direct orthonormal basis of its plane", f"face {fi}")); break
            th = cmath.phase(complex(var[fi]))
            best = min(np.linalg.norm(np.cross(math.cos((th + TWO_PI * k) / order) * X + math.sin((th + TWO_PI * k) / order) * Y, Eh)) for k in range(order))
            ea, eb = min(a, b), max(a, b)
            if (a, b) != (ea, eb): n_against += 1
            if best > 1e-7 * ts:
                par = "odd" if order % 2 else "even"
                out.append(_F(f"C18/faces/tangent/order-{par}", "no branch of the frame is tangent to the single feature edge of a face",
                              f"face {fi} edge {(a, b)} order {order}: sin(angle)={best:.3e}")); break
        r.n_against = n_against

    # (3) face-based singularities: multiples of the quantum at interior vertices, sum = chi * scale
    if elem == "faces":
        sg = m.vertices.get_attribute("singuls")
        flagged = {int(k): float(sg[k]) for k in sg}
        q = 4.0 / order
        for v, s in sorted(flagged.items()):
            if v in bverts: continue
            kq = s / q
            if abs(kq - round(kq)) > 1e-6 * ts or round(kq) == 0:
                out.append(_F(f"C18/faces/index/not-multiple/{tagc}", "index flagged at an interior vertex is not a whole non-zero multiple of 4/order",
                              f"vertex {v} index {s} order {order}")); break
        tot = sum(flagged.values())
        slack = (len(V) - len(flagged)) * _consts()[0] * 2 / math.pi + 1e-6 * ts
        if abs(tot - 4 * chi) > slack:
            out.append(_F(f"C18/faces/index/sum/{tagc}", "flagged indices do not add up to 4 * Euler characteristic",
                          f"sum {tot} chi {chi} (unflagged slack {slack:.2e})"))
        r.n_sing = sum(1 for v in flagged if v not in bverts)

    # (3v) vertex-based field: one index per face. Not a clause of the statement (which speaks of the face-based indices);
    # it is an identity of the construction (holonomy of the matched rotations + curvature of the same transports) and is
    # checked on the implementation's own stored rotations: whole multiple of 2*pi/order, flag = sign.
    if elem == "vertices":
        from mouette import attributes
        er = m.edges.get_attribute("angles")
        Kc = attributes.parallel_transport_curvature(m, f.conn, persistent=False)
        sg = m.faces.get_attribute("singuls")
        rot = {}
        for ie, (A, B) in enumerate(m.edges):
            rot[(int(A), int(B))] = -float(er[ie]); rot[(int(B), int(A))] = float(er[ie])
        vthr = _vthr()
        nsing = 0
        for fi, fc in enumerate(F):
            ang = sum(rot[(fc[i], fc[(i + 1) % 3])] for i in range(3)) + float(Kc[fi])
            kq = ang / (TWO_PI / order)
            if abs(kq - round(kq)) > 1e-6 * ts:
                out.append(_F(f"C18/vertices/index/not-multiple/{tagc}", "holonomy + curvature of a face is not a whole multiple of 2*pi/order",
                              f"face {fi}: angle {ang} order {order}")); break
            if abs(abs(ang) - vthr) < 1e-9: continue
            want = 1 if ang > vthr else (-1 if ang < -vthr else 0)
            if want: nsing += 1
            if int(sg[fi]) != want:
                out.append(_F(f"C18/vertices/index/flag-sign/{tagc}", "singularity flag of a face is not the sign of its holonomy + curvature",
                              f"face {fi}: angle {ang} flag {int(sg[fi])}")); break
        r.n_sing_v = nsing

    # (4)+(5) operator: Hermitian; flat connection -> scalar Laplacian; harmonic extension with n_smooth = 0
    from mouette import operators
    if elem == "faces":
        L = operators.laplacian_triangles(m, cotan=case["cotan"], connection=f.conn, order=order).toarray()
    else:
        L = operators.laplacian(m, cotan=case["cotan"], connection=f.conn, order=order).toarray()
    sc = float(np.max(np.abs(L))) if L.size else 1.0
    if L.size and np.max(np.abs(L - L.conj().T)) > 1e-12 * sc:
        out.append(_F(f"C18/operator/{elem}/not-hermitian", "connection Laplacian is not Hermitian", f"max dev {np.max(np.abs(L - L.conj().T)):.3e}"))
    # parallel transport: the field aligned with a shared edge is parallel across it, i.e. the off-diagonal phase of the
    # operator is exp(i*order*(a1-a2)) with a_k the angle of the edge in the basis of element k
    if elem == "faces" and L.size:
        Dg = operators.cotan_edge_diagonal(m).diagonal() if case["cotan"] else None
        for ie, (A, B) in enumerate(m.edges):
            fl = und[(min(A, B), max(A, B))]
            if len(fl) != 2: continue
            T1, T2 = sides[(A, B)], sides[(B, A)]
            E = _np(V[B]) - _np(V[A])
            X1, Y1 = (_np(t) for t in f.conn.base(T1)); X2, Y2 = (_np(t) for t in f.conn.base(T2))
            a1 = math.atan2(Y1 @ E, X1 @ E); a2 = math.atan2(Y2 @ E, X2 @ E)
            w = float(Dg[ie]) if case["cotan"] else 1.0
            if abs(w) < 1e-9 * sc: continue
            if abs(L[T1, T2] / (-w) - cmath.rect(1, order * (a1 - a2))) > 1e-7 * ts:
                out.append(_F("C18/operator/faces/transport-phase", "off-diagonal phase of the connection Laplacian is not the parallel transport of the shared edge",
                              f"edge {ie} faces {T1},{T2}: {L[T1, T2] / (-w)} vs {cmath.rect(1, order * (a1 - a2))}")); break
    if elem == "vertices" and L.size:
        for (A, B) in sorted(und):
            if abs(L[A, B]) < 1e-9 * sc: continue
            ai, aj = f.conn.transport(A, B), f.conn.transport(B, A)
            ph = -L[A, B] / abs(L[A, B])
            tgt = cmath.rect(1, order * (ai - aj - math.pi))
            if min(abs(ph - tgt), abs(ph + tgt)) > 1e-7:
                out.append(_F("C18/operator/vertices/transport-phase", "off-diagonal phase of the connection Laplacian is not the transport between the two vertex bases",
                              f"edge {(A, B)}: {ph} vs ±{tgt}")); break
    planar = all(v[2] == 0 for v in V)
    if planar and L.size:
        from mouette.processing import connection as CN
        if elem == "faces":
            Ls = operators.laplacian_triangles(m, cotan=case["cotan"]).toarray()
            Lf = operators.laplacian_triangles(m, cotan=case["cotan"], connection=CN.FlatConnectionFaces(m), order=order).toarray()
        else:
            Ls = operators.laplacian(m, cotan=case["cotan"]).toarray()
            Lf = operators.laplacian(m, cotan=case["cotan"], connection=CN.FlatConnectionVertices(m), order=order).toarray()
        ss = float(np.max(np.abs(Ls))) or 1.0
        if np.max(np.abs(Lf - Ls)) > 1e-9 * ss:
            out.append(_F(f"C18/operator/{elem}/flat-not-scalar", "connection Laplacian of the flat connection differs from the scalar Laplacian",
                          f"max dev {np.max(np.abs(Lf - Ls)):.3e}"))
        if elem == "faces":
            # default connection on a planar mesh is flat: gauge-equivalent to the scalar Laplacian
            # (the gauge is fixed by the geometry: angle of the basis X axis, counted along the orientation of the faces)
            pa, pb, pc = (_np(V[t]) for t in F[0])
            sgn = -1.0 if np.cross(pb - pa, pc - pa)[2] > 0 else 1.0
            g = np.array([cmath.rect(1, sgn * order * math.atan2(float(f.conn.base(T)[0][1]), float(f.conn.base(T)[0][0]))) for T in range(len(F))])
            okg = np.max(np.abs((g.conj()[:, None] * L * g[None, :]) - Ls)) <= 1e-9 * ss
            if not okg:
                out.append(_F("C18/operator/faces/planar-not-gauge-scalar", "on a planar mesh the connection Laplacian is not gauge-equivalent to the scalar Laplacian", ""))
        r.flat_checked = True
    if case["n_smooth"] == 0 and any(mask) and nfree > 0:
        free = [i for i, b in enumerate(mask) if not b]
        fixed = [i for i, b in enumerate(mask) if b]
        LII = L[np.ix_(free, free)]; LIB = L[np.ix_(free, fixed)]
        # boundary data = the constrained frames, i.e. the constraints written by initialize() (equal to the final values of the
        # constrained elements whenever these are unit and untouched, which clause (2) checks separately)
        rhs = -LIB @ r.var_init[fixed]
        try:
            cond = np.linalg.cond(LII)
        except Exception:  # noqa
            cond = float("inf")
        if np.isfinite(cond) and cond < 1e9:
            h = np.linalg.solve(LII, rhs)
            hs = float(np.max(np.abs(h)))
            r.harm_zero = hs < 1e-9          # all constraints vanish/cancel: the extension is identically zero, no direction to compare
            if r.harm_zero: hs = 1.0; h = h * 0
            worst, wi = 0.0, None
            for k, i in enumerate(free):
                if abs(h[k]) < 1e-6 * hs: continue
                dev = abs(var[i] - h[k] / abs(h[k])) * abs(h[k]) / hs
                if dev > worst: worst, wi = dev, i
            if worst > 1e-12 * cond + 1e-9:
                out.append(_F(f"C18/harmonic/{elem}/not-extension", "with n_smooth=0 the field is not the normalised harmonic extension of the constraints",
                              f"element {wi}: weighted deviation {worst:.3e} (cond {cond:.2e})"))
            if len(r.captured) == 1:
                pre = r.captured[0]
                res = LII @ pre[free] + LIB @ pre[fixed]
                bound = 1e-10 * len(free) * (float(np.max(np.abs(LII))) * hs + float(np.max(np.abs(rhs)))) + 1e-13
                if float(np.max(np.abs(res))) > bound:
                    out.append(_F(f"C18/harmonic/{elem}/residual", "solver output does not satisfy L_II x = -L_IB x_B",
                                  f"residual {float(np.max(np.abs(res))):.3e} bound {bound:.3e}"))
            r.harm_checked = True

    # (7) round 3: histories on one object / one mesh, representation of the input, custom feature detector
    if "hist" in case:
        out += _history(case, r)

    # (6) metamorphic: numbering / face rotation independence on bordered surfaces
    if "meta" in case and not closed:
        out += _metamorphic(case, r, feat_pairs)
    return out


def _snap(r, elem):
    """by-value snapshot of what a caller can read after run() + flag_singularities()"""
    import numpy as np
    cont = r.m.vertices if elem == "faces" else r.m.faces
    sg = cont.get_attribute("singuls") if cont.has_attribute("singuls") else {}
    er = r.m.edges.get_attribute("angles") if r.m.edges.has_attribute("angles") else None
    return {"var": np.array(r.var, dtype=complex).copy(), "sing": {int(k): float(sg[k]) for k in sg},
            "rot": [float(er[i]) for i in range(len(r.m.edges))] if er is not None else []}


def _cmp_snap(a, b, tol, near_tie_ok=True):
    """differences between two snapshots: list of (what, detail)"""
    import numpy as np
    out = []
    if a["var"].shape != b["var"].shape:
        return [("field-differs", f"shapes {a['var'].shape} vs {b['var'].shape}")]
    d = float(np.max(np.abs(a["var"] - b["var"]))) if a["var"].size else 0.0
    if not d <= tol:
        out.append(("field-differs", f"max |Δ var| = {d:.3e} (tolerance {tol:.0e})"))
        return out
    ka, kb = set(a["sing"]), set(b["sing"])
    if ka != kb:
        # a flag may legitimately flip when a holonomy sits on the threshold / a matching tie: only whole stale or missing
        # entries whose rotations agree are reported
        rot_same = len(a["rot"]) == len(b["rot"]) and all(abs(x - y) <= 1e-6 for x, y in zip(a["rot"], b["rot"]))
        if rot_same:
            out.append(("singularities-differ", f"flagged only in the used-object run: {sorted(ka - kb)[:5]}, only in the fresh run: {sorted(kb - ka)[:5]}"))
    else:
        bad = [k for k in ka if abs(a["sing"][k] - b["sing"][k]) > 1e-6]
        rot_same = len(a["rot"]) == len(b["rot"]) and all(abs(x - y) <= 1e-6 for x, y in zip(a["rot"], b["rot"]))
        if bad and rot_same:
            out.append(("singularities-differ", f"index at {bad[:5]}: {[a['sing'][k] for k in bad[:5]]} vs {[b['sing'][k] for k in bad[:5]]}"))
    return out


def _history(case, r):
    """The statement holds for every call: the n-th use of an object / of a mesh must give what the first use of a fresh one gives
    (compared BY VALUE), whatever representation of the same coordinates is handed in, and with an equivalent feature detector
    passed explicitly."""
    import numpy as np
    out = []
    h = case["hist"]
    kind, elem = h["kind"], case["elem"]
    V, F = case["V"], case["F"]
    alpha = 0.37 if case["n_smooth"] > 0 else None      # prescribed attach weight: the ARPACK estimate is a listed finding of its own
    ref = r if alpha is None and kind != "repr" else _run_once(case, V, F, alpha=alpha, build=None)
    if ref.err:
        return out
    sref = _snap(ref, elem)
    tol = 1e-8

    def report(what, detail, variant):
        out.append(_F(f"C18/history/{variant}/{elem}/{what}",
                      f"{variant}: the result on a used object / mesh / other input representation differs from the result of a fresh run ({what})", detail))
    if kind == "rerun":
        r2 = _run_once(case, V, F, alpha=alpha, twice=True)
        if r2.err: report("raises", str(r2.err), "rerun"); return out
        if float(np.max(np.abs(r2.var_second - r2.var))) > 0:
            report("field-differs", "a second run() on a field that is already computed changed it", "rerun")
        for what, det in _cmp_snap(_snap(r2, elem), sref, tol): report(what, det, "rerun")
    elif kind == "call":
        r2 = _run_once(case, V, F, alpha=alpha, via_call=True)
        if r2.err: report("raises", str(r2.err), "call-after-initialize"); return out
        if len(r2.captured) != len(ref.captured):
            report("field-differs", f"run() after initialize() performed {len(r2.captured)} normalisations instead of {len(ref.captured)}", "call-after-initialize")
        for what, det in _cmp_snap(_snap(r2, elem), sref, tol): report(what, det, "call-after-initialize")
    elif kind == "two-fields":
        first = dict(case, **h["first"]); first.pop("hist", None); first.pop("meta", None)
        m = _build(V, F, case.get("build"))
        det1 = None
        if h.get("custom_both"):
            from mouette.processing import FeatureEdgeDetector
            kw1 = {"corner_order": first["order"]} if first["elem"] == "vertices" else {}
            det1 = FeatureEdgeDetector(only_border=not first["features"], verbose=False, **kw1)(m)
        r1 = _run_once(first, V, F, mesh=m, detector=det1)
        if r1.err:
            return out                  # the first field's own failure is reported by the case that runs it alone
        v1 = np.array(r1.f.var, dtype=complex).copy()
        det = None
        if h.get("reuse_detector") and first["features"] == case["features"] and (elem == "faces" and first["elem"] == "faces" or first["order"] == case["order"] and first["elem"] == elem):
            det = r1.f.feat
        if det is None and h.get("custom_both"):
            from mouette.processing import FeatureEdgeDetector
            kw2 = {"corner_order": case["order"]} if elem == "vertices" else {}
            det = FeatureEdgeDetector(only_border=not case["features"], verbose=False, **kw2)(m)
        r2 = _run_once(case, V, F, alpha=alpha, mesh=m, detector=det)
        variant = "two-fields" + ("+detector" if det is not None else "")
        if r2.err: report("raises", str(r2.err), variant); return out
        for what, det_ in _cmp_snap(_snap(r2, elem), sref, tol): report(what, det_, variant)
        if float(np.max(np.abs(np.array(r1.f.var, dtype=complex) - v1))) > 0:
            report("first-field-changed", "computing a second field on the mesh changed the values of the first field object", variant)
    elif kind == "interleaved":
        o = h["other"]
        oc = {k_: v_ for k_, v_ in o.items()}

        def between():
            ro = _run_once(oc, oc["V"], oc["F"])          # a complete other field (construction, run, flags) on ANOTHER mesh
        r2 = _run_once(case, V, F, alpha=alpha, between=between)
        if r2.err: report("raises", str(r2.err), "interleaved"); return out
        for what, det_ in _cmp_snap(_snap(r2, elem), sref, tol): report(what, det_, "interleaved")
    elif kind == "custom-features":
        from mouette.processing import FeatureEdgeDetector
        m = _build(V, F, case.get("build"))
        kw = {"corner_order": case["order"]} if elem == "vertices" else {}
        det = FeatureEdgeDetector(only_border=not case["features"], verbose=False, **kw)(m)
        r2 = _run_once(case, V, F, alpha=alpha, mesh=m, detector=det)
        if r2.err: report("raises", str(r2.err), "custom-features"); return out
        for what, det_ in _cmp_snap(_snap(r2, elem), sref, tol): report(what, det_, "custom-features")
    elif kind == "moved":
        import mouette as M
        sc = h["scale"]
        V0 = [[v[0] / sc[0], v[1] / sc[1], v[2] / sc[2]] for v in V]
        m = _build(V0, F)
        pre = h["pre"]
        if pre == "laplacian": M.operators.laplacian(m)
        elif pre == "cotangent": M.attributes.cotangent(m)
        elif pre == "edge-diagonal": M.operators.cotan_edge_diagonal(m)
        elif pre == "face-field":
            r0 = _run_once(dict(case, elem="faces", n_smooth=0), V0, F, mesh=m)
            if r0.err: return out
        M.transform.scale_xyz(m, float(sc[0]), float(sc[1]), float(sc[2]))
        Vm = [[float(c) for c in m.vertices[i]] for i in range(len(V))]
        refm = _run_once(case, Vm, F, alpha=alpha, build=None)          # same coordinates, mesh without history
        if refm.err: return out
        r2 = _run_once(case, Vm, F, alpha=alpha, mesh=m)
        if r2.err: report("raises", str(r2.err), "moved-mesh/" + pre); return out
        for what, det_ in _cmp_snap(_snap(r2, elem), _snap(refm, elem), tol): report(what, det_, "moved-mesh/" + pre)
    elif kind == "repr":
        b = case.get("build")
        r2 = r if alpha is None else _run_once(case, V, F, alpha=alpha)
        if r2.err: return out
        tolr = 1e-3 if b == "f32" else 1e-8
        for what, det_ in _cmp_snap(_snap(r2, elem), sref, tolr):
            if b == "f32" and what != "field-differs": continue      # single precision may move a holonomy across a tie
            out.append(_F(f"C18/repr/{b}/{elem}/{what}", f"the same surface given with {b} coordinates yields a different result than with float64 coordinates ({what})", det_))
    return out


def _ref_neighbour(F, nv):
    nb = [None] * nv
    for fc in F:
        for i in range(3):
            a, b = fc[i], fc[(i + 1) % 3]
            for x, y in ((a, b), (b, a)):
                if nb[x] is None or y < nb[x]: nb[x] = y
    return nb


def _vertex_contribs(case, r):
    """the feature-edge contributions (unit representations) summed at every feature vertex"""
    m, f, order = r.m, r.f, case["order"]
    guarded = bool(f.smooth_normals and order % 2 != 1)
    cs = {}
    for e in f.feat.feature_edges:
        A, B = m.edges[e]
        if guarded:
            edge = m.vertices[B] - m.vertices[A]
            for u in (B, A):
                vx, vy = f.conn.project(edge, u); v = complex(vx, vy)
                cs.setdefault(int(u), []).append((v / abs(v)) ** order)
        else:
            cs.setdefault(int(A), []).append(cmath.rect(1, f.conn.transport(A, B)) ** order)
            cs.setdefault(int(B), []).append(cmath.rect(1, f.conn.transport(B, A)) ** order)
    return cs


def _vertex_constraint_sums(case, r):
    """unguarded sums (to recognise constraints that cancel altogether)"""
    return {u: sum(l) for u, l in _vertex_contribs(case, r).items()}


def _has_cancelling_pair(l):
    return abs(sum(l)) < 1e-6 or any(abs(l[i] + l[j]) < 1e-6 for i in range(len(l)) for j in range(i))


def _metamorphic(case, r, feat_pairs):
    """second run on a renumbered + face-rotated + face-reordered copy; the representation of every element is
    measured against one of the mesh's own edges (chosen from the geometry), in the library's own angle measure"""
    out = []
    elem, order = case["elem"], case["order"]
    V, F = case["V"], case["F"]
    vperm, fperm, F2 = case["meta"]["vperm"], case["meta"]["fperm"], case["meta"]["F2"]
    V2 = [None] * len(V)
    for o, n in enumerate(vperm): V2[n] = V[o]
    r2 = _run_once(case, V2, F2, want_sing=False)
    if r2.err:
        return [_F(f"C18/meta/{elem}/raises/{r2.err[1]}", "the renumbered copy raises", str(r2.err))]
    sides, und, border, bverts, chi = _topology(V, F)
    mask = _fixed_mask(case, r)
    rel = []          # (element, z1, z2, init1, init2)
    if elem == "faces":
        for T, fc in enumerate(F):
            k = fc.index(min(fc)); p, q = fc[k], fc[(k + 1) % 3]      # reference edge of the face
            E = _np(V[q]) - _np(V[p])
            X1, Y1 = (_np(t) for t in r.f.conn.base(T))
            T2 = fperm[T]
            X2, Y2 = (_np(t) for t in r2.f.conn.base(T2))
            g1 = cmath.rect(1, -order * math.atan2(Y1 @ E, X1 @ E)); g2 = cmath.rect(1, -order * math.atan2(Y2 @ E, X2 @ E))
            rel.append((T, complex(r.var[T]) * g1, complex(r2.var[T2]) * g2, complex(r.var_init[T]) * g1, complex(r2.var_init[T2]) * g2))
    else:
        nb = _ref_neighbour(F, len(V))
        for u in range(len(V)):
            w = nb[u]
            g1 = cmath.rect(1, -order * r.f.conn.transport(u, w)); g2 = cmath.rect(1, -order * r2.f.conn.transport(vperm[u], vperm[w]))
            rel.append((u, complex(r.var[u]) * g1, complex(r2.var[vperm[u]]) * g2, complex(r.var_init[u]) * g1, complex(r2.var_init[vperm[u]]) * g2))
    r.meta_worst = max(abs(z1 - z2) for _, z1, z2, _, _ in rel)
    keys = {}
    for el, z1, z2, i1, i2 in rel:
        if mask[el] and abs(i1 - i2) > 1e-6:
            if elem == "faces":
                fc = F[el]
                nfe = sum(1 for i in range(3) if (min(fc[i], fc[(i + 1) % 3]), max(fc[i], fc[(i + 1) % 3])) in feat_pairs)
                reason = "multi-feature-face" if nfe >= 2 else "single-feature-face"
            else:
                if _has_cancelling_pair(_vertex_contribs(case, r).get(el, [1])): reason = "cancelling-constraints"
                elif el in bverts: reason = "border-vertex"
                else: reason = "crease-vertex"
            keys.setdefault(f"C18/meta/{elem}/constraint-differs/{reason}", (el, abs(i1 - i2)))
    for k, (el, dv) in sorted(keys.items()):
        out.append(_F(k, "the constraint of an element, measured against a mesh edge, changes under vertex renumbering / face rotation",
                      f"element {el}: |Δ constraint| = {dv:.3e} (order {order}); field changes by up to {r.meta_worst:.3e}"))
    if not keys and r.meta_worst > 1e-6:
        el = max(rel, key=lambda t: abs(t[1] - t[2]))[0]
        sm = "nosmooth"
        extra = ""
        if case["n_smooth"] > 0:
            # is the estimated attach weight (eigsh, tol=1e-3, ARPACK start vector) the only numbering-dependent ingredient?
            sm = "smooth/other"
            ra = _run_once(case, V, F, want_sing=False, alpha=0.37)
            rb = _run_once(case, V2, F2, want_sing=False, alpha=0.37)
            if not ra.err and not rb.err:
                if elem == "faces":
                    w2 = max(abs(complex(ra.var[T]) * (z1 / complex(r.var[T])) - complex(rb.var[fperm[T]]) * (z2 / complex(r2.var[fperm[T]])))
                             for T, z1, z2, _, _ in rel)
                else:
                    w2 = max(abs(complex(ra.var[u]) * (z1 / complex(r.var[u])) - complex(rb.var[vperm[u]]) * (z2 / complex(r2.var[vperm[u]])))
                             for u, z1, z2, _, _ in rel)
                if w2 <= 1e-6:
                    sm = "smooth/attach-weight-estimate"
                    extra = f"; with a prescribed smooth_attach_weight the two runs agree to {w2:.1e}"
        out.append(_F(f"C18/meta/{elem}/solution-differs/{sm}", "directions measured against mesh edges change under vertex renumbering / face rotation although the constraints agree",
                      f"element {el}: |Δ representation| = {r.meta_worst:.3e} (order {order}){extra}"))
    return out


# ------------------------------------------------------------------------------------------------
def nontrivial(case, obs):
    r = _run(case)
    if r.err: return False
    mask = _fixed_mask(case, r)
    solved = len(r.captured) >= 1
    return bool(solved and (not any(mask) or not all(mask)))


def classify(case, obs):
    r = _run(case)
    ks = [f"fam:{case['fam']}", f"elem:{case['elem']}", f"order:{case['order']}", f"features:{int(case['features'])}",
          f"n_smooth:{case['n_smooth']}", f"cotan:{int(case['cotan'])}", f"faces<={(len(case['F']) // 20 + 1) * 20}"]
    if "hist" in case: ks.append("history:" + case["hist"]["kind"])
    if case.get("build"): ks.append("coordinates:" + case["build"])
    if r.err:
        return ks + [f"err:{r.err[1]}"]
    mask = _fixed_mask(case, r)
    ks.append("solve:eigen" if not any(mask) else ("solve:none(all-fixed)" if all(mask) else "solve:linear"))
    sides, und, border, bverts, chi = _topology(case["V"], case["F"])
    ks.append(f"chi:{chi}"); ks.append("closed" if not border else "bordered")
    if "meta" in case and border: ks.append("metamorphic-run")
    if getattr(r, "harm_checked", False): ks.append("harmonic-extension-checked")
    if getattr(r, "flat_checked", False): ks.append("flat-connection-checked")
    if getattr(r, "n_against", 0): ks.append("constraint:edge-against-basis-direction")
    if case["elem"] == "faces" and getattr(r, "n_sing", 0): ks.append("interior-singularities-flagged")
    if case["elem"] == "vertices" and getattr(r, "n_sing_v", 0): ks.append("face-singularities-flagged(vertex field)")
    if case["features"] and len(r.f.feat.feature_edges) > len(border): ks.append("crease-feature-edges")
    return ks


def describe(case):
    return {k: (v if k not in ("V", "F", "meta") else f"<{len(v)}>") for k, v in case.items()}



def shrink(case, still):
    """configuration shrinking only (the surface is kept): drop the metamorphic copy, smoothing, features"""
    cur = dict(case)
    for k, v in (("n_smooth", 0), ("features", False), ("cotan", True)):
        if cur.get(k) != v:
            t = dict(cur); t[k] = v
            if still(t): cur = t
    if "meta" in cur:
        t = {k: v for k, v in cur.items() if k != "meta"}
        if still(t): cur = t
    if "hist" in cur:
        t = {k: v for k, v in cur.items() if k not in ("hist", "build")}
        if still(t): cur = t
    return cur


def translate():
    return TR.run() + TRV.run() + TRH.run() + TRS.run()


MANIFEST = {
    "level_text": ("Proof, PARTIAL. Lean 4 theorems (all inputs, all sizes) about an executable Gaussian-rational model of the frame field "
                   "scaffolding: per-element normalisation yields squared modulus 1 (sqrt as a hypothesis-bearing parameter); the solve step "
                   "writes only freeInds so constrained entries keep their constraint, also through the final normalisation; the vertex "
                   "holonomy sums telescope to the sum of angle defects for ANY edge rotations on any edge list (so the index sum is "
                   "scale*chi given Gauss-Bonnet); rotations produced by branch matching make order*index an integer (each flagged index is "
                   "a whole multiple of 4/order) given the exactly-checked closed-fan hypothesis and the numerically-checked geometric "
                   "closure; the assembled connection Laplacian is Hermitian (faces: for any transports; vertices: for inverse unit "
                   "transports) and equals the scalar Laplacian for trivial transports; the constants read from faces2d.py (`**4`, `*2/pi`) "
                   "give a tangent branch and the 4/order quantum for EVERY order on faces with one feature edge. ONLY CHECKED PER RUN "
                   "(oracle on the real code + exact residual computed by the model on the solver's output): that spsolve / inverse "
                   "power iteration return the harmonic extension, unit modulus of the actual solver output, index sum = 4*chi on the "
                   "actual meshes, numbering / face-rotation independence (metamorphic run). Round 2 adds the VERTEX-based field: unit constraints "
                   "at feature vertices after the guarded accumulation + normalisation, constrained vertices untouched by the solve and the final "
                   "normalisation, order x (holonomy of the matched rotations around a face + curvature term) is an integer for every order and "
                   "every mesh (no geometric hypothesis), the face angles telescope to the total curvature (+ border term) by induction over the "
                   "edge and face lists; and bridge theorems from the source-shaped fragments of vertex2d.py / connection.py / laplacian_op.py / "
                   "attr_faces.py / maths.py (rescaling 2*pi/sum-of-angles maps the ring to one turn, feature rings close on corners/order, the two "
                   "Laplacian phases sum to -order turns, i.e. the transports are inverse unit numbers) to the models. "
                   "Round 4: the BODIES of base.normalize / run / _check_init, faces2d initialize / _initialize_variables / optimize / flag_singularities and "
                   "vertex2d initialize / optimize are translated statement by statement on every run (Generated/C18Src.lean) and proved equal to the models "
                   "(bridge_* in Props/C18Source.lean); on the translated optimize: constrained unit entries survive the first solve, every smoothing pass and the "
                   "final normalisation; the result is normalize(y) (unit wherever |y_i| > 1e-10); with n_smooth = 0 and an EXACT linear solve (hypothesis "
                   "SolvedExactly: A x = b for the system the code builds) y is the harmonic extension (L_II y_I = -L_IB y_B, row by row) of the constraints; the "
                   "harmonic equation is covariant under renumbering and, given uniqueness, the renumbered solve returns the renumbered field; over the reals "
                   "(Props/C18Real.lean) the scaled holonomy sums add up to 4*chi on every oriented triangulated manifold from C07's Gauss-Bonnet. "
                   "Round 5: the vertex-based _initialize_variables (both branches, cancellation guards, feature normalisation) and flag_singularities (dict of "
                   "directed rotations, edge attribute, face loop) are translated as whole bodies and bridged to FFV.initVertsFull / edgeRotV / rotD (the dict read "
                   "equals rotD on a well-formed edge list); the adjacency-form holonomy sum of the face-based flag_singularities is proved equal to the edge-list "
                   "vertexAngle given the vertex_to_edges contract (a permutation of the incident edges), so the telescoping / 4*chi theorems apply to the sums the source stores. "
                   "Round 6: operators.laplacian (every (row, col, coeff) triplet in fill order) and laplacian_triangles (rows of Nabla, returned product) are translated "
                   "as whole bodies and proved equal, coefficient by coefficient, to the round-1 assembly (entryVert / entryFace), hence Hermitian at source level (vertices: "
                   "given only U(-x) = conj U(x) and period 1 of U = exp(2 pi i x)); SurfaceConnectionFaces._initialize (the triple handed to face_basis starts on a feature "
                   "side whenever the face has one; the transport dict is antisymmetric on a well-formed dual edge list), SurfaceConnectionVertices._initialize (ring loops: "
                   "first neighbour at the entering running sum, second at the rescaled first corner angle) and the index structure of export_as_mesh (every edge joins two of "
                   "the (order+1) n exported vertices) are translated and bridged too. "
                   "Round 7: the connectivity hypothesis of the index-total theorem is DISCHARGED from C01's model of vertex_to_edges / other_edge_end / edge_id on every built mesh "
                   "(Props/C18Mesh.lean: the loop sees a permutation of the incident (other end, rotation) pairs; no hypothesis on the mesh left); the ring loops of the vertex connection "
                   "are given in closed form (prefix sums) and close on dfct = corners*2pi/order at feature vertices and on one turn elsewhere; _initialize_attributes of both fields is "
                   "translated (default detector only_border = not features, connection built on the field's own feature set, cotan refreshed on the mesh by the vertex field only, defect "
                   "loop = sum of corner angles per vertex); FlatConnectionFaces.transport is translated and the connection rows of Nabla are proved equal to the scalar rows for it. "
                   "Round 8: operators.cotan_edge_diagonal (the row weights of the face operator: opposite-vertex index, border side 0, 1e-8 guard with the 1e8 cap) is translated "
                   "(positive and bounded on non-degenerate edges); FlatConnectionVertices.transport is translated and the triplets of the vertex operator are proved EQUAL to the scalar "
                   "triplets for it (U of a whole number of turns is 1); the option names read by the two constructors are extracted and shown to cover what the harness passes."),
    "level_note": ("Trusted: Lean kernel + propext/Classical.choice/Quot.sound; the ast translator for 4 constant sites; the hand-written "
                   "model, tied to the code by feeding it the implementation's own per-edge transports / weights / phases / solver output "
                   "and comparing assembled matrix, partition, constraints, normalised field, edge rotations and vertex sums at 1e-9; "
                   "floating point and the sparse solvers are not modelled (T6, T7). Partial: solver convergence is not proved."),
    "technique": "Lean 4 algebraic theorems (ring/field_simp/induction over edge lists) over a Gaussian-rational model + translated constants + differential correspondence + metamorphic oracle",
}
