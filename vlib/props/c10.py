"""C10 — spanning trees and forests span, are acyclic, and respect exclusions.

Tree kinds: t = edge | face | cell (breadth-first trees), mst (Kruskal + orientation), eforest | fforest | cforest.
Exclusions are generated as vertex pairs / triples (independent of mouette's ids) and converted to edge / face ids
through the implementation when the tree is built. `random.randint` (default roots) is patched.
"""
import json
from fractions import Fraction

from vlib.gen import graphs as H

PID = "C10"
TITLE = "Spanning trees and forests span, are acyclic, and respect exclusions"
LEAN_MODULES = ["Mouette.Props.C10", "Mouette.Props.C10Kruskal", "Mouette.Props.C10KruskalMin", "Mouette.Props.C10Orient",
                "Mouette.Props.C10Bridge", "Mouette.Props.C10Source", "Mouette.Props.C10Forest", "Mouette.Props.C10AnyOrder"]
REQUIRED_THEOREMS = ["bfs_terminates", "parent_children_consistent", "tree_edges_are_adjacencies", "edge_count",
                     "reached_eq_component", "bfs_min_hops", "traverse_once_parent_first", "forest_one_tree_per_component",
                     "kruskal_spanning_forest", "kruskal_sort_sorted", "kruskal_minimum", "orient_spec", "kruskal_forest",
                     "mst_orientation", "bridge_bstep_edge", "bridge_bstep_face", "bridge_bstep_cell", "bridge_avoid_edge",
                     "recompute_eq_fresh_edge", "recompute_eq_fresh_mst", "recompute_eq_fresh_face", "recompute_eq_fresh_cell",
                     "forest_recompute_eq_fresh", "source_bstep_preserves_invariant",
                     # round 4: trees/*.py translated imperatively (Generated/C10Tree.lean) + new theorems
                     "bridge_put_edge", "bridge_put_face", "bridge_put_cell", "bridge_binit_edge", "bridge_binit_face",
                     "bridge_binit_cell", "bridge_finish_edge", "bridge_finish_face", "bridge_finish_cell", "bridge_compute_edge",
                     "bridge_compute_face", "bridge_compute_cell", "bridge_traverse", "bridge_kruskalLoop", "bridge_sortEdges",
                     "bridge_kruskal_neighbours", "bridge_admissible", "mst_weight_table", "bridge_orientInit", "bridge_orient",
                     "bridge_mst", "bridge_forestStep_edge", "bridge_forestStep_face", "bridge_forestStep_cell", "bridge_forest_edge",
                     "bridge_forest_face", "bridge_forest_cell", "bridge_forest_accessors", "bridge_call", "source_edge_tree_spec",
                     "forest_traverse_once", "source_face_tree_spec", "source_cell_tree_spec", "source_forest_spec", "source_mst_spec",
                     # round 5: constructors, computed flag, exported polylines, Kruskal on the UnionFind class as translated (C20)
                     "bridge_computed_flag", "bridge_constructors", "polyline_edge_has_tree_edges", "polyline_face_has_tree_edges",
                     "kruskalStepUF_bridge", "bridge_kruskal_uf", "bridge_ufCtor", "kruskal_uf_eq",
                     # round 6: Euler-free forest facts packaged for C16 (Props/C10Forest.lean)
                     "bfs_parent_forest",
                     # round 7: the orientation clause for EVERY iteration order of the neighbour sets
                     "orient_any_order", "bridge_orientG", "bridge_orientInitG", "mst_orientation_any_order", "kruskal_neighbour_sets"]

_T, _B = "mouette/processing/trees/", "mouette/utils/unionfind.py::UnionFind."
_VIS = "out-of-scope: debug / visualisation export, not part of the statement"
_UFM = "translated"        # Generated/C20UF.lean (property C20's translation) used by Generated kruskalStepUF / ufCtor, bridged by bridge_kruskal_uf
_UFO = "out-of-scope: not used by the trees (property C20)"
SOURCE_MAP = {
    _T + "base.py::SpanningTree.__init__": "translated",
    _T + "base.py::SpanningTree.__call__": "translated",
    _T + "base.py::SpanningTree.compute": "translated",
    _T + "base.py::SpanningTree.traverse": "translated",
    _T + "base.py::SpanningTree.traverse.pop": "translated",
    _T + "base.py::SpanningTree.build_tree_as_polyline": "out-of-scope: abstract (pass)",
    _T + "base.py::SpanningForest.__init__": "translated",
    _T + "base.py::SpanningForest.__call__": "translated",
    _T + "base.py::SpanningForest.n_trees": "translated",
    _T + "base.py::SpanningForest.__getitem__": "translated",
    _T + "base.py::SpanningForest.edges": "translated",
    _T + "base.py::SpanningForest.compute": "out-of-scope: abstract (pass)",
    _T + "base.py::SpanningForest.traverse": "translated",
    _T + "base.py::SpanningForest.build_tree_as_polyline": "out-of-scope: debug export, merge of the polylines of the trees (shape recognised by the translator, not observed)",
    _T + "edge_sp.py::EdgeSpanningTree.__init__": "translated",
    _T + "edge_sp.py::EdgeSpanningTree._avoid_edge": "translated",
    _T + "edge_sp.py::EdgeSpanningTree.compute": "translated",
    _T + "edge_sp.py::EdgeSpanningTree.compute.put_neighbours_in_queue": "translated",
    _T + "edge_sp.py::EdgeSpanningTree.build_tree_as_polyline": "translated",
    _T + "edge_sp.py::EdgeMinimalSpanningTree.__init__": "translated",
    _T + "edge_sp.py::EdgeMinimalSpanningTree.compute": "translated",
    _T + "edge_sp.py::EdgeSpanningForest.__init__": "translated",
    _T + "edge_sp.py::EdgeSpanningForest.compute": "translated",
    _T + "face_sp.py::FaceSpanningTree.__init__": "translated",
    _T + "face_sp.py::FaceSpanningTree.compute": "translated",
    _T + "face_sp.py::FaceSpanningTree.compute.put_neighbours_in_queue": "translated",
    _T + "face_sp.py::FaceSpanningTree.build_tree_as_polyline": "translated",
    _T + "face_sp.py::FaceSpanningForest.__init__": "translated",
    _T + "face_sp.py::FaceSpanningForest.compute": "translated",
    _T + "cell_sp.py::CellSpanningTree.__init__": "translated",
    _T + "cell_sp.py::CellSpanningTree.compute": "translated",
    _T + "cell_sp.py::CellSpanningTree.compute.put_neighbours_in_queue": "translated",
    _T + "cell_sp.py::CellSpanningTree.build_tree_as_polyline": "translated",
    _T + "cell_sp.py::CellSpanningForest.__init__": "translated",
    _T + "cell_sp.py::CellSpanningForest.compute": "translated",
    _B + "__init__": _UFM, _B + "add": _UFM, _B + "find": _UFM, _B + "connected": _UFM, _B + "union": _UFM, _B + "__contains__": _UFM,
    _B + "__repr__": _UFO, _B + "__len__": _UFO, _B + "__getitem__": _UFO, _B + "__setitem__": _UFO, _B + "component": _UFO,
    _B + "roots": _UFO, _B + "components": _UFO, _B + "component_mapping": _UFO,
}
TRUSTED = [
    "Lean 4.33.0 kernel; axioms ⊆ {propext, Classical.choice, Quot.sound}",
    "model Mouette/Model/Trees.lean: put_neighbours_in_queue (3 shapes), initialisation, BFS loop body, final children/edges loop, "
    "traverse (+pop), Kruskal loop, neighbour sets, orientation, forest loops and accessors are re-translated from the working tree on "
    "every run (Generated/C10Loop.lean, C10Tree.lean) and proved equal to the model (Props/C10Bridge, C10Source); hand-modelled and tied "
    "by the exact comparison of tables / edge lists / traversal sequences on the cases of this run only: constructors (defaults, random "
    "root drawn by random.randint — patched), (the iteration order of the MST neighbour sets is NOT trusted any more: mst_orientation_any_order holds for every enumeration; children are compared sorted); round 5: "
    "constructors, the _computed flag, build_tree_as_polyline x3 are translated, and the Kruskal loop is also run on the UnionFind class as "
    "translated from unionfind.py by property C20 (bridge_kruskal_uf); the barycentre coordinates of the exported polylines are not modelled, "
    "the connectivity queries themselves (C01/C03)",
    "the adjacency handed to the model is read from the implementation's connectivity in the code's iteration order "
    "(connectivity itself is C01/C03); the oracle re-derives adjacency, border and components from the raw faces/cells",
    "random.randint patched for default roots",
]
ASSUMPTIONS = ["agreement model/implementation only on the cases of this run",
               "Kruskal: spanning forest, minimality (kruskal_minimum, exchange bound of the graphic matroid by component counting) and "
               "the orientation of the root's component (mst_orientation) are theorems on top of the C20 union-find refinement lemmas",
               "forest theorem assumes an undirected admissible adjacency (checked by the driver on every input: field H)"]
RULE = ("random polylines / manifold surfaces / tet meshes (incl. disconnected), every tree class, explicit (int or numpy integer) and "
        "default (patched random) roots, random exclusion sets (edge pairs / face triples, 0-40% of the connectors) handed over as set / "
        "frozenset / list / tuple / ndarray, avoid_boundary on/off, MST weights one/length/dict/attr with float / int / numpy-int / "
        "fractional / negative values and ties, forests; histories: compute() or obj() called again on the computed tree/forest (20%), "
        "other trees built on the same mesh object before (15%), every tree traversed twice; for the MST with weights='length' in 35% of "
        "the cases 40% of the cases an edge attribute named 'length' is on the mesh before the tree is built (stored by an earlier edge_length() query "
        "and stale after 1-3 vertex moves, or holding arbitrary values) — minimality is judged on the geometric lengths at the time of "
        "compute; 8% of all cases carry arbitrary attributes under the library's conventional names (length, barycenter, area, normals, "
        "volume); non-trivial = distinct case whose tree "
        "reaches at least 2 elements")

_CACHE = {}


def _disjoint_union(m1, m2):
    """two meshes of the same kind side by side (the second one shifted far away)"""
    off = len(m1["V"])
    m = {"kind": m1["kind"], "V": [list(v) for v in m1["V"]] + [[v[0] + 50.0, v[1], v[2]] for v in m2["V"]],
         "tag": f"{m1.get('tag')}|{m2.get('tag')}+union"}
    for k in ("F", "C", "E"):
        if k in m1: m[k] = [list(el) for el in m1[k]] + [[x + off for x in el] for el in m2[k]]
    return m


def cases(rng, tier):
    n = 3500 if tier == "quick" else 10000
    for i in range(n):
        mesh = H.gen_mesh(rng, tier)
        kind = mesh["kind"]
        opts = ["edge", "edge", "mst", "eforest"]
        if kind == "surface": opts += ["face", "face", "fforest"]
        if kind == "volume": opts += ["cell", "cell", "cforest"]
        t = rng.choice(opts)
        if t.endswith("forest") and rng.random() < 0.5:
            # forests need several trees to say anything: a second (and sometimes third) component of the same kind
            for _ in range(rng.choice([1, 1, 2])):
                m2 = H.gen_mesh(rng, "quick", kinds=(kind,), weights=(1,))
                mesh = _disjoint_union(mesh, m2)
        nel = len(mesh["V"]) if t in ("edge", "mst", "eforest") else len(mesh["F"]) if t in ("face", "fforest") else len(mesh["C"])
        case = {"mesh": mesh, "t": t, "root": rng.randrange(nel) if rng.random() < 0.8 else None, "rand": rng.randrange(10**6),
                "avoid_boundary": False, "excl": [], "w": "length", "wseed": rng.randrange(1000)}
        frac = rng.choice([0, 0, 0.1, 0.25, 0.4])
        if t == "edge":
            case["avoid_boundary"] = rng.random() < 0.3
            E = H.edges_of(mesh)
            case["excl"] = [list(e) for e in E if rng.random() < frac]
            case["excl_given"] = bool(case["excl"]) or rng.random() < 0.5
        elif t in ("face", "fforest"):
            case["excl"] = [list(ab) for (_, _, ab) in H.face_adjacency(mesh) if rng.random() < frac]
            case["excl_given"] = bool(case["excl"]) or rng.random() < 0.5
        elif t == "cell":
            case["excl"] = [list(f) for (_, _, f) in H.cell_adjacency(mesh) if rng.random() < frac]
            case["excl_given"] = bool(case["excl"]) or rng.random() < 0.5
        elif t == "mst":
            case["avoid_boundary"] = rng.random() < 0.3
            case["w"] = rng.choice(["one", "length", "length", "dict", "attr"])
            if case["w"] == "length" and rng.random() < 0.4:
                # history on the MESH: an edge attribute with the library's conventional name 'length' is on the mesh before the tree
                # is built — stored by an earlier edge_length() query ("query", then stale once vertices are moved) or holding arbitrary
                # values ("arbitrary": written by the user, loaded from a file); the tree must be minimal for the geometric lengths
                nvv = len(mesh["V"])
                store = rng.choice(["query", "query", "arbitrary", "arbitrary", "none"])
                nmv = rng.choice([1, 2, 3]) if store != "arbitrary" else rng.choice([0, 0, 1])
                case["geo"] = {"store": store,
                               "moves": [[rng.randrange(nvv), [rng.randrange(-80, 81) / 8 for _ in range(3)]] for _ in range(nmv)]}
        if t.endswith("forest"): case["root"] = None
        case["read"] = rng.choice(["trees-first", "forest-first"])     # order in which the accessors are read (each twice)
        # input representation
        if case["root"] is not None and rng.random() < 0.15: case["rrep"] = "npint"
        if case.get("excl_given") and t in ("edge", "face", "cell", "fforest"):
            case["xrep"] = rng.choice(["set", "set", "frozenset", "list", "tuple", "ndarray"])
        if t == "mst" and case["w"] in ("dict", "attr"):
            case["wkind"] = rng.choice(["float", "int", "frac", "neg"] + (["npint"] if case["w"] == "dict" else []))
        # histories on one object: compute() again / tree() again; other trees built on the same mesh before
        if rng.random() < 0.2: case["hist"] = [rng.choice(["compute", "call"]) for _ in range(rng.choice([1, 1, 2]))]
        if rng.random() < 0.15: case["pre"] = rng.randint(1, 3)
        # the mesh already carries attributes under the library's conventional names, with arbitrary values
        if rng.random() < 0.08: case["conv"] = rng.randrange(1000)
        yield case
        if tier != "quick" and i < 400 and nel <= 12 and not t.endswith("forest"):
            for r in range(nel):            # small scope: every root
                yield dict(case, root=r)


# ------------------------------------------------------------------------------------------------
# running the real implementation
# ------------------------------------------------------------------------------------------------
def _eff_V(case):
    """vertex coordinates at the time the tree is computed (after the moves of the `geo` history)"""
    V = [list(v) for v in case["mesh"]["V"]]
    for i, pos in (case.get("geo") or {}).get("moves", []): V[i] = [float(c) for c in pos]
    return V


def _nel(case):
    m, t = case["mesh"], case["t"]
    return len(m["V"]) if t in ("edge", "mst", "eforest") else len(m["F"]) if t in ("face", "fforest") else len(m["C"])


def _fmt_opt(p): return "N" if p is None else str(int(p))


def _canon_tree(tree, n, sort_children=False):
    P = ",".join(_fmt_opt(p) for p in tree.parent)
    ch = [sorted(int(c) for c in cs) if sort_children else [int(c) for c in cs] for cs in tree.children]
    C = ",".join(" ".join(map(str, cs)) for cs in ch)
    E = ",".join(f"{int(a)}-{int(b)}" for a, b in tree.edges)
    return P, C, E


def _trav(it):
    return ",".join(f"{int(x)}/{_fmt_opt(p)}" for x, p in it)


def _excl_arg(case, ids):
    import numpy as np
    if not case.get("excl_given"): return None
    rep = case.get("xrep", "set")
    ids = sorted(ids)
    if rep == "frozenset": return frozenset(ids)
    if rep == "list": return list(ids)
    if rep == "tuple": return tuple(ids)
    if rep == "ndarray": return np.array(ids, dtype=np.int64)
    return set(ids)


def _mst_weight(a, b, case):
    k = case.get("wkind", "float")
    if k == "frac": return Fraction(H.hash_weight(a, b, case["wseed"], 9), 4)
    if k == "neg": return Fraction(H.hash_weight(a, b, case["wseed"], 4) - 2)
    return Fraction(H.hash_weight(a, b, case["wseed"], 4))


def _arbitrary_attr(container, name, dim, seed):
    """attribute `name` with arbitrary (hash-derived, positive and negative) float values on every element of the container"""
    if len(container) == 0 or container.has_attribute(name): return
    a = container.create_attribute(name, float, dim, dense=(seed % 2 == 0)) if dim > 1 else container.create_attribute(name, float, dense=(seed % 2 == 0))
    for i in range(len(container)):
        h = (i * 2654435761 + seed * 40503) % 1009
        a[i] = [((h * (k + 3)) % 97) / 8 - 5 for k in range(dim)] if dim > 1 else (h % 97) / 8 - 2


def _conventional_attrs(m, case):
    """the mesh already carries attributes under the names the library itself uses (edge 'length', face / cell 'barycenter',
    'area', 'normals', 'volume'), holding arbitrary values; no clause of the property depends on them"""
    seed = case["conv"]
    if not (case.get("geo") and case["geo"]["store"] == "query"): _arbitrary_attr(m.edges, "length", 1, seed)
    if hasattr(m, "faces"):
        _arbitrary_attr(m.faces, "barycenter", 3, seed + 1); _arbitrary_attr(m.faces, "area", 1, seed + 2); _arbitrary_attr(m.faces, "normals", 3, seed + 3)
    if hasattr(m, "cells"):
        _arbitrary_attr(m.cells, "barycenter", 3, seed + 4); _arbitrary_attr(m.cells, "volume", 1, seed + 5)


def _history(case, obj):
    """compute() / obj() again on the already computed object"""
    for op in case.get("hist", []):
        if op == "compute": obj.compute()
        else: obj()


def _pre_trees(case, m, T):
    """other trees built on the same mesh object before the observed one (connectivity caches are then warm)"""
    kind = case["mesh"]["kind"]
    for i in range(case.get("pre", 0)):
        try:
            if i % 3 == 0: T.EdgeSpanningTree(m, 0, avoid_boundary=(i % 2 == 1))()
            elif i % 3 == 1 and kind == "surface": T.FaceSpanningTree(m, 0)()
            elif i % 3 == 1 and kind == "volume": T.CellSpanningTree(m, 0)()
            else: T.EdgeMinimalSpanningTree(m, 0, weights="one")()
        except Exception:  # noqa
            pass


def _run(case):
    key = json.dumps(case, sort_keys=True)
    if _CACHE.get("k") == key:
        return _CACHE["v"]
    import mouette as M
    from mouette.processing import trees as T
    from mouette.processing.trees import edge_sp, face_sp, cell_sp
    m = H.build(case["mesh"])
    t = case["t"]
    n = _nel(case)
    conn = m.connectivity
    out = {"n": n}
    saved = (edge_sp.randint, face_sp.randint, cell_sp.randint)
    rnd = lambda a, b: a + case["rand"] % (b - a + 1)
    edge_sp.randint = face_sp.randint = cell_sp.randint = rnd
    try:
        import numpy as np
        _pre_trees(case, m, T)
        if case.get("conv") is not None: _conventional_attrs(m, case)
        root = case["root"] if case["root"] is not None else case["rand"] % n
        out["root"] = root
        root_arg = np.int64(case["root"]) if (case.get("rrep") == "npint" and case["root"] is not None) else case["root"]
        if t in ("edge", "eforest", "mst"):
            adj = [[(int(nv), int(conn.edge_id(v, nv))) for nv in conn.vertex_to_vertices(v)] for v in range(n)]
            excl_ids = set()
            if t == "edge":
                excl_ids = {int(conn.edge_id(a, b)) for a, b in case["excl"]}
            border_ids = set()
            if case["avoid_boundary"] and case["mesh"]["kind"] != "polyline":
                border_ids = {e for e, (a, b) in enumerate(m.edges) if m.is_edge_on_border(a, b)}
            out["adj"], out["excl_ids"] = adj, sorted(excl_ids | border_ids)
            if t == "edge":
                tree = T.EdgeSpanningTree(m, root_arg, avoid_boundary=case["avoid_boundary"],
                                          avoid_edges=_excl_arg(case, excl_ids))()
            elif t == "mst":
                if case.get("geo"):
                    if case["geo"]["store"] == "query": M.attributes.edge_length(m)          # default: persistent, attribute 'length'
                    elif case["geo"]["store"] == "arbitrary": _arbitrary_attr(m.edges, "length", 1, case["wseed"])
                    for i, pos in case["geo"]["moves"]: m.vertices[i] = M.Vec(*[float(c) for c in pos])
                edges = [(int(a), int(b)) for a, b in m.edges]
                if case["w"] == "one": weights = "one"; wl = [Fraction(1)] * len(edges)
                elif case["w"] == "length":
                    weights = "length"
                    el = M.attributes.edge_length(m, persistent=False)
                    wl = [Fraction(float(el[e])) for e in range(len(edges))]
                else:
                    wl = [_mst_weight(a, b, case) for a, b in edges]
                    kind = case.get("wkind", "float")
                    conv = {"float": float, "frac": float, "neg": float, "int": int, "npint": lambda x: np.int64(int(x))}[kind]
                    if case["w"] == "dict": weights = {e: conv(w) for e, w in enumerate(wl)}
                    else:
                        weights = m.edges.create_attribute("w_c10", int if kind == "int" else float, dense=(case["wseed"] % 2 == 0))
                        for e, w in enumerate(wl): weights[e] = conv(w)
                out["wedges"] = [(a, b, H.frac_str(w), 1 if e in border_ids else 0) for e, ((a, b), w) in enumerate(zip(edges, wl))]
                tree = T.EdgeMinimalSpanningTree(m, root_arg, avoid_boundary=case["avoid_boundary"], weights=weights)()
            else:
                forest = T.EdgeSpanningForest(m)()
        elif t in ("face", "fforest"):
            adj = []
            for f in range(n):
                l = []
                for e in conn.face_to_edges(f):
                    a, b = m.edges[e]
                    nf = conn.opposite_face(a, b, f)
                    if nf is not None: l.append((int(nf), int(e)))
                adj.append(l)
            excl_ids = {int(conn.edge_id(a, b)) for a, b in case["excl"]}
            out["adj"], out["excl_ids"] = adj, sorted(excl_ids)
            arg = _excl_arg(case, excl_ids)
            if t == "face": tree = T.FaceSpanningTree(m, root_arg, arg)()
            else: forest = T.FaceSpanningForest(m, arg)()
        else:
            adj = []
            for c in range(n):
                l = []
                for F in conn.cell_to_face(c):
                    c2 = conn.other_face_side(c, F)
                    if c2 is not None: l.append((int(c2), int(F)))
                adj.append(l)
            excl_ids = {int(conn.face_id(*f)) for f in case["excl"]} if t == "cell" else set()
            out["adj"], out["excl_ids"] = adj, sorted(excl_ids)
            if t == "cell": tree = T.CellSpanningTree(m, root_arg, _excl_arg(case, excl_ids))()
            else: forest = T.CellSpanningForest(m)()
        _history(case, forest if t.endswith("forest") else tree)
        if t.endswith("forest"):
            def read_trees():
                res = []
                for tr in forest.trees:
                    P, C, E = _canon_tree(tr, n)
                    res.append({"root": int(tr.root), "P": P, "C": C, "E": E, "T": _trav(tr.traverse("BFS")), "S": _trav(tr.traverse("DFS"))})
                return res

            def read_forest():
                return {"roots": [int(r) for r in forest.roots], "E": ",".join(f"{int(a)}-{int(b)}" for a, b in forest.edges),
                        "T": _trav(forest.traverse("BFS")), "S": _trav(forest.traverse("DFS")), "ntrees": int(forest.n_trees),
                        "E_index": ",".join(f"{int(a)}-{int(b)}" for i in range(forest.n_trees) for a, b in forest[i].edges)}
            # every accessor is read twice, in the order asked for; values are compared, never identities
            if case.get("read") == "forest-first":
                f1 = read_forest(); t1 = read_trees(); f2 = read_forest(); t2 = read_trees()
            else:
                t1 = read_trees(); f1 = read_forest(); t2 = read_trees(); f2 = read_forest()
            out.update({k: f1[k] for k in ("roots", "E", "T", "S", "ntrees")})
            out["trees"] = t2                       # the LAST read is what the structural clauses look at
            out["reads"] = {"f1": f1, "f2": f2, "t1": t1, "t2": t2}
        else:
            out["tree_root"] = int(tree.root)
            first = _canon_tree(tree, n, sort_children=(t == "mst"))
            out["T"] = _trav(tree.traverse("BFS"))
            out["S"] = _trav(tree.traverse("DFS"))
            out["T2"] = _trav(tree.traverse("BFS"))      # a second traversal of the same tree
            out["S2"] = _trav(tree.traverse("DFS"))
            out["P"], out["C"], out["E"] = _canon_tree(tree, n, sort_children=(t == "mst"))     # second read of the tables
            out["first_read"] = list(first)
            # the exported polyline (build_tree_as_polyline): number of vertices and segments as unordered index pairs
            try:
                pl = tree.build_tree_as_polyline()
                out["poly"] = {"nv": len(pl.vertices), "E": sorted([min(int(a), int(b)), max(int(a), int(b))] for a, b in pl.edges)}
            except Exception as e:  # noqa
                out["poly"] = {"err": H.exc_token(e), "msg": str(e)[:80]}
        out["r"] = "ok"
    except Exception as e:  # noqa
        out["r"] = H.exc_token(e); out["msg"] = str(e)[:100]
    finally:
        edge_sp.randint, face_sp.randint, cell_sp.randint = saved
    _CACHE["k"] = key; _CACHE["v"] = out
    return out


def impl_observe(case):
    o = _run(case)
    if o["r"] != "ok": return o["r"]
    if case["t"].endswith("forest"):
        return f"R:{','.join(map(str, o['roots']))}|E:{o['E']}|T:{o['T']}"
    if case["t"] == "mst":
        return f"E:{o['E']}|P:{o['P']}|C:{o['C']}"
    return f"P:{o['P']}|C:{o['C']}|E:{o['E']}|T:{o['T']}|S:{o['S']}"


def _graph_tokens(o):
    toks = [str(o["n"])]
    for l in o["adj"]:
        toks.append(str(len(l)))
        for nv, k in l: toks += [str(nv), str(k)]
    toks.append(str(len(o["excl_ids"]))); toks += [str(k) for k in o["excl_ids"]]
    return toks


def model_request(case):
    o = _run(case)
    if "adj" not in o: return None
    t = case["t"]
    if t == "mst":
        if "wedges" not in o: return None
        toks = ["mst", str(o["n"]), str(o["root"]), str(len(o["wedges"]))]
        for a, b, w, x in o["wedges"]: toks += [str(a), str(b), w, str(x)]
        return " ".join(toks)
    skip = "1" if t in ("edge", "eforest") else "0"
    if t.endswith("forest"):
        return " ".join(["forest", skip] + _graph_tokens(o))
    return " ".join(["bfs", str(o["root"]), skip] + _graph_tokens(o))


def _depths(parent_str, root):
    par = [None if p == "N" else int(p) for p in parent_str.split(",")]
    dep = [None] * len(par)
    dep[root] = 0
    for v in range(len(par)):
        chain, x = [], v
        while x is not None and dep[x] is None and len(chain) <= len(par):
            chain.append(x); x = par[x]
        if x is None or dep[x] is None: continue
        d = dep[x]
        for y in reversed(chain):
            d += 1; dep[y] = d
    return dep


def compare(case, model, impl):
    o = _run(case)
    if model.startswith("err") or model == "bad-request":
        return f"model rejected the request: {model}"
    if o["r"] != "ok": return f"implementation raised {o['r']}: {o.get('msg')}"
    parts = dict(p.split(":", 1) for p in model.split("|"))
    if parts.get("W", "0") != "0": return "model traversal/orientation ran out of fuel (contradicts traverse_once_parent_first)"
    if parts.get("H", "1") != "1": return "hypotheses WF/Sym of the C10 theorems do not hold for the adjacency read from the implementation"
    iparts = dict(p.split(":", 1) for p in impl.split("|"))
    for k, v in iparts.items():
        if parts.get(k) != v:
            return f"field {k} differs: model {parts.get(k, '')[:120]} vs implementation {v[:120]}"
    if "D" in parts and case["t"] in ("edge", "face", "cell"):
        dm = [None if d == "N" else int(d) for d in parts["D"].split(",")]
        di = _depths(o["P"], o["root"])
        if dm != di: return "tree depths of the implementation differ from the model's hop distances"
    return None


# ------------------------------------------------------------------------------------------------
# oracle
# ------------------------------------------------------------------------------------------------
def _admissible(case):
    """Independent admissible adjacency: list of (x, y) element pairs, from the raw mesh data."""
    m, t = case["mesh"], case["t"]
    if t in ("edge", "eforest", "mst"):
        ex = {H.key2(a, b) for a, b in case["excl"]} if t == "edge" else set()
        if case["avoid_boundary"] and m["kind"] != "polyline": ex |= H.border_edges_of(m)
        return [e for e in H.edges_of(m) if e not in ex]
    if t in ("face", "fforest"):
        ex = {H.key2(a, b) for a, b in case["excl"]}
        return [H.key2(f1, f2) for (f1, f2, ab) in H.face_adjacency(m) if ab not in ex]
    ex = {tuple(sorted(f)) for f in case["excl"]} if t == "cell" else set()
    return [H.key2(c1, c2) for (c1, c2, f) in H.cell_adjacency(m) if f not in ex]


def _check_tree(tag, n, root, P, C, E, T, S, adm, comp, hops, out, bfs_depth=True, edges_of_tree=None):
    """structural facts of one tree (parent table P, children C, edges E, traversals T,S as parsed python data)"""
    F = lambda key, what, detail="": out.append({"key": f"C10/{tag}/{key}", "what": what, "detail": str(detail)[:300]})
    admset = set(adm)
    if P[root] is not None: F("root-has-parent", "the root has a parent", P[root])
    reached = {root} | {v for v in range(n) if P[v] is not None}
    # parent / children consistency
    for p in range(n):
        if len(set(C[p])) != len(C[p]): F("children-dup", "a child is listed twice", (p, C[p]))
        for c in C[p]:
            if P[c] != p: F("children-not-parent", "children[p] contains c but parent[c] != p", (p, c, P[c])); break
    for c in range(n):
        if P[c] is not None and c not in C[P[c]]: F("parent-not-children", "parent[c] = p but c not in children[p]", (c, P[c])); break
    # tree edges are admissible adjacencies
    for c in range(n):
        if P[c] is not None and H.key2(P[c], c) not in admset:
            F("edge-not-admissible", "a tree edge is not an adjacency of the mesh or crosses an excluded connector", (P[c], c)); break
    # acyclic: every reached element's parent chain ends at the root
    dep = {root: 0}
    for v in sorted(reached):
        chain, x = [], v
        while x is not None and x not in dep and len(chain) <= n:
            chain.append(x); x = P[x]
        if x is None or x not in dep:
            F("cycle-or-detached", "parent chain of a reached element does not end at the root", v); return
        d = dep[x]
        for y in reversed(chain):
            d += 1; dep[y] = d
    want = {v for v in range(n) if comp[v] == comp[root]}
    if reached != want:
        F("reached-ne-component", "reached set differs from the admissible component of the root",
          f"missing {sorted(want - reached)[:6]} extra {sorted(reached - want)[:6]}")
    if edges_of_tree is None:
        if sorted(E) != sorted(H.key2(P[c], c) for c in range(n) if P[c] is not None):
            F("edges-ne-parent-links", "edge list is not the list of (parent, child) links", E[:8])
        if len(E) != len(reached) - 1: F("edge-count", "edge count != reached - 1", (len(E), len(reached)))
    if bfs_depth:
        bad = [v for v in reached if hops[v] != dep.get(v)]
        if bad: F("not-min-hops", "tree depth exceeds the minimum hop distance to the root", (bad[0], dep.get(bad[0]), hops[bad[0]]))
    for name, seq in (("BFS", T), ("DFS", S)):
        nodes = [x for x, _ in seq]
        if not seq or seq[0] != (root, None): F(f"traverse-{name}-first", "traversal does not start with (root, None)", seq[:2])
        if sorted(nodes) != sorted(reached): F(f"traverse-{name}-once", "traversal does not visit every reached element exactly once", nodes[:12])
        pos = {x: i for i, x in enumerate(nodes)}
        for x, p in seq:
            if p != P[x]: F(f"traverse-{name}-parent", "traversal reports a wrong parent", (x, p, P[x])); break
            if p is not None and pos.get(p, 10**9) > pos[x]: F(f"traverse-{name}-order", "child visited before its parent", (x, p)); break
        if name == "BFS":
            ds = [dep.get(x, -1) for x in nodes]
            if any(a > b for a, b in zip(ds, ds[1:])): F("traverse-BFS-not-level-order", "BFS traversal is not by non-decreasing depth", nodes[:12])
        else:
            stack, ok = [], True
            for x, p in seq:
                while stack and stack[-1] != p: stack.pop()
                if p is not None and not stack: ok = False; break
                stack.append(x)
            if not ok: F("traverse-DFS-not-preorder", "DFS traversal is not a depth-first preorder (a subtree is interleaved with another)", nodes[:12])
    return reached


def _parse_tree(o_tree, n):
    P = [None if p == "N" else int(p) for p in o_tree["P"].split(",")]
    C = [[int(c) for c in cs.split()] for cs in o_tree["C"].split(",")]
    E = [tuple(int(x) for x in e.split("-")) for e in o_tree["E"].split(",") if e]
    return P, C, E


def _parse_trav(s):
    out = []
    for it in s.split(","):
        if not it: continue
        x, p = it.split("/")
        out.append((int(x), None if p == "N" else int(p)))
    return out


_BEYOND_SEEN = {}


def _beyond(key):
    """a deviation on a clause beyond the statement: informational counter, printed once at exit"""
    if not _BEYOND_SEEN:
        import atexit
        atexit.register(lambda: print("C10 deviations on clauses beyond the statement (informational, not findings):", dict(sorted(_BEYOND_SEEN.items()))))
    _BEYOND_SEEN[key] = _BEYOND_SEEN.get(key, 0) + 1


def oracle(case):
    out = _oracle(case)
    if case.get("hist"):
        # a violation on an object whose compute() ran more than once gets its own structural key
        bad = [f for f in out if "/raises/" not in f["key"]]
        if bad:
            clauses = sorted({f["key"].split("/", 2)[2] for f in bad})
            out = [f for f in out if "/raises/" in f["key"]] + [{
                "key": f"C10/{case['t']}/after-recompute",
                "what": "after compute() ran again on the same object the tables violate: " + ", ".join(clauses),
                "detail": bad[0]["what"] + " | " + str(bad[0].get("detail"))[:200]}]
    return out


def _oracle(case):
    out = []
    o = _run(case)
    t = case["t"]
    n = _nel(case)
    if o["r"] != "ok":
        out.append({"key": f"C10/{t}/raises/{o['r']}", "what": f"building the {t} tree raised {o['r']}: {o.get('msg')}", "detail": ""})
        return out
    adm = _admissible(case)
    comp = H.components(n, adm)
    if t.endswith("forest"):
        ncomp = len(set(comp))
        roots = o["roots"]
        if len(roots) != ncomp or len({comp[r] for r in roots}) != ncomp or o["ntrees"] != ncomp:
            out.append({"key": f"C10/{t}/one-tree-per-component", "what": "forest does not have exactly one tree per connected component",
                        "detail": f"roots {roots[:8]} components {ncomp}"})
        rd = o["reads"]
        for name, a, b in (("forest accessors (edges / traverse / roots / n_trees / forest[i].edges)", rd["f1"], rd["f2"]),
                           ("tables of the trees (parent / children / edges / traverse)", rd["t1"], rd["t2"])):
            if a != b:
                which = [k for k in a if a[k] != b[k]] if isinstance(a, dict) else [i for i, (x, y) in enumerate(zip(a, b)) if x != y]
                out.append({"key": f"C10/{t}/reads-not-repeatable/" + ("forest" if isinstance(a, dict) else "trees"),
                            "what": f"reading the {name} a second time (order {case.get('read')}) gives other values than the first read",
                            "detail": f"differs at {which[:6]}: {str(a[which[0]])[:90]} vs {str(b[which[0]])[:90]}"})
        concat = ",".join(x["E"] for x in rd["t1" if case.get("read") != "forest-first" else "t2"] if x["E"])
        for nm, f in (("first", rd["f1"]), ("second", rd["f2"])):
            want = ",".join(x["E"] for x in (rd["t1"] if nm == "first" and case.get("read") != "forest-first" else rd["t2"]) if x["E"])
            if f["E"] != want and f["E"] != concat:
                out.append({"key": f"C10/{t}/forest-edges-ne-concatenation", "what": f"forest.edges ({nm} read) is not the concatenation of the trees' edge lists",
                            "detail": f"{f['E'][:100]} vs {want[:100]}"}); break
        covered = []
        for tr in o["trees"]:
            P, C, E = _parse_tree(tr, n)
            hops = H.bfs_hops(n, adm, tr["root"])
            r = _check_tree(t, n, tr["root"], P, C, E, _parse_trav(tr["T"]), _parse_trav(tr["S"]), adm, comp, hops, out)
            covered += sorted(r or [])
        if sorted(covered) != list(range(n)):
            out.append({"key": f"C10/{t}/cover", "what": "trees of the forest do not cover every element exactly once", "detail": str(covered[:20])})
        E = [e for e in o["E"].split(",") if e]
        if len(E) != n - ncomp:
            out.append({"key": f"C10/{t}/edge-count", "what": "forest edge count != elements - components", "detail": f"{len(E)} {n} {ncomp}"})
        for name in ("T", "S"):
            nodes = [x for x, _ in _parse_trav(o[name])]
            if sorted(nodes) != list(range(n)):
                out.append({"key": f"C10/{t}/traverse-once", "what": "forest traversal does not visit every element exactly once", "detail": str(nodes[:20])})
        return out
    root = o["root"]
    if o["tree_root"] != root:
        out.append({"key": f"C10/{t}/root", "what": "tree root is not the requested / drawn root", "detail": f"{o['tree_root']} {root}"})
    P, C, E = _parse_tree(o, n)
    T, S = _parse_trav(o["T"]), _parse_trav(o["S"])
    if o.get("first_read") is not None and o["first_read"] != [o["P"], o["C"], o["E"]]:
        out.append({"key": f"C10/{t}/reads-not-repeatable/tables", "what": "reading parent / children / edges a second time gives other values",
                    "detail": f"{o['first_read'][2][:80]} vs {o['E'][:80]}"})
    if o["T2"] != o["T"] or o["S2"] != o["S"]:
        out.append({"key": f"C10/{t}/traverse-not-repeatable", "what": "a second traversal of the same tree differs from the first",
                    "detail": f"{o['T'][:80]} vs {o['T2'][:80]}"})
    pl = o.get("poly")
    if pl is not None:
        # export: the polyline has one vertex per vertex (edge trees) / element (face, cell trees) and exactly the parent links
        # of the tree as segments.  The statement of C10 does not name the exported polyline (build_tree_as_polyline is a debug /
        # visualisation helper): a deviation here is counted and printed as INFORMATIONAL, never reported as a finding of C10
        # (integrator's decision after round 5; the translated bodies + `polyline_*_has_tree_edges` still tie the export to the source)
        if "err" in pl:
            _beyond(f"C10/{t}/export/raises/{pl['err']}")
        else:
            links = sorted([min(c, P[c]), max(c, P[c])] for c in range(n) if P[c] is not None)
            if pl["E"] != links or pl["nv"] != n:
                _beyond(f"C10/{t}/export/polyline-ne-tree")
    if t != "mst":
        hops = H.bfs_hops(n, adm, root)
        _check_tree(t, n, root, P, C, E, T, S, adm, comp, hops, out)
        return out
    # minimal spanning tree: the edge list is a minimum-weight spanning forest of the admissible edges ...
    import math
    V = _eff_V(case)
    if case["w"] == "one": wf = lambda a, b: Fraction(1)
    elif case["w"] == "length": wf = lambda a, b: Fraction(math.sqrt(float(H.sq_len(V, a, b))))
    else: wf = lambda a, b: _mst_weight(a, b, case)
    admset = set(adm)
    F = lambda key, what, detail="": out.append({"key": f"C10/mst/{key}", "what": what, "detail": str(detail)[:300]})
    Ek = [H.key2(a, b) for a, b in E]
    if any(e not in admset for e in Ek): F("edge-not-admissible", "an MST edge is not an admissible mesh edge", Ek[:6])
    if len(set(Ek)) != len(Ek): F("edge-dup", "an MST edge is listed twice", Ek[:6])
    ncomp = len(set(comp))
    tcomp = H.components(n, Ek)
    if len(Ek) != n - ncomp or len(set(tcomp)) != ncomp:
        F("not-spanning-forest", "edge list is not a spanning forest of the admissible edges (count / components)", (len(Ek), n, ncomp, len(set(tcomp))))
    else:
        # independent exact Kruskal weight
        lab = list(range(n))

        def find(x):
            while lab[x] != x:
                lab[x] = lab[lab[x]]; x = lab[x]
            return x
        best = Fraction(0)
        for w, a, b in sorted((wf(a, b), a, b) for a, b in adm):
            ra, rb = find(a), find(b)
            if ra != rb: lab[ra] = rb; best += w
        got = sum((wf(a, b) for a, b in Ek), Fraction(0))
        tol = (Fraction(1, 10**8) * got + Fraction(1, 10**11)) if case["w"] == "length" else 0
        if got - best > tol: F(f"not-minimal/w={'custom' if case['w'] in ('dict', 'attr') else case['w']}", "weight of the edge list exceeds the minimum spanning forest weight", (float(got), float(best)))
    # ... and parent/children orient the root's component of that forest
    hops = H.bfs_hops(n, Ek, root)
    sub = []
    _check_tree("mst", n, root, P, C, E, T, S, Ek, tcomp, hops, sub, bfs_depth=True, edges_of_tree=Ek)
    out += sub
    return out


def nontrivial(case, obs):
    o = _run(case)
    if o["r"] != "ok": return False
    if case["t"].endswith("forest"): return o["n"] >= 2
    return sum(1 for p in o["P"].split(",") if p != "N") >= 1


def classify(case, obs):
    o = _run(case)
    ks = ["t:" + case["t"], "mesh:" + case["mesh"]["kind"], "res:" + o["r"], "root:" + ("default" if case["root"] is None else "given")]
    if case["avoid_boundary"]: ks.append("avoid_boundary")
    if case["excl"]: ks.append("excl:nonempty")
    elif case.get("excl_given"): ks.append("excl:empty-set")
    if case["t"] == "mst": ks.append("w:" + case["w"])
    if case.get("wkind"): ks.append("wkind:" + case["wkind"])
    if case.get("rrep"): ks.append("root:npint")
    if case.get("xrep"): ks.append("excl-container:" + case["xrep"])
    if case.get("hist"): ks.append("history:recompute-x%d" % len(case["hist"]))
    if case["t"].endswith("forest"): ks.append("read-twice:" + case.get("read", "trees-first"))
    if "+union" in str(case["mesh"].get("tag")): ks.append("mesh:disjoint-union")
    if case.get("pre"): ks.append("history:other-trees-before")
    if case.get("geo"): ks.append("history:edge-attr-length=" + case["geo"]["store"] + (",vertices-moved" if case["geo"]["moves"] else ""))
    if case.get("conv") is not None: ks.append("history:conventional-attribute-names-present")
    if o["r"] == "ok" and not case["t"].endswith("forest"):
        reached = 1 + sum(1 for p in o["P"].split(",") if p != "N")
        ks.append("reach:" + ("all" if reached == o["n"] else "partial" if reached > 1 else "root-only"))
        ks.append("n:" + ("<=8" if o["n"] <= 8 else "<=30" if o["n"] <= 30 else ">30"))
    if o["r"] == "ok" and case["t"].endswith("forest"):
        ks.append("ntrees:" + (str(o["ntrees"]) if o["ntrees"] <= 2 else ">2"))
    return ks


def describe(case):
    m = case["mesh"]
    return {"mesh": f"{m['kind']} {m.get('tag')} nv={len(m['V'])}", "t": case["t"], "root": case["root"], "avoid_boundary": case["avoid_boundary"],
            "n_excl": len(case["excl"]), "w": case["w"]}


def shrink(case, still):
    c = dict(case)
    for k in ("pre", "rrep", "xrep", "conv"):
        if k in c:
            trial = {kk: v for kk, v in c.items() if kk != k}
            if still(trial): c = trial
    if c.get("hist") and len(c["hist"]) > 1:
        trial = dict(c, hist=c["hist"][:1])
        if still(trial): c = trial
    if c.get("geo"):
        trial = {kk: v for kk, v in c.items() if kk != "geo"}
        if still(trial): c = trial
        else:
            for mv in c["geo"]["moves"]:
                trial = dict(c, geo=dict(c["geo"], moves=[mv]))
                if still(trial): c = trial; break
    ex = list(c["excl"])
    i = 0
    while i < len(ex):
        trial = dict(c, excl=ex[:i] + ex[i + 1:])
        if still(trial): ex = trial["excl"]; c = trial
        else: i += 1
    if c["avoid_boundary"]:
        trial = dict(c, avoid_boundary=False)
        if still(trial): c = trial
    return c


def search_on_break(rng, broken, mismatches):
    return list(cases(rng, "quick"))[:400]


def translate():
    from . import c10_translate, c10_tree
    from .. import translate as T
    from ..gen import c20_translate
    # the Kruskal loop is also run on the UnionFind class as translated by property C20 (Generated/C20UF.lean, bridged in
    # Props/C20Source + Props/C10Source: bridge_kruskal_uf): that file must come from the tree THIS run looks at
    uf = T.site("unionfind.py: UnionFind (translation of property C20, re-run because Generated.C10T.kruskalStepUF / ufCtor use it)", c20_translate.site_unionfind)
    return c10_translate.translate() + c10_tree.translate() + [uf]


MANIFEST = {
    "level_text": ("Proof. Lean 4 theorems about an executable model of the breadth-first spanning trees of mouette/processing/trees (the "
                   "(parent, child) queue, seen flags and distance test exactly as coded, generic over vertices/faces/cells with an exclusion "
                   "predicate on connectors): for every adjacency, root and exclusion set the loop terminates within sum(deg)+1 iterations; "
                   "parent and children tables are mutually consistent; every tree edge is an admissible (non-excluded) adjacency; the reached "
                   "set is exactly the set of elements joined to the root by admissible adjacencies; edge count = reached - 1; the depth of "
                   "every element is its minimum hop distance; traverse() in both orders terminates and visits every reached element exactly "
                   "once, parents before children; a forest over an undirected adjacency has exactly one tree per connected component and covers "
                   "every element once; the Kruskal loop on the C20 union-find model selects a spanning forest of the admissible edges (no cycle, "
                   "same connectivity) of minimum total weight among ALL spanning forests of the admissible edges, and the orientation loop (no seen "
                   "flags) terminates on it and orients exactly the root's component. Kruskal and its orientation are also compared exactly "
                   "with the code and checked by the oracle (independent exact Kruskal, components)."
                   " Round 4: put_neighbours_in_queue (3 shapes), the initialisation, the final children/edges loop, traverse, the Kruskal loop with "
                   "its neighbour sets, the orientation BFS, the forest loops and accessors are re-extracted from the working tree on every run and "
                   "proved equal to the model; the theorems are restated on the source-level compositions compute_edge/face/cell, mst_src, "
                   "forest_*_src; new: the forest traversal visits every element exactly once and the forest has n - n_trees edges."),
    "level_note": ("Trusted: Lean kernel + propext/Classical.choice/Quot.sound; the hand-written model (tied to the code by exact comparison "
                   "of parent/children/edge tables and traversal sequences on the cases of each run); adjacency read from the implementation's "
                   "connectivity; random.randint patched. the Kruskal theorems depend on lean-c20's Lemmas/UnionFind.lean (refinement of the union-find model)."),
    "technique": "Lean 4 invariant proof over an executable model of the BFS loops and traversals; exact differential correspondence + structural oracle",
}
