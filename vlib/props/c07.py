"""C07 — geometric quantities match their definitions, invariant under rigid motion."""
import ast, math, os, random
from collections import defaultdict
from fractions import Fraction as Fr

from ..gen import mesh as G
from ..gen import geomutil as U
from .. import translate as T

PID = "C07"
# bridges Generated.C07Src.f ~ Model.Geom.f (Props/C07Source.lean) per function translated from its BODY on every run
BRIDGES = {
    "mouette/geometry/geometry.py::cross": ["cross_bridge"], "mouette/geometry/geometry.py::norm": ["norm_bridge"],
    "mouette/geometry/geometry.py::distance": ["distance_bridge"],
    "mouette/geometry/geometry.py::det_3x3": ["det_3x3_bridge"], "mouette/geometry/geometry.py::triangle_area": ["triangle_area_bridge"],
    "mouette/geometry/geometry.py::quad_area": ["quad_area_bridge"], "mouette/geometry/geometry.py::angle_3pts": ["angle_3pts_bridge"],
    "mouette/geometry/geometry.py::cotan": ["cotan_bridge"],
    "mouette/attributes/attr_faces.py::face_area": ["face_area_at", "face_area_bridge"],
    "mouette/attributes/attr_faces.py::face_normals": ["face_normals_bridge"],
    "mouette/attributes/attr_faces.py::face_barycenter": ["face_barycenter_bridge"],
    "mouette/attributes/attr_faces.py::face_circumcenter": ["face_circumcenter_bridge"],
    "mouette/attributes/attr_edges.py::edge_length": ["edge_length_bridge"],
    "mouette/attributes/attr_edges.py::edge_middle_point": ["edge_middle_point_bridge"],
    "mouette/attributes/attr_cells.py::cell_volume": ["cell_volume_bridge"],
    "mouette/attributes/attr_cells.py::cell_barycenter": ["cell_barycenter_bridge"],
    "mouette/attributes/attr_vertices.py::degree": ["degree_fold", "degree_bridge"],
    "mouette/attributes/glob.py::euler_characteristic": ["euler_characteristic_bridge"],
    "mouette/attributes/glob.py::barycenter": ["barycenter_bridge"],
    "mouette/attributes/glob.py::total_area": ["total_area_bridge"],
    "mouette/attributes/glob.py::mean_face_area": ["mean_face_area_all", "mean_face_area_first", "mean_face_area_clamped"],
    "mouette/attributes/glob.py::mean_cell_volume": ["mean_cell_volume_all", "mean_cell_volume_clamped"],
    "mouette/attributes/glob.py::mean_edge_length": ["mean_edge_length_all", "mean_edge_length_clamped"],
    "mouette/attributes/attr_corners.py::corner_angles": ["corner_angles_bridge"],
    # both branches translated (direct: three cotan writes per face at 3i..3i+2; cached angles: cot[c] = -tan(angles[c] + pi/2))
    "mouette/attributes/attr_corners.py::cotangent": ["cotangent_bridge", "cotangent_from_angles", "cotangent_branches_agree"],
    # whole body: header incl. default 2*pi, border loop, cached `angles` source, skip guard, corner loop
    "mouette/attributes/attr_vertices.py::angle_defects": ["angle_defects_bridge", "angle_defects_header"],
    # whole body: header, cached `cotan` source, edge loop, the two direct_face lookups with their None-skips, opposite corner, `+= cot[c]/2`
    "mouette/attributes/attr_edges.py::cotan_weights": ["cotan_weights_bridge", "cotan_weights_header"],
    # whole body (guard, three sources of the face normals, header, ONE call of the translated interpolation, normalisation loop); every mode goes
    # through Generated.C07Src.interpolate_faces_to_vertices componentwise; 'uniform' is bridged to the mean of the adjacent face normals
    "mouette/attributes/attr_vertices.py::vertex_normals": ["vertex_normals_components", "vertex_normals_uniform", "vertex_normals_sources"],
    "mouette/attributes/interpolate.py::interpolate_vertices_to_faces": ["interpolate_vertices_to_faces_at", "interpolate_vertices_to_faces_bridge"],
    # all four weight modes are translated; 'sum' and 'uniform' are bridged to the model, 'area' / 'angle' are tied by the oracle only
    "mouette/attributes/interpolate.py::interpolate_faces_to_vertices": ["interpolate_faces_to_vertices_sum", "interpolate_faces_to_vertices_uniform"],
    "mouette/attributes/interpolate.py::scatter_vertices_to_corners": ["scatter_vertices_to_corners_bridge"],
    # all three modes translated; 'sum' bridged (scatter-add over the corners), 'uniform' / 'angle' tied by the oracle only
    "mouette/attributes/interpolate.py::average_corners_to_vertices": ["average_corners_to_vertices_sum"],
    # all three modes translated; 'sum' and 'uniform' bridged
    "mouette/attributes/interpolate.py::average_corners_to_faces": ["average_corners_to_faces_sum", "average_corners_to_faces_uniform"],
}
EXTRA_SOURCE_THEOREMS = ["face_area_source_rigid", "face_barycenter_source_rigid", "edge_length_source_rigid", "cell_volume_source_rigid"]
TITLE = "Geometric quantities match their definitions, invariant under rigid motion"
LEAN_MODULES = ["Mouette.Props.C07", "Mouette.Props.C07Real", "Mouette.Props.C07Hist", "Mouette.Props.C07Source"]
REQUIRED_THEOREMS = [
    "sub_translate", "bary_translate", "circumcenter_translate", "dot_rotate", "norm2_rotate", "cross_rotate",
    "det3_rotate", "det_sq_of_orthogonal", "triArea2_rotate", "cornerCS_rotate", "tetVolume_rotate", "circumcenter_rotate",
    "dist2_scale", "triArea2_scale", "cornerCS_scale", "tetDet_scale", "circumcenter_scale", "lagrange_identity",
    "circumcenter_equidistant_and_coplanar", "circumcenter_unique", "circumcenterNoOffset_refuted", "third_index",
    "corner_index_div", "corner_index_mod", "oppCorner_is_opposite", "cotanArgs_bridge", "cotanArgs_centered",
    "oppCorner_bridge", "interpolate_constant", "interpV2F_constant", "quatRot_orthogonal", "renumber_pt",
    "angleDefectStruct_bridge", "defect_table", "interp_outputs_cleared", "consistent_step", "read_eq_fresh", "history_eq_fresh",
    "area_history_rigid", "area_compute_move_read", "corner_compute_move_read", "cached_area_not_invalidated_by_scale",
    "cached_normals_not_invalidated_by_rotation", "drop_repairs",
    "atan2_eq_angle", "codeAngle_eq_angle", "codeAngle_range", "angle_sum_pi", "meshAngle_sum", "corner_sum_by_vertex", "defect_total",
    "gauss_bonnet_combinatorial", "gauss_bonnet_closed", "gauss_bonnet", "handshake_of_manifold", "gauss_bonnet_of_manifold",
    "faceAreaTerms_rotate", "faceCornerCS_rotate", "faceNormalDir_rotate", "faceBary_rotate", "bary_rotate", "mid_rotate", "dist2_rotate",
] + sorted({t for ts in BRIDGES.values() for t in ts}) + EXTRA_SOURCE_THEOREMS
TRUSTED = [
    "Lean 4.33.0 kernel; axioms ⊆ {propext, Classical.choice, Quot.sound}",
    "hand-written model Mouette/Model/Geom.lean tied to mouette/geometry/geometry.py and mouette/attributes/*.py by the "
    "value correspondence of this run (exact rationals vs floats at 1e-9*scale+1e-12) and by the translated index tables",
    "the model computes in exact rational arithmetic; floating-point rounding, sqrt, atan2, tan are not modelled (applied by "
    "the harness to the model's exact pre-transcendental outputs)",
    "edge numbering of the mesh (mesh.edges) is taken from the implementation and checked by the oracle to be the set of face sides",
    "translator (python ast) for the two index tables of attr_corners.cotangent / attr_edges.cotan_weights, and vlib/gen/c07_translate.py for the "
    "function bodies listed as `translated` in SOURCE_MAP (statement-by-statement reading into Generated/C07Src.lean; numpy's np.dot / np.sqrt, "
    "Vec arithmetic, Vec.norm() and Python's sum() are given their mathematical meaning; `Vec.normalized(u)` is a positive rescaling)",
]
ASSUMPTIONS = ["agreement model/implementation is established on the meshes explored in this run only",
               "inputs are non-degenerate (min corner sine ≥ 0.05, weighted normal sums not cancelling); output attributes handed to "
               "the interpolation functions are fresh (empty)"]
RULE = ("random oriented manifold surfaces (triangle / quad / polygon; disks, annuli, tori, spheres, genus 2, with holes, two "
        "components), tetrahedral meshes (all orientations) and polylines, dyadic coordinates; every quantity with a random option "
        "set (persistent, dense, zero_border, call order angles-before-cotangent); per case one textbook evaluation in exact "
        "Fractions and metamorphic runs on the implementation under a rational rotation+translation, a vertex/face renumbering, a "
        "power-of-two scale and the default option set; non-trivial = distinct mesh with ≥1 face/cell/edge whose quantities were "
        "all compared with the model")

WEIGHTS = ["uniform", "area", "angle"]
NORMAL_DEP = {"fnrm", "vn_uniform", "vn_area", "vn_angle"}
AREA_DEP = {"farea", "g_mfa", "g_mfa_big", "g_ta", "i_f2v_area", "k_f2v_area", "r_f2v_area"}
MIN_SIN = 0.05


# =================================================================================================
# implementation observation
# =================================================================================================
def _alist(attr, n, width=1):
    out = []
    for i in range(n):
        x = attr[i]
        if width == 1: out.append(float(x))
        else: out.extend(float(c) for c in x)
    return out


def _try(fn):
    try:
        return fn()
    except AssertionError:
        return "err:Other(AssertionError)"
    except NotImplementedError:
        return "err:Other(NotImplementedError)"
    except (KeyError, IndexError, ValueError, TypeError, ZeroDivisionError) as e:
        return f"err:Other({type(e).__name__})"
    except Exception as e:  # noqa
        return f"err:Other({type(e).__name__})"


def _mk_attr(M, container, n, name, P, D, width=1):
    from mouette.mesh.mesh_attributes import Attribute, ArrayAttribute
    if P:
        return container.create_attribute(name, float, width, dense=D) if width > 1 else container.create_attribute(name, float, dense=D)
    if D:
        return ArrayAttribute(float, n, width) if width > 1 else ArrayAttribute(float, n)
    return Attribute(float, width) if width > 1 else Attribute(float)


REPS = ["vec", "list", "tuple", "ndarray", "float32", "intlist", "int64", "int32", "int16"]
INT_REPS = ("intlist", "int64", "int32", "int16")


build_mesh = U.build_mesh


def observe(kind, V, elems, opts, attrs=None, rep="vec", mesh=None, sfx=None):
    """Drive the real implementation on one mesh with one option set. Returns {key: flat float list | 'err:..'}.
    `mesh`: observe on this (already used) mesh object instead of a fresh one; `sfx`: suffix for the attribute names
    (None = the functions' default names).  `out["_alias"]` lists by-value checks that failed: the attribute stored in the mesh
    under the requested name differs from the returned one, an input attribute / the vertex coordinates were modified, the caller's
    output attribute does not hold the returned values."""
    import mouette as M
    A = M.attributes
    P, D = bool(opts.get("persistent")), bool(opts.get("dense", True))
    out = {}
    alias = []
    m = mesh if mesh is not None else build_mesh(kind, V, elems, rep)
    nV = len(m.vertices)
    V_before = [[float(c) for c in m.vertices[i]] for i in range(nV)]
    E = [(int(a), int(b)) for a, b in m.edges]
    nE = len(E)
    out["E"] = [list(e) for e in E]

    def call(key, fn, default_name, container, n, width=1, **kw):
        """call an attribute function with the case's persistent/dense flags (and the name suffix), read the values from the returned
        attribute, and check BY VALUE what the mesh stores under that name"""
        name = kw.pop("name", default_name) + (sfx or "")
        if sfx is not None or "force_name" in kw:
            kw.pop("force_name", None); kw["name"] = name

        def run():
            had = container.has_attribute(name)
            a = fn(m, persistent=P, dense=D, **kw)
            vals = _alist(a, n, width)
            if P:
                if not container.has_attribute(name): alias.append(f"{key}:persistent-not-stored")
                else:
                    st = _alist(container.get_attribute(name), n, width)
                    if any((x != y) and not (x != x and y != y) for x, y in zip(st, vals)): alias.append(f"{key}:stored-differs-from-returned")
            elif not had and container.has_attribute(name):
                alias.append(f"{key}:non-persistent-call-stored-attribute")
            return vals
        out[key] = _try(run)
    call("elen", A.edge_length, "length", m.edges, nE)
    call("emid", A.edge_middle_point, "middle", m.edges, nE, 3)
    call("deg", A.degree, "degree", m.vertices, nV)
    out["g_mel"] = _try(lambda: [float(A.mean_edge_length(m))])
    out["g_mel_big"] = _try(lambda: [float(A.mean_edge_length(m, nE + 1 + 3 * (nE % 3)))])
    out["g_bary"] = _try(lambda: [float(c) for c in A.barycenter(m)])
    if kind == "vol":
        nC = len(m.cells)
        call("cvol", A.cell_volume, "volume", m.cells, nC)
        call("cbary", A.cell_barycenter, "barycenter", m.cells, nC, 3)
        out["g_mcv"] = _try(lambda: [float(A.mean_cell_volume(m))])
        out["g_mcv_big"] = _try(lambda: [float(A.mean_cell_volume(m, nC + 1 + 4 * (nC % 2)))])
    if kind == "surf":
        nF = len(m.faces)
        nK = len(m.face_corners)
        call("farea", A.face_area, "area", m.faces, nF)
        call("fnrm", A.face_normals, "normals", m.faces, nF, 3)
        call("fbary", A.face_barycenter, "barycenter", m.faces, nF, 3)
        call("fcirc", A.face_circumcenter, "circumcenter", m.faces, nF, 3)
        call("far", A.triangle_aspect_ratio, "aspect_ratio", m.faces, nF)
        if opts.get("angles_first"):
            call("cangle", A.corner_angles, "angles", m.face_corners, nK)
        call("ccot", A.cotangent, "cotan", m.face_corners, nK)
        if not opts.get("angles_first"):
            call("cangle", A.corner_angles, "angles", m.face_corners, nK)
        call("cotw", A.cotan_weights, "cotan_weight", m.edges, nE)
        for w in WEIGHTS:
            call("vn_" + w, A.vertex_normals, "vn_" + w, m.vertices, nV, 3, interpolation=w, force_name=True)
        zb = bool(opts.get("zb"))
        call("ad", A.angle_defects, "ad", m.vertices, nV, zero_border=zb, force_name=True)
        n_half = max(1, nE // 2)
        out["g_mel_n"] = _try(lambda: [float(A.mean_edge_length(m, n_half))])
        out["g_mfa"] = _try(lambda: [float(A.mean_face_area(m))])
        out["g_mfa_big"] = _try(lambda: [float(A.mean_face_area(m, nF + 1 + 2 * (nF % 2)))])
        out["g_ta"] = _try(lambda: [float(A.total_area(m))])
        out["g_chi"] = _try(lambda: [float(A.euler_characteristic(m))])
    if kind == "surf" and attrs:
        I = A
        for tag, va, fa, ca in (("i", attrs["va"], attrs["fa"], attrs["ca"]), ("k", [attrs["const"]] * nV, [attrs["const"]] * nF, [attrs["const"]] * nK)):
            cnt = [0]

            def fresh(container, n):
                cnt[0] += 1
                return _mk_attr(M, container, n, f"{tag}_{cnt[0]}{sfx or ''}", P, D)

            def filled(container, n, vals):
                a = fresh(container, n)
                for i, x in enumerate(vals): a[i] = float(x)
                return a
            vattr = filled(m.vertices, nV, va); fattr = filled(m.faces, nF, fa); cattr = filled(m.face_corners, nK, ca)
            inputs = (("vattr", vattr, nV, va), ("fattr", fattr, nF, fa), ("cattr", cattr, nK, ca))

            def run(name, n, callf, container):
                o = fresh(container, n)

                def once():
                    r = callf(o)
                    vals = _alist(r, n)
                    if _alist(o, n) != vals: alias.append(f"{tag}_{name}:output-attribute-differs-from-returned")
                    for nm, a, k, src in inputs:
                        if _alist(a, k) != [float(x) for x in src]: alias.append(f"{tag}_{name}:input-{nm}-modified")
                    return vals
                out[f"{tag}_{name}"] = _try(once)
                if tag == "k":      # second call writing into the SAME (now non-empty) output attribute
                    out[f"r_{name}"] = _try(once)
            run("v2f", nF, lambda o: I.interpolate_vertices_to_faces(m, vattr, o), m.faces)
            for w in ["uniform", "area", "angle", "sum"]:
                run(f"f2v_{w}", nV, lambda o, w=w: I.interpolate_faces_to_vertices(m, fattr, o, weight=w), m.vertices)
            run("sv2c", nK, lambda o: I.scatter_vertices_to_corners(m, vattr, o), m.face_corners)
            run("sf2c", nK, lambda o: I.scatter_faces_to_corners(m, fattr, o), m.face_corners)
            for w in ["uniform", "angle", "sum"]:
                run(f"ac2v_{w}", nV, lambda o, w=w: I.average_corners_to_vertices(m, cattr, o, weight=w), m.vertices)
                run(f"ac2f_{w}", nF, lambda o, w=w: I.average_corners_to_faces(m, cattr, o, weight=w), m.faces)
    V_after = [[float(c) for c in m.vertices[i]] for i in range(nV)]
    if V_after != V_before: alias.append("mesh:vertex-coordinates-modified")
    out["_alias"] = sorted(set(alias))
    return out


_CACHE = {}


def impl_observe(case):
    obs = observe(case["t"], case["V"], case["X"], case["opts"], case.get("attrs"), rep=case.get("rep", "vec"))
    _CACHE.clear(); _CACHE["case"] = case; _CACHE["obs"] = obs
    return obs


def _obs(case):
    if _CACHE.get("case") is case: return _CACHE["obs"]
    return impl_observe(case)


# =================================================================================================
# quantity registry:  key -> (domain, kind, degree)     domain: E F V C K G ; kind: s(calar) p(oint) d(irection)
# =================================================================================================
REG = {
    "elen": ("E", "s", 1), "emid": ("E", "p", 1), "deg": ("V", "s", 0), "g_mel": ("G", "s", 1), "g_bary": ("G", "p", 1),
    "cvol": ("K", "s", 3), "cbary": ("K", "p", 1), "g_mcv": ("G", "s", 3),
    "farea": ("F", "s", 2), "fnrm": ("F", "d", 0), "fbary": ("F", "p", 1), "fcirc": ("F", "p", 1), "cangle": ("C", "s", 0),
    "ccot": ("C", "s", 0), "cotw": ("E", "s", 0), "vn_uniform": ("V", "d", 0), "vn_area": ("V", "d", 0), "vn_angle": ("V", "d", 0),
    "far": ("F", "s", 0), "ad": ("V", "s", 0), "g_mel_n": ("G*", "s", 1), "g_mfa": ("G", "s", 2), "g_ta": ("G", "s", 2), "g_chi": ("G", "s", 0),
}
REG["g_mel_big"] = ("G", "s", 1); REG["g_mfa_big"] = ("G", "s", 2); REG["g_mcv_big"] = ("G", "s", 3)
for _t in ("i", "k", "r"):
    REG[_t + "_v2f"] = ("F", "s", 0); REG[_t + "_sv2c"] = ("C", "s", 0); REG[_t + "_sf2c"] = ("C", "s", 0)
    for _w in ("uniform", "area", "angle", "sum"): REG[f"{_t}_f2v_{_w}"] = ("V", "s", 0)
    for _w in ("uniform", "angle", "sum"):
        REG[f"{_t}_ac2v_{_w}"] = ("V", "s", 0); REG[f"{_t}_ac2f_{_w}"] = ("F", "s", 0)
COND = {"far": 1e4, "ccot": 400.0, "cotw": 400.0, "vn_uniform": 50.0, "vn_area": 50.0, "vn_angle": 50.0, "fnrm": 50.0, "fcirc": 400.0}


def _size(V):
    return max(1e-30, max(abs(c) for p in V for c in p))


_TOL = {"f": 1.0}     # tolerance factor of the current case: float32 coordinates are processed in float32 arithmetic (eps 6e-8)


def _set_tol(case):
    _TOL["f"] = 2e4 if case.get("rep") == "float32" else 1.0


def _scale_for(key, size, attrmag=1.0):
    dom, kind, deg = REG[key]
    if key[:2] in ("i_", "k_", "r_"): return attrmag * 50.0 * _TOL["f"]
    return COND.get(key, 1.0) * (size ** deg if deg else 1.0) * _TOL["f"]


# =================================================================================================
# textbook definitions, evaluated independently in exact Fractions (sqrt/atan2 at the very end)
# =================================================================================================
def _angle(a, b, c):
    """angle at b between ba and bc"""
    u, v = U.vsub(a, b), U.vsub(c, b)
    return math.atan2(U.fsqrt(U.vnorm2(U.vcross(u, v))), float(U.vdot(u, v)))


def _cot(a, b, c):
    u, v = U.vsub(a, b), U.vsub(c, b)
    return float(U.vdot(u, v)) / U.fsqrt(U.vnorm2(U.vcross(u, v)))


def _tri_area(a, b, c):
    return U.fsqrt(U.vnorm2(U.vcross(U.vsub(b, a), U.vsub(c, a)))) / 2


def _corner_normals(ps):
    n = len(ps)
    return [U.vcross(U.vsub(ps[(i + 1) % n], ps[i]), U.vsub(ps[(i + 2) % n], ps[(i + 1) % n])) for i in range(n)]


def _vector_area(ps):
    s = (Fr(0),) * 3
    for i in range(len(ps)): s = U.vadd(s, U.vcross(ps[i], ps[(i + 1) % len(ps)]))
    return U.vscale(Fr(1, 2), s)


def _planar(ps):
    """exactly coplanar with a non-zero vector area (simple planar polygon, convex or not)"""
    va = _vector_area(ps)
    return U.vnorm2(va) != 0 and all(U.vdot(va, U.vsub(p, ps[0])) == 0 for p in ps)


def _has_reflex(ps):
    """some corner turns against the polygon's orientation (w.r.t. the vector area)"""
    va = _vector_area(ps)
    return any(U.vdot(c, va) <= 0 for c in _corner_normals(ps))


def _poly_area(ps):
    """textbook area: planar polygon -> norm of the vector area (shoelace); non-planar polygon -> the decomposition the
    library documents (quad: mean of the two diagonal splits; n-gon: fan around the barycentre)."""
    n = len(ps)
    if n == 3: return _tri_area(*ps), "tri"
    if _planar(ps):
        return U.fsqrt(U.vnorm2(_vector_area(ps))), ("planar-nonconvex" if _has_reflex(ps) else "planar")
    if n == 4:
        a, b, c, d = ps
        return (_tri_area(a, b, c) + _tri_area(a, c, d) + _tri_area(b, c, d) + _tri_area(b, d, a)) / 2, "quad"
    g = U.vscale(Fr(1, n), tuple(sum(p[k] for p in ps) for k in range(3)))
    return sum(_tri_area(ps[i], ps[(i + 1) % n], g) for i in range(n)), "fan"


def _normalize_sum(vs, ws):
    """unit vector of Σ w v; NaN (comparison waived) when the sum nearly cancels"""
    tot = [sum(w * v[k] for v, w in zip(vs, ws)) for k in range(3)]
    n = math.sqrt(sum(c * c for c in tot)); W = sum(abs(w) for w in ws)
    if W == 0 or n < 0.05 * W: return [float("nan")] * 3
    return [c / n for c in tot]


def _wmean(ws, xs):
    return sum(w * x for w, x in zip(ws, xs)) / sum(ws)


def textbook(kind, V, X, E, opts, attrs):
    P = [U.fvec(p) for p in V]
    nV = len(P)
    out = {}
    out["elen"] = [U.fsqrt(U.vnorm2(U.vsub(P[a], P[b]))) for a, b in E]
    out["emid"] = [float(c) for a, b in E for c in U.vscale(Fr(1, 2), U.vadd(P[a], P[b]))]
    out["g_mel"] = [sum(out["elen"]) / len(E)] if E else "err:Other(ZeroDivisionError)"
    out["g_mel_big"] = out["g_mel"]          # n larger than the number of edges: all edges are considered, the mean is the mean
    out["g_bary"] = [float(sum(p[k] for p in P) / nV) for k in range(3)]
    nb = defaultdict(set)
    if kind == "surf":
        for f in X:
            for i in range(len(f)):
                a, b = f[i], f[(i + 1) % len(f)]; nb[a].add(b); nb[b].add(a)
    elif kind == "vol":
        for c in X:
            for a in c:
                for b in c:
                    if a != b: nb[a].add(b)
    else:
        for a, b in X: nb[a].add(b); nb[b].add(a)
    out["deg"] = [float(len(nb[v])) for v in range(nV)]
    if kind == "vol":
        vols = []
        for c in X:
            a, b, cc, d = (P[i] for i in c)
            vols.append(float(abs(U.det3(U.vsub(b, a), U.vsub(cc, a), U.vsub(d, a))) / 6))
        out["cvol"] = vols
        out["cbary"] = [float(sum(P[i][k] for i in c) / len(c)) for c in X for k in range(3)]
        out["g_mcv"] = [sum(vols) / len(vols)]
        out["g_mcv_big"] = out["g_mcv"]
        return out
    if kind == "poly":
        return out
    Fs = X
    tri = all(len(f) == 3 for f in Fs)
    ERR = "err:Other(Exception)"
    areas, kinds = [], []
    for f in Fs:
        a, k = _poly_area([P[i] for i in f]); areas.append(a); kinds.append(k)
    out["farea"] = areas
    out["_area_kinds"] = kinds
    nrm = []
    for f in Fs:
        ps = [P[i] for i in f]
        if len(f) == 3:
            nrm.append(U.unit(U.vcross(U.vsub(ps[1], ps[0]), U.vsub(ps[2], ps[0]))))
        elif _planar(ps):
            nrm.append(U.unit(_vector_area(ps)))       # planar polygon: the unit normal of its plane, oriented by the vertex order
        else:
            nrm.append(None)            # non-planar polygon: no textbook normal; unit length + equivariance only
    out["fnrm"] = [c for n in nrm for c in (n if n else [float("nan")] * 3)]
    out["fbary"] = [float(sum(P[i][k] for i in f) / len(f)) for f in Fs for k in range(3)]
    # triangle aspect ratio: circumradius / (2 inradius) = abc / (8 (s-a)(s-b)(s-c)); -1 on non-triangular faces (documented)
    far = []
    for f in Fs:
        if len(f) != 3: far.append(-1.0); continue
        la, lb, lc = (U.fsqrt(U.vnorm2(U.vsub(P[f[i]], P[f[(i + 1) % 3]]))) for i in range(3))
        area = _tri_area(*(P[i] for i in f)); sp = (la + lb + lc) / 2
        far.append((la * lb * lc / (4 * area)) / (2 * area / sp))
    out["far"] = far
    angles, cot, cv, cf = [], [], [], []
    for t, f in enumerate(Fs):
        n = len(f)
        for i in range(n):
            a, b, c = P[f[i - 1]], P[f[i]], P[f[(i + 1) % n]]
            angles.append(_angle(a, b, c)); cv.append(f[i]); cf.append(t)
            if tri: cot.append(_cot(a, b, c))
    out["cangle"] = angles
    out["ccot"] = cot if tri else ERR
    if tri:
        cw = []
        for a, b in E:
            s = 0.0
            for f in Fs:
                if a in f and b in f:
                    w = [x for x in f if x not in (a, b)][0]
                    s += _cot(P[a], P[w], P[b]) / 2
            cw.append(s)
        out["cotw"] = cw
    else:
        out["cotw"] = ERR
    # border vertices: end points of a side that has no opposite side
    sides = {(f[i], f[(i + 1) % len(f)]) for f in Fs for i in range(len(f))}
    border = {v for (a, b) in sides if (b, a) not in sides for v in (a, b)}
    if tri:
        zb = bool(opts.get("zb"))
        ad = []
        for v in range(nV):
            s = sum(angles[c] for c in range(len(cv)) if cv[c] == v)
            if v in border: ad.append(0.0 if zb else math.pi - s)
            else: ad.append(2 * math.pi - s)
        out["ad"] = ad
    else:
        out["ad"] = ERR
    # the face normal the vertex normals interpolate is the library's face normal (first three vertices) for non-planar polygons
    fn_used = [n if n else U.unit(U.vcross(U.vsub(P[f[1]], P[f[0]]), U.vsub(P[f[2]], P[f[0]]))) for n, f in zip(nrm, Fs)]
    v2f = defaultdict(list)
    for t, f in enumerate(Fs):
        for v in f: v2f[v].append(t)
    for w in WEIGHTS:
        res = []
        for v in range(nV):
            if w == "uniform": fl = v2f[v]; ws = [1.0] * len(fl)
            elif w == "area": fl = v2f[v]; ws = [areas[t] for t in fl]
            else:
                cs = [c for c in range(len(cv)) if cv[c] == v]; fl = [cf[c] for c in cs]; ws = [angles[c] for c in cs]
            res += _normalize_sum([fn_used[t] for t in fl], ws)
        out["vn_" + w] = res
    if tri:
        cc = []
        for f in Fs:
            a, b, c = (P[i] for i in f)
            # definition: the point of the plane (a,b,c) equidistant from a, b, c  (solved exactly, 3x3 linear system)
            u, v = U.vsub(b, a), U.vsub(c, a); n = U.vcross(u, v)
            rows = [u, v, n]; rhs = [U.vnorm2(u) / 2, U.vnorm2(v) / 2, Fr(0)]
            D = U.det3(*rows)
            sol = []
            for k in range(3):
                cols = [list(r) for r in rows]
                for r in range(3): cols[r][k] = rhs[r]
                sol.append(U.det3(*[tuple(r) for r in cols]) / D)
            cc += [float(a[k] + sol[k]) for k in range(3)]
        out["fcirc"] = cc
    else:
        out["fcirc"] = ERR
    n_half = max(1, len(E) // 2)
    out["g_mel_n"] = [sum(out["elen"][:n_half]) / n_half]
    out["g_mfa"] = [sum(areas) / len(Fs)]
    out["g_mfa_big"] = out["g_mfa"]
    out["g_ta"] = [sum(areas)]
    out["g_chi"] = [float(nV - len(E) + len(Fs))]
    if attrs:
        nK = len(cv)
        for tag, va, fa, ca in (("i", attrs["va"], attrs["fa"], attrs["ca"]), ("k", [attrs["const"]] * nV, [attrs["const"]] * len(Fs), [attrs["const"]] * nK)):
            va, fa, ca = [float(x) for x in va], [float(x) for x in fa], [float(x) for x in ca]
            out[tag + "_v2f"] = [sum(va[v] for v in f) / len(f) for f in Fs]
            cs_of = defaultdict(list)
            for c in range(nK): cs_of[cv[c]].append(c)
            cf_of = defaultdict(list)
            for c in range(nK): cf_of[cf[c]].append(c)
            out[tag + "_f2v_uniform"] = [sum(fa[t] for t in v2f[v]) / len(v2f[v]) for v in range(nV)]
            out[tag + "_f2v_sum"] = [sum(fa[t] for t in v2f[v]) for v in range(nV)]
            out[tag + "_f2v_area"] = [_wmean([areas[t] for t in v2f[v]], [fa[t] for t in v2f[v]]) for v in range(nV)]
            out[tag + "_f2v_angle"] = [_wmean([angles[c] for c in cs_of[v]], [fa[cf[c]] for c in cs_of[v]]) for v in range(nV)]
            out[tag + "_sv2c"] = [va[cv[c]] for c in range(nK)]
            out[tag + "_sf2c"] = [fa[cf[c]] for c in range(nK)]
            out[tag + "_ac2v_uniform"] = [sum(ca[c] for c in cs_of[v]) / len(cs_of[v]) for v in range(nV)]
            out[tag + "_ac2v_sum"] = [sum(ca[c] for c in cs_of[v]) for v in range(nV)]
            out[tag + "_ac2v_angle"] = [_wmean([angles[c] for c in cs_of[v]], [ca[c] for c in cs_of[v]]) for v in range(nV)]
            out[tag + "_ac2f_uniform"] = [sum(ca[c] for c in cf_of[t]) / len(cf_of[t]) for t in range(len(Fs))]
            out[tag + "_ac2f_sum"] = [sum(ca[c] for c in cf_of[t]) for t in range(len(Fs))]
            out[tag + "_ac2f_angle"] = [_wmean([angles[c] for c in cf_of[t]], [ca[c] for c in cf_of[t]]) for t in range(len(Fs))]
        for key in [k for k in out if k.startswith("k_")]:
            out["r_" + key[2:]] = out[key]       # writing twice into the same output attribute gives the same answer
    return out


# =================================================================================================
# mesh transformations for the metamorphic runs
# =================================================================================================
def _corner_offsets(Fs):
    off, o = [], 0
    for f in Fs: off.append(o); o += len(f)
    return off, o


def renumbered(case, rng):
    """vertex permutation + element permutation; returns (V', X', attrs', maps)"""
    V, X = case["V"], case["X"]
    nV = len(V)
    perm = list(range(nV)); rng.shuffle(perm)             # old -> new
    xperm = list(range(len(X))); rng.shuffle(xperm)       # old element -> new element
    NV = [None] * nV
    for o, n in enumerate(perm): NV[n] = V[o]
    NX = [None] * len(X)
    for o, n in enumerate(xperm): NX[n] = [perm[v] for v in X[o]]
    attrs = case.get("attrs")
    cmap = None
    nattrs = None
    if case["t"] == "surf":
        off, nK = _corner_offsets(X)
        noff, _ = _corner_offsets(NX)
        cmap = [None] * nK                                 # old corner -> new corner
        for t, f in enumerate(X):
            for i in range(len(f)): cmap[off[t] + i] = noff[xperm[t]] + i
        if attrs:
            va = [None] * nV; fa = [None] * len(X); ca = [None] * nK
            for o, n in enumerate(perm): va[n] = attrs["va"][o]
            for o, n in enumerate(xperm): fa[n] = attrs["fa"][o]
            for o, n in enumerate(cmap): ca[n] = attrs["ca"][o]
            nattrs = {"va": va, "fa": fa, "ca": ca, "const": attrs["const"]}
    return NV, NX, nattrs, {"V": perm, "X": xperm, "C": cmap}


def _width(key):
    return 3 if REG[key][1] in ("p", "d") else 1


def _chunks(lst, w):
    return [lst[i:i + w] for i in range(0, len(lst), w)]


# =================================================================================================
# the oracle: the property stated directly on the implementation
# =================================================================================================
def gauss_bonnet_premises(V, X, E):
    """the explicit hypotheses of Props/C07Real.gauss_bonnet, evaluated by direct inspection (same definitions as the Lean
    predicates TriMesh, NonDegenerate, nBorderV, handshake 3F + E_b = 2E, V_b = E_b)"""
    nV, F, nE = len(V), len(X), len(E)
    sides = {(f[i], f[(i + 1) % len(f)]) for f in X for i in range(len(f))}
    border_v = {v for (a, b) in sides if (b, a) not in sides for v in (a, b)}          # isBorderVertex
    Eb = sum(1 for (a, b) in E if ((a, b) in sides) != ((b, a) in sides))
    P = [tuple(p) for p in V]
    alls = [(f[i], f[(i + 1) % len(f)]) for f in X for i in range(len(f))]
    El = [tuple(e) for e in E]
    return {"OrientedTriangulation": all(len(set(f)) == 3 for f in X) and len(set(alls)) == len(alls),
            "EdgesAreSides": all(El.count(sd) + El.count((sd[1], sd[0])) == 1 for sd in alls),
            "EdgesFromSides": all((e in sides) or ((e[1], e[0]) in sides) for e in El),
            "TriMesh": all(len(f) == 3 and all(0 <= v < nV for v in f) for f in X),
            "NonDegenerate": all(len({P[v] for v in f}) == 3 for f in X),
            "handshake": 3 * F + Eb == 2 * nE,
            "border_cycles": len(border_v) == Eb}


def _finding(key, what, detail):
    return {"key": key, "what": what, "detail": str(detail)[:400]}


def _fam(case):
    if case["t"] != "surf": return case["t"]
    ls = {len(f) for f in case["X"]}
    return "tri" if ls == {3} else ("quad" if ls == {4} else "poly")


# Name-keyed caches of the library (`if mesh.X.has_attribute(name): use it else compute`, by design): which geometric attribute a
# move of the vertices PRESERVES (Props/C07Hist: *_rigid theorems; similarity for angles/cotangents/unit normals). A careful caller
# drops the others through the public API before asking a READER of the cache again (theorem `drop_repairs`).
CACHES = {"angles": ("face_corners", "angles"), "cotan": ("face_corners", "cotan"), "fnormals": ("faces", "normals"),
          "area": ("faces", "area"), "volume": ("cells", "volume"), "vnormals": ("vertices", "normals")}
PRESERVED = {"translate": {"angles", "cotan", "fnormals", "area", "volume", "vnormals"},
             "rotate": {"angles", "cotan", "area", "volume"},
             "scale": {"angles", "cotan", "fnormals", "vnormals"},
             "vertex": set()}


def drop_caches(m, which):
    """delete the named cached attributes through the public container API (what a caller does after changing the geometry)"""
    for c in sorted(which):
        cont, name = CACHES[c]
        container = getattr(m, cont, None)
        if container is not None and container.has_attribute(name): container.delete_attribute(name)


DECOY = {"surf": ([[0.0, 0.0, 0.0], [3.0, 0.0, 0.5], [0.0, 2.0, 0.0], [3.0, 2.5, 1.0], [5.0, 1.0, 0.0], [1.5, 4.0, 0.5], [-1.0, 3.0, 0.25]],
                  [[0, 1, 2], [1, 3, 2], [1, 4, 3], [2, 3, 5, 6]]),
         "vol": ([[0.0, 0.0, 0.0], [2.0, 0.0, 0.0], [0.0, 3.0, 0.0], [0.0, 0.0, 1.5], [2.0, 3.0, 1.5]], [[0, 1, 2, 3], [1, 2, 3, 4]]),
         "poly": ([[0.0, 0.0, 0.0], [1.0, 2.0, 0.0], [3.0, 1.0, 1.0]], [[0, 1], [1, 2]])}


def _apply_move(m, mv):
    """move the vertices of a USED mesh with the library's own transformation functions (or a plain vertex assignment)"""
    import mouette as M
    from mouette.geometry import transform as TR
    k = mv["kind"]
    if k == "translate": TR.translate(m, M.Vec(*[float(c) for c in mv["t"]]))
    elif k == "scale": TR.scale(m, float(mv["s"]))
    elif k == "rotate":
        from scipy.spatial.transform import Rotation
        a, b, c, d = mv["q"]
        TR.rotate(m, Rotation.from_quat([b, c, d, a]))
    else:
        i = mv["i"] % len(m.vertices)
        m.vertices[i] = m.vertices[i] + M.Vec(*[float(c) for c in mv["d"]])


def _history(case):
    """HISTORIES ON ONE MESH OBJECT: every quantity computed a second time on a used mesh (other dense/persistent flags, same or
    other attribute names), and a third time after the vertices were moved, equals the computation on a fresh mesh."""
    out = []
    kind, V, X, opts, attrs, h = case["t"], case["V"], case["X"], case["opts"], case.get("attrs"), case["hist"]
    size = _size(V)
    amag = max([1.0] + [abs(float(x)) for x in (attrs["va"] + attrs["fa"] + attrs["ca"] + [attrs["const"]])]) if attrs else 1.0
    m = build_mesh(kind, V, X, case.get("rep", "vec"))
    optsP = dict(opts, persistent=True)
    observe(kind, V, X, optsP, attrs, mesh=m)                       # first use: everything persistent
    # STATE SHARED BETWEEN INSTANCES: the same computations on ANOTHER mesh in between must not change anything for this one
    dV, dX = DECOY[kind]
    observe(kind, dV, dX, optsP, None if kind != "surf" else {"va": [1.0] * len(dV), "fa": [2.0] * len(dX), "ca": [0.5] * sum(len(f) for f in dX), "const": 7.0})
    # persistent=True a second time under the SAME names (accumulators `x[k] += ..` must start from a fresh attribute)
    o2a = observe(kind, V, X, optsP, attrs, mesh=m)
    f2a = observe(kind, V, X, optsP, attrs, rep=case.get("rep", "vec"))
    opts2 = dict(opts, persistent=h["p2"], dense=h["d2"], angles_first=not opts.get("angles_first"))
    o2 = observe(kind, V, X, opts2, attrs, mesh=m, sfx=h["sfx2"])
    f2 = observe(kind, V, X, opts2, attrs, rep=case.get("rep", "vec"))
    for oo, ff, how in ((o2a, f2a, f"persistent again, same names, opts {optsP}"), (o2, f2, f"opts {opts2} name suffix {h['sfx2']!r}")):
        for key in REG:
            if key not in oo or key not in ff: continue
            bad = U.first_bad(oo[key], ff[key], _scale_for(key, size, amag))
            if bad:
                out.append(_finding(f"C07/history/second-call/{key}", f"{key}: a second computation on the same mesh differs from the computation on a fresh mesh",
                                    f"second call ({how}) index {bad[0]}: {bad[1]} vs fresh {bad[2]}"))
    for a in o2["_alias"]:
        out.append(_finding(f"C07/alias/{a.split(':')[1]}/{a.split(':')[0]}", "by-value check failed on the second call", a))
    _apply_move(m, h["move"])
    V3 = [[float(c) for c in m.vertices[i]] for i in range(len(V))]
    lost = set(CACHES) - PRESERVED[h["move"]["kind"]]
    if h["sfx3"] is None:
        # the caller asks for RECOMPUTATION, persistent under the same names: the computing functions must overwrite what is stored
        # (nothing is dropped, except 'angles' when `cotangent` would read it before `corner_angles` rewrites it)
        opts3 = optsP
        dropped = ({"angles"} & lost) if not opts3.get("angles_first") else set()
    else:
        # other names / other flags: the default-name caches are only READ; the caller drops those the move did not preserve
        opts3 = opts2
        dropped = lost
    drop_caches(m, dropped)
    o3 = observe(kind, V3, X, opts3, attrs, mesh=m, sfx=h["sfx3"])
    f3 = observe(kind, V3, X, opts3, attrs)
    size3 = max(size, _size(V3))
    for key in REG:
        if key not in o3 or key not in f3: continue
        bad = U.first_bad(o3[key], f3[key], _scale_for(key, size3, amag))
        if bad:
            out.append(_finding(f"C07/history/after-move/{key}", f"{key}: recomputed after the vertices were moved (caches not preserved by the move dropped by "
                                "the caller), differs from the computation on a fresh mesh",
                                f"{key} move {h['move']} dropped {sorted(dropped)} opts {opts3} suffix {h['sfx3']!r} index {bad[0]}: {bad[1]} vs fresh {bad[2]}"))
    return out


# =================================================================================================
# needle family: a non-degenerate, well-conditioned RIGHT-ANGLED needle triangle (sharp angle eps in 1e-2 .. 1e-7 at one vertex, right
# angle at the next one, so that the circumcentre is the midpoint of the hypotenuse: condition number ~1), next to an ordinary triangle,
# with the needle face written in its three cyclic orders, under the case's rigid motion.  The circumcentre (and area, barycentre) must
# equal the textbook value (exact Fractions on the float coordinates actually handed over) RELATIVE to the circumradius / magnitude.
# The unchanged tree's error is ~1.5e-15/eps (measured: 1.4e-8 at eps = 1e-7); tolerance max(1e-9, 1e-13/eps).
# =================================================================================================
NEEDLE_EPS = [1e-2, 1e-4, 1e-6, 3e-7, 1e-7]


def _needle(case):
    import mouette as M
    A = M.attributes
    nd = case["needle"]
    eps, L, kf = float(nd["eps"]), float(nd["L"]), float(nd["k"])
    P0 = [[0.0, 0.0, 0.0], [L, 0.0, 0.0], [L, L * eps * kf, 0.0], [L / 2, -0.75 * L, 0.0]]
    P = U.apply_motion(P0, nd["q"], nd["t"]) if nd.get("q") else P0
    P = [[float(c) for c in p] for p in P]
    out = []
    tol = max(1e-9, 1e-13 / eps)
    opts = case.get("opts", {})
    for rot in range(3):
        f0 = [(rot + i) % 3 for i in range(3)]
        F = [f0, [0, 3, 1]]
        m = build_mesh("surf", P, F, "vec")
        E = [U.fvec(p) for p in P]
        for key, fn, width in (("fcirc", A.face_circumcenter, 3), ("farea", A.face_area, 1), ("fbary", A.face_barycenter, 3)):
            try:
                a = fn(m, persistent=bool(opts.get("persistent")), dense=bool(opts.get("dense", True)))
                got = _alist(a, len(F), width)[:width]
            except Exception as e:  # noqa
                out.append(_finding(f"C07/needle/{key}/raises", f"{key} raises on a non-degenerate right-angled needle triangle (sharp angle {eps:g} rad, "
                                    "circumcentre = midpoint of the hypotenuse)", f"face written {f0}: {type(e).__name__}: {e}"))
                continue
            a_, b_, c_ = (E[i] for i in f0)
            ab, ac = U.vsub(b_, a_), U.vsub(c_, a_)
            n = U.vcross(ab, ac)
            if key == "fcirc":
                w = U.vcross(U.vsub(U.vscale(U.vdot(ab, ab), ac), U.vscale(U.vdot(ac, ac), ab)), n)
                ref = [float(x) for x in U.vadd(a_, U.vscale(1 / (2 * U.vdot(n, n)), w))]
                mag = math.sqrt(float(U.vdot(U.vsub(U.fvec(ref), a_), U.vsub(U.fvec(ref), a_))))
            elif key == "farea":
                ref = [math.sqrt(float(U.vdot(n, n))) / 2]; mag = ref[0]
            else:
                ref = [float(x) / 3 for x in U.vadd(U.vadd(a_, b_), c_)]; mag = max(L, max(abs(x) for x in ref))
            err = max(abs(g - r) for g, r in zip(got, ref)) / mag if all(g == g for g in got) else float("inf")
            if not err <= tol:
                out.append(_finding(f"C07/needle/{key}", f"{key} of a non-degenerate right-angled needle triangle differs from its textbook value "
                                    "(relative to the circumradius / magnitude)", f"sharp angle {eps:g}, face written {f0}: {got} vs {ref} (relative error {err:.3g}, tolerance {tol:.3g})"))
    return out


def oracle(case):
    out = []
    kind, V, X, opts, attrs = case["t"], case["V"], case["X"], case["opts"], case.get("attrs")
    _set_tol(case)
    obs = _obs(case)
    if case.get("needle"): out += _needle(case)
    if case.get("rep") in ("int32", "int16"):
        # narrow integer coordinates: same values as with float coordinates (defect fixed at mesh construction; reported under its own
        # key if it returns, before the other clauses flood)
        ref = observe(kind, V, X, opts, attrs)
        size0 = _size(V)
        for key in REG:
            if key in obs and key in ref and U.first_bad(obs[key], ref[key], _scale_for(key, size0, 50.0)):
                return [_finding("C07/repr/int32-overflow", "with 32/16-bit integer vertex coordinates the quantities differ from those of the same mesh "
                                 "with float coordinates (integer overflow in dot/cross products)", f"{key}: {str(obs[key])[:120]} vs {str(ref[key])[:120]}")]
    for a in obs.get("_alias", []):
        out.append(_finding(f"C07/alias/{a.split(':')[1]}/{a.split(':')[0]}", "by-value check of what the mesh / the caller's attributes hold failed", a))
    if case.get("hist"):
        out += _history(case)
    E = [tuple(e) for e in obs["E"]]
    size = _size(V)
    amag = max([1.0] + [abs(float(x)) for x in (attrs["va"] + attrs["fa"] + attrs["ca"] + [attrs["const"]])]) if attrs else 1.0
    fam = _fam(case)
    # ---- edges are the sides of the elements (the numbering is the implementation's; its content is checked)
    want = set()
    if kind == "surf":
        for f in X:
            for i in range(len(f)): want.add(frozenset((f[i], f[(i + 1) % len(f)])))
    elif kind == "vol":
        for c in X:
            for a in c:
                for b in c:
                    if a != b: want.add(frozenset((a, b)))
    else:
        want = {frozenset(e) for e in X}
    if {frozenset(e) for e in E} != want or len(E) != len(want):
        out.append(_finding(f"C07/{kind}/edges-not-sides", "mesh.edges is not the set of element sides", f"{len(E)} vs {len(want)}"))
        return out
    # ---- 1. every quantity equals its textbook definition
    tb = textbook(kind, V, X, E, opts, attrs)
    for key, exp in tb.items():
        if key.startswith("_"): continue
        got = obs.get(key)
        if got is None: continue
        if isinstance(got, str) and "FloatingPointError" in got and isinstance(exp, list) and any(isinstance(x, float) and x != x for x in exp):
            # degenerate for THIS weighting: the weighted normals cancel at some vertex (the textbook value is waived there as NaN)
            # and the implementation refuses to normalise a null vector; the statement quantifies over non-degenerate meshes
            continue
        bad = U.first_bad(got, exp, _scale_for(key, size, amag))
        if bad:
            fkey, what = f"C07/def/{key}/{fam}", f"{key} differs from its textbook definition ({fam} mesh)"
            if key.startswith("r_"):
                fkey, what = f"C07/reuse/{key[2:]}", f"{key[2:]}: a second call writing into the same output attribute accumulates instead of overwriting"
            if key.endswith("_big"):
                fkey, what = f"C07/def/{key}", f"{key[:-4]} with n larger than the number of elements is not the mean"
            if "planar-nonconvex" in tb.get("_area_kinds", []):
                # root causes on planar NON-CONVEX polygons: quad_area averages the two diagonal splits (one of them is wrong
                # there), face_normals uses the first corner (flipped when that corner is reflex)
                if key in NORMAL_DEP:
                    fkey, what = "C07/def/fnrm/nonconvex-polygon", "face normal (and what is interpolated from it) is flipped on a planar polygon whose first corner is reflex"
                elif key in AREA_DEP:
                    fkey, what = "C07/def/farea/nonconvex-polygon", "face area (and what is built on it) of a planar non-convex polygon is not its area"
            out.append(_finding(fkey, what, f"{key} index {bad[0]}: impl {bad[1]} textbook {bad[2]} opts {opts}"))
    if kind == "surf":
        # unit normals have unit length, polygons included
        if not isinstance(obs["fnrm"], str):
            for t, n in enumerate(_chunks(obs["fnrm"], 3)):
                if abs(sum(c * c for c in n) - 1) > 1e-9 * _TOL["f"]:
                    out.append(_finding(f"C07/def/fnrm-unit/{fam}", "face normal is not a unit vector", f"face {t}: {n}")); break
        # ---- 2. triangle angle sums and Gauss-Bonnet
        if fam == "tri" and not isinstance(obs["cangle"], str):
            for t in range(len(X)):
                s = sum(obs["cangle"][3 * t:3 * t + 3])
                if abs(s - math.pi) > 1e-9 * _TOL["f"]:
                    out.append(_finding("C07/anglesum", "corner angles of a triangle do not sum to pi", f"face {t}: {s}")); break
            if not opts.get("zb") and not isinstance(obs["ad"], str):
                st = G.surface_stats(len(V), X)
                # premises of the Lean theorem gauss_bonnet, re-checked on this mesh (a failure is a generator/harness problem,
                # i.e. the theorem would not apply; it is reported as such, never silently skipped)
                prem = gauss_bonnet_premises(V, X, E)
                if st["manifold"] and st["unused"] == 0 and not all(prem.values()):
                    raise RuntimeError(f"gauss_bonnet premises fail on a generated manifold mesh: {prem} tag={case.get('tag')}")
                if st["manifold"] and st["unused"] == 0:
                    tot = sum(obs["ad"])
                    if abs(tot - 2 * math.pi * st["chi"]) > 1e-8 * max(1, len(V)) * _TOL["f"]:
                        out.append(_finding("C07/gauss-bonnet", "angle defects do not sum to 2*pi*chi", f"sum {tot} chi {st['chi']} tag {case.get('tag')}"))
        # ---- 3. interpolating a constant returns the constant
        if attrs:
            c0 = float(attrs["const"])
            for key, got in obs.items():
                if not key.startswith("k_") or key.endswith("_sum"): continue
                if isinstance(got, str):
                    out.append(_finding(f"C07/const/{key}/raises", f"{key[2:]} of a constant raised", got)); continue
                bad = [x for x in got if abs(x - c0) > 1e-9 * max(1, abs(c0)) * _TOL["f"]]
                if bad:
                    out.append(_finding(f"C07/const/{key}", f"{key[2:]} of a constant attribute is not that constant", f"{bad[:3]} vs {c0}"))
    # vertex-normal keys whose weighted normals cancel exactly at some vertex of THIS mesh (textbook waived as NaN, the implementation
    # raises FloatingPointError when normalising the zero vector): ill-conditioned, rounding after a motion / scaling decides: no clause
    waived = {key for key, exp in tb.items() if isinstance(obs.get(key), str) and "FloatingPointError" in obs[key]
              and isinstance(exp, list) and any(isinstance(x, float) and x != x for x in exp)}
    # ---- 4. metamorphic runs on the implementation
    mrng = random.Random(case.get("mseed", 0))
    for which in case.get("meta", []):
        if which == "motion":
            q, t = case["motion"]["q"], case["motion"]["t"]
            V2 = U.apply_motion(V, q, t)
            o2 = observe(kind, V2, X, opts, attrs)
            R = [[float(c) for c in r] for r in U.quat_rot(q)]
            tt = [float(c) for c in t]
            size2 = max(size, _size(V2))

            def mapped(key, vals):
                k = REG[key][1]
                if k == "s" or isinstance(vals, str): return vals
                res = []
                for p in _chunks(vals, 3):
                    r = [sum(R[i][j] * p[j] for j in range(3)) for i in range(3)]
                    if k == "p": r = [r[i] + tt[i] for i in range(3)]
                    res += r
                return res
            for key in REG:
                if key not in obs or key not in o2 or key in waived: continue
                if o2.get("E") != obs.get("E") and REG[key][0] in ("E", "G*"): continue
                bad = U.first_bad(o2[key], mapped(key, obs[key]), _scale_for(key, size2, amag))
                if bad:
                    out.append(_finding(f"C07/motion/{key}/{fam}", f"{key} is not invariant/equivariant under a rigid motion",
                                        f"q={q} t={t} index {bad[0]}: moved {bad[1]} expected {bad[2]}"))
        elif which == "scale":
            k = case["scale"]
            s = 2.0 ** k
            V2 = [[c * s for c in p] for p in V]
            o2 = observe(kind, V2, X, opts, attrs)
            for key in REG:
                if key not in obs or key not in o2 or key in waived: continue
                # compared at the scale of the ORIGINAL mesh (the scaled result divided by s^d): a tolerance relative to the magnitude of
                # the values, also for the extreme factors 2^-23 (~1e-7) and 2^20 (~1e6)
                exp = obs[key]
                d = REG[key][2]
                got = o2[key] if isinstance(o2[key], str) else [x / s ** d for x in o2[key]]
                bad = U.first_bad(got, exp, _scale_for(key, size, amag))
                if bad:
                    out.append(_finding(f"C07/scale/{key}/{fam}", f"{key} does not scale with the power {REG[key][2]} of a uniform scale factor",
                                        f"s=2^{k} index {bad[0]}: scaled result / s^{d} = {bad[1]}, expected {bad[2]}"))
        elif which == "renum":
            V2, X2, attrs2, maps = renumbered(case, mrng)
            o2 = observe(kind, V2, X2, opts, attrs2)
            E2 = {frozenset(e): i for i, e in enumerate(tuple(e) for e in o2["E"])}
            emap = [E2.get(frozenset((maps["V"][a], maps["V"][b]))) for a, b in E]
            for key in REG:
                if key not in obs or key not in o2 or key in waived: continue
                dom = REG[key][0]
                if dom == "G*": continue
                a, b = obs[key], o2[key]
                if isinstance(a, str) or isinstance(b, str):
                    exp, got = a, b
                else:
                    w = _width(key)
                    ca, cb = _chunks(a, w), _chunks(b, w)
                    mp = {"E": emap, "V": maps["V"], "F": maps["X"], "K": maps["X"], "C": maps["C"], "G": [0]}[dom]
                    if any(m is None for m in mp) or len(mp) != len(ca) or len(cb) != len(ca):
                        out.append(_finding(f"C07/renum/{key}/shape", f"{key}: element sets differ after renumbering", "")); continue
                    exp = [x for ch in ca for x in ch]
                    got = [x for o in range(len(ca)) for x in cb[mp[o]]]
                bad = U.first_bad(got, exp, _scale_for(key, size, amag))
                if bad:
                    out.append(_finding(f"C07/renum/{key}/{fam}", f"{key} changes under renumbering of vertices/elements",
                                        f"index {bad[0]}: renumbered {bad[1]} original {bad[2]}"))
        elif which == "opts":
            base = {"persistent": False, "dense": True, "zb": opts.get("zb"), "angles_first": False}
            o2 = observe(kind, V, X, base, attrs)
            for key in REG:
                if key not in obs or key not in o2 or key in waived: continue
                bad = U.first_bad(obs[key], o2[key], _scale_for(key, size, amag))
                if bad:
                    out.append(_finding(f"C07/opts/{key}", f"{key} depends on the persistent/dense/call-order options",
                                        f"opts {opts} index {bad[0]}: {bad[1]} vs default-options {bad[2]}"))
    # on meshes with a planar non-convex polygon the cancelling/flipped normals also break the metamorphic relations
    # (exact cancellation of +n and -n is destroyed by rounding): same root cause, same key
    if "planar-nonconvex" in tb.get("_area_kinds", []):
        for f in out:
            parts = f["key"].split("/")
            if len(parts) >= 3 and parts[1] in ("motion", "scale", "renum", "opts"):
                if parts[2] in NORMAL_DEP: f["key"] = "C07/def/fnrm/nonconvex-polygon"
                elif parts[2] in AREA_DEP: f["key"] = "C07/def/farea/nonconvex-polygon"
    # one finding per key
    seen, res = set(), []
    for f in out:
        if f["key"] not in seen: seen.add(f["key"]); res.append(f)
    return res


# =================================================================================================
# model request / comparison
# =================================================================================================
def _pts(V):
    return " ".join(U.frac_str(c) for p in V for c in p)


def model_request(case):
    obs = _obs(case)
    E = obs["E"]
    V, X = case["V"], case["X"]
    es = f"{len(E)} " + " ".join(f"{a} {b}" for a, b in E) if E else "0"
    if case["t"] == "poly":
        return f"poly {len(V)} {_pts(V)} {es}"
    xs = f"{len(X)} " + " ".join(f"{len(x)} " + " ".join(map(str, x)) for x in X)
    if case["t"] == "vol":
        return f"vol {len(V)} {_pts(V)} {xs} {es}"
    a = case["attrs"]
    va = f"{len(a['va'])} " + " ".join(U.frac_str(x) for x in a["va"])
    fa = f"{len(a['fa'])} " + " ".join(U.frac_str(x) for x in a["fa"])
    return f"surf {1 if case['opts'].get('zb') else 0} {len(V)} {_pts(V)} {xs} {es} {va} {fa}"


class _Toks:
    def __init__(self, s): self.t = s.split(); self.i = 0
    def nat(self): self.i += 1; return int(self.t[self.i - 1])
    def rat(self): self.i += 1; return Fr(self.t[self.i - 1])
    def rats(self): return [self.rat() for _ in range(self.nat())]
    def nats(self): return [self.nat() for _ in range(self.nat())]
    def is_err(self): return self.t[self.i:self.i + 1] == ["err"]


def parse_reply(rep):
    secs = {}
    for s in rep.split(" | "):
        name, _, body = s.partition(" ")
        secs[name] = body
    return secs


def from_model(case, rep):
    """assemble the expected floats from the model's exact rationals and incidence structure (sqrt/atan2 applied here)"""
    S = parse_reply(rep)
    ERR = "err:Other(Exception)"
    out = {}
    out["elen"] = [U.fsqrt(q) for q in _Toks(S["len2"]).rats()]
    out["emid"] = [float(q) for q in _Toks(S["mid"]).rats()]
    out["deg"] = [float(n) for n in _Toks(S["deg"]).nats()]
    out["g_mel"] = [sum(out["elen"]) / len(out["elen"])]
    out["g_mel_big"] = out["g_mel"]
    out["g_bary"] = [float(q) for q in _Toks(S["gbary"]).rats()]
    if case["t"] == "poly": return out
    if case["t"] == "vol":
        out["cvol"] = [float(q) for q in _Toks(S["vol"]).rats()]
        out["cbary"] = [float(q) for q in _Toks(S["cbary"]).rats()]
        out["g_mcv"] = [sum(out["cvol"]) / len(out["cvol"])]
        out["g_mcv_big"] = out["g_mcv"]
        return out
    nV = len(case["V"]); nF = len(case["X"])
    tk = _Toks(S["area"]); areas = []
    for _ in range(tk.nat()):
        w = tk.rat(); ts = tk.rats()
        areas.append(float(w) * sum(U.fsqrt(t) for t in ts))
    out["farea"] = areas
    nd = _chunks([q for q in _Toks(S["nrm"]).rats()], 3)
    fn = [U.unit(n) for n in nd]
    out["fnrm"] = [c for n in fn for c in n]
    out["fbary"] = [float(q) for q in _Toks(S["bary"]).rats()]
    out["fcirc"] = ERR if _Toks(S["circ"]).is_err() else [float(q) for q in _Toks(S["circ"]).rats()]
    cs = _chunks(_Toks(S["cs"]).rats(), 2)
    angles = [math.atan2(U.fsqrt(c2), float(d)) for c2, d in cs]
    out["cangle"] = angles
    if _Toks(S["cot"]).is_err():
        out["ccot"] = ERR; out["cotw"] = ERR
    else:
        cot = [float(d) / U.fsqrt(c2) for c2, d in _chunks(_Toks(S["cot"]).rats(), 2)]
        out["ccot"] = cot
        tk = _Toks(S["cotw"])
        out["cotw"] = [sum(cot[c] / 2 for c in tk.nats()) for _ in range(tk.nat())]
    tk = _Toks(S["v2f"]); v2f = [tk.nats() for _ in range(tk.nat())]
    cv = _Toks(S["cnrv"]).nats(); cf = _Toks(S["cnrf"]).nats()
    cs_of = defaultdict(list); cf_of = defaultdict(list)
    for c, v in enumerate(cv): cs_of[v].append(c)
    for c, t in enumerate(cf): cf_of[t].append(c)
    for w in WEIGHTS:
        res = []
        for v in range(nV):
            if w == "uniform": fl = v2f[v]; ws = [1.0] * len(fl)
            elif w == "area": fl = v2f[v]; ws = [areas[t] for t in fl]
            else: fl = [cf[c] for c in cs_of[v]]; ws = [angles[c] for c in cs_of[v]]
            res += _normalize_sum([fn[t] for t in fl], ws)
        out["vn_" + w] = res
    if _Toks(S["dfs"]).is_err():
        out["ad"] = ERR
    else:
        tk = _Toks(S["dfs"]); ad = []
        for _ in range(tk.nat()):
            k = tk.nat(); ad.append(k * math.pi - sum(angles[c] for c in tk.nats()))
        out["ad"] = ad
    nE = len(out["elen"]); n_half = max(1, nE // 2)
    out["g_mel_n"] = [sum(out["elen"][:n_half]) / n_half]
    out["g_mfa"] = [sum(areas) / nF]; out["g_ta"] = [sum(areas)]; out["g_mfa_big"] = out["g_mfa"]
    out["g_chi"] = [float(nV - nE + nF)]
    a = case["attrs"]
    va, fa, ca = [float(x) for x in a["va"]], [float(x) for x in a["fa"]], [float(x) for x in a["ca"]]
    out["i_v2f"] = [float(q) for q in _Toks(S["iv2f"]).rats()]
    out["i_f2v_sum"] = [float(q) for q in _Toks(S["if2vs"]).rats()]
    out["i_f2v_uniform"] = [float(q) for q in _Toks(S["if2vu"]).rats()]
    out["i_f2v_area"] = [_wmean([areas[t] for t in v2f[v]], [fa[t] for t in v2f[v]]) for v in range(nV)]
    out["i_f2v_angle"] = [_wmean([angles[c] for c in cs_of[v]], [fa[cf[c]] for c in cs_of[v]]) for v in range(nV)]
    out["i_sv2c"] = [va[v] for v in cv]; out["i_sf2c"] = [fa[t] for t in cf]
    out["i_ac2v_uniform"] = [_wmean([1.0] * len(cs_of[v]), [ca[c] for c in cs_of[v]]) for v in range(nV)]
    out["i_ac2v_sum"] = [sum(ca[c] for c in cs_of[v]) for v in range(nV)]
    out["i_ac2v_angle"] = [_wmean([angles[c] for c in cs_of[v]], [ca[c] for c in cs_of[v]]) for v in range(nV)]
    out["i_ac2f_uniform"] = [_wmean([1.0] * len(cf_of[t]), [ca[c] for c in cf_of[t]]) for t in range(nF)]
    out["i_ac2f_sum"] = [sum(ca[c] for c in cf_of[t]) for t in range(nF)]
    out["i_ac2f_angle"] = [_wmean([angles[c] for c in cf_of[t]], [ca[c] for c in cf_of[t]]) for t in range(nF)]
    return out


def compare(case, model, impl):
    if model == "bad-request":
        return "model rejected the request"
    exp = from_model(case, model)
    _set_tol(case)
    size = _size(case["V"])
    a = case.get("attrs")
    amag = max([1.0] + [abs(float(x)) for x in (a["va"] + a["fa"] + a["ca"])]) if a else 1.0
    for key, e in exp.items():
        got = impl.get(key)
        if got is None: return f"implementation observation lacks {key}"
        if isinstance(got, str) and "FloatingPointError" in got and isinstance(e, list) and any(isinstance(x, float) and x != x for x in e):
            continue    # degenerate for this weighting (weighted normals cancel at a vertex: NaN in the model, refusal in the code)
        bad = U.first_bad(got, e, _scale_for(key, size, amag))
        if bad:
            return f"{key}[{bad[0]}]: implementation {bad[1]} vs model {bad[2]}"
    return None


# =================================================================================================
# cases
# =================================================================================================
def _well_conditioned(case):
    P = [U.fvec(p) for p in case["V"]]
    if case["t"] == "surf":
        for f in case["X"]:
            if U.min_sin_triangle(P, f) < MIN_SIN: return False
            if len(f) > 3:
                ps = [P[i] for i in f]
                if U.vnorm2(_vector_area(ps)) == 0: return False
                if not _planar(ps) and _has_reflex(ps): return False    # folded non-planar polygon: no textbook normal/area
        return True
    if case["t"] == "vol":
        for c in case["X"]:
            a, b, cc, d = (P[i] for i in c)
            if abs(U.det3(U.vsub(b, a), U.vsub(cc, a), U.vsub(d, a))) < Fr(1, 1000): return False
        return True
    return all(P[a] != P[b] for a, b in case["X"])


def _opts(rng):
    return {"persistent": rng.random() < 0.5, "dense": rng.random() < 0.6, "zb": rng.random() < 0.4, "angles_first": rng.random() < 0.5}


def _dy(rng, lo, hi, den=8):
    return rng.randint(lo * den, hi * den) / den


def _decorate(rng, case, metas):
    case["opts"] = _opts(rng)
    case["meta"] = metas
    case["mseed"] = rng.randrange(1 << 30)
    case["motion"] = {"q": list(rng.choice(U.QUATS[1:])), "t": [_dy(rng, -5, 5), _dy(rng, -5, 5), _dy(rng, -5, 5)]}
    case["scale"] = rng.choice([-3, -2, -1, 1, 2, 3, 5, -23, -23, 20])
    # representation of the vertex coordinates handed to the mesh (same values): Vec / list / tuple / ndarray / float32 / python ints / int64
    rep = rng.choice(REPS) if rng.random() < 0.55 else "vec"
    if case.get("tag") in ("dart",): rep = "vec"
    if rep in INT_REPS:
        case["V"] = [[float(round(c * 64)) for c in p] for p in case["V"]]      # integer-valued coordinates (same shape, scaled by 64)
    case["rep"] = rep
    # history on one mesh object: second computation with other flags / names, then after a move of the vertices
    if rng.random() < 0.4:
        mk = rng.choice(["translate", "rotate", "scale", "vertex"])
        sz = _size(case["V"])
        mv = {"kind": mk, "t": [_dy(rng, -3, 3), _dy(rng, -3, 3), _dy(rng, -3, 3)], "s": rng.choice([0.5, 2.0, 4.0]),
              "q": list(rng.choice(U.QUATS[1:])), "i": rng.randrange(1 << 16),
              "d": [rng.choice([-1, 1]) * sz / 64, rng.choice([-1, 1]) * sz / 128, sz / 64]}
        case["hist"] = {"p2": rng.random() < 0.6, "d2": rng.random() < 0.5, "sfx2": rng.choice([None, "_b"]), "sfx3": rng.choice([None, "_c"]), "move": mv}
    if case["t"] == "surf":
        nK = sum(len(f) for f in case["X"])
        case["attrs"] = {"va": [_dy(rng, -4, 4) for _ in case["V"]], "fa": [_dy(rng, -4, 4) for _ in case["X"]],
                         "ca": [_dy(rng, -4, 4) for _ in range(nK)], "const": rng.choice([1.0, -2.5, 3.25, 0.75])}
        if rng.random() < 0.15:
            case["needle"] = {"eps": rng.choice(NEEDLE_EPS), "L": rng.choice([0.5, 1.0, 2.0, 3.0]), "k": rng.choice([0.75, 1.0, 1.25]),
                              "q": list(rng.choice(U.QUATS)), "t": [_dy(rng, -3, 3), _dy(rng, -3, 3), _dy(rng, -3, 3)]}
    return case


def _surface_case(rng, max_faces, tri_only):
    for _ in range(40):
        s = G.random_surface(rng, max_faces=max_faces, tri_only=tri_only)
        case = {"t": "surf", "V": s["V"], "X": s["F"], "tag": s["tag"]}
        if _well_conditioned(case): return case
    V, F = G.grid(rng, 3, 3, tri=True, jitter=False)
    return {"t": "surf", "V": [[float(c) for c in p] for p in V], "X": F, "tag": "fallback-grid"}


def _flat_case(rng, tri):
    V, F = G.grid(rng, rng.randint(2, 4), rng.randint(2, 4), tri=tri, jitter=True, flat=True)
    if rng.random() < 0.5 and not tri:
        V, F = G.merge_polygons(rng, V, F, 1)
    V, F = G.compact(V, F)
    return {"t": "surf", "V": [[float(c) for c in p] for p in V], "X": F, "tag": "flat-grid"}


def _dart_case(rng):
    """planar NON-CONVEX quad (a dart) with a random start vertex, optionally with a triangle glued on one side"""
    base = [[0.0, 0.0, 0.0], [2.0, 0.0, 0.0], [0.5, 0.5, 0.0], [0.0, 2.0, 0.0]]
    k = rng.randrange(4)
    f = [(i + k) % 4 for i in range(4)]
    V, X = base, [f]
    if rng.random() < 0.5:
        V = base + [[2.0, 2.0, 0.0]]; X = [f, [1, 4, 2]]
    return {"t": "surf", "V": V, "X": X, "tag": "dart"}


def _ngon_hist_case(rng):
    """polygon faces with 5+ vertices (fan areas are ACCUMULATED per face), always with a history: persistent twice under the same
    names, with and without a move in between"""
    for _ in range(30):
        if rng.random() < 0.5:
            n = rng.randint(5, 7)
            V = [[G.dy(math.cos(2 * math.pi * i / n) * 2), G.dy(math.sin(2 * math.pi * i / n) * 2), G.dy(rng.uniform(-.3, .3))] for i in range(n)]
            case = {"t": "surf", "V": V, "X": [list(range(n))], "tag": "ngon-hist"}
        else:
            V, F = G.grid(rng, 3, rng.randint(3, 4), tri=False)
            V, F = G.merge_polygons(rng, V, F, rng.randint(1, 2))
            V, F = G.compact(V, F)
            case = {"t": "surf", "V": [[float(c) for c in p] for p in V], "X": F, "tag": "ngon-hist"}
        if max(len(f) for f in case["X"]) >= 5 and _well_conditioned(case): return case
    return None


def cases(rng, tier):
    for _ in range(6 if tier == "quick" else 40):
        c = _ngon_hist_case(rng)
        if c is None: continue
        c = _decorate(rng, c, ["opts"])
        c["rep"] = "vec" if c.get("rep") in INT_REPS + ("float32",) else c["rep"]
        if c["rep"] == "vec": c["V"] = [[float(x) for x in p] for p in c["V"]]
        sz = _size(c["V"])
        c["hist"] = {"p2": True, "d2": rng.random() < 0.5, "sfx2": None, "sfx3": None,
                     "move": {"kind": rng.choice(["translate", "rotate", "scale"]), "t": [_dy(rng, -3, 3), _dy(rng, -3, 3), _dy(rng, -3, 3)],
                              "s": rng.choice([0.5, 2.0]), "q": list(rng.choice(U.QUATS[1:])), "i": 0, "d": [sz / 64, sz / 128, sz / 64]}}
        yield c
    n_s, n_v, n_p, mf = (230, 50, 24, 48) if tier == "quick" else (2500, 400, 150, 200)
    allm = ["motion", "scale", "renum", "opts"]
    for i in range(n_s):
        tri_only = rng.random() < 0.6
        r = rng.random()
        case = _dart_case(rng) if r < 0.03 else _flat_case(rng, tri_only) if r < 0.12 else _surface_case(rng, rng.choice([6, 12, 24, mf]), tri_only)
        if not _well_conditioned(case): continue
        metas = allm if (tier != "quick" or i % 3 == 0) else [allm[i % 4], allm[(i // 4 + 1) % 4]]
        yield _decorate(rng, case, metas)
    for i in range(n_v):
        for _ in range(20):
            v = G.random_tets(rng, max_cells=rng.choice([6, 24, 48 if tier == "quick" else 162]), orient=rng.choice(["positive", "negative", "mixed"]))
            case = {"t": "vol", "V": v["V"], "X": v["C"], "tag": v["tag"]}
            if _well_conditioned(case): break
        yield _decorate(rng, case, allm)
    for i in range(n_p):
        p = G.random_polyline(rng, 20)
        case = {"t": "poly", "V": p["V"], "X": p["E"], "tag": p["tag"]}
        if not _well_conditioned(case): continue
        yield _decorate(rng, case, allm)


def nontrivial(case, obs):
    return len(case["X"]) >= 1 and not isinstance(obs.get("elen"), str) and len(obs["E"]) >= 1


def classify(case, obs):
    ks = ["kind:" + case["t"], "fam:" + _fam(case), "tag:" + str(case.get("tag", "")).split("+")[0].split("/")[0]]
    n = len(case["X"])
    ks.append("size:" + ("1" if n == 1 else "2-8" if n <= 8 else "9-32" if n <= 32 else "33-128" if n <= 128 else ">128"))
    o = case["opts"]
    ks.append(f"opts:P{int(o['persistent'])}D{int(o['dense'])}Z{int(o['zb'])}A{int(o['angles_first'])}")
    ks += ["meta:" + m for m in case.get("meta", [])]
    ks.append("rep:" + case.get("rep", "vec"))
    if case.get("needle"): ks.append(f"needle:eps={case['needle']['eps']:g}")
    if case.get("hist"):
        h = case["hist"]
        ks.append("hist:move-" + h["move"]["kind"]); ks.append(f"hist:second-P{int(h['p2'])}D{int(h['d2'])}-{'same' if h['sfx2'] is None else 'other'}-name")
    if case["t"] == "surf":
        st = G.surface_stats(len(case["V"]), case["X"])
        ks.append("border:" + ("yes" if st["border_edges"] else "no")); ks.append(f"chi:{st['chi']}")
    ks += [f"err:{k}" for k, v in obs.items() if isinstance(v, str)]
    return ks


def describe(case):
    return {"t": case["t"], "tag": case.get("tag"), "nV": len(case["V"]), "nX": len(case["X"]), "opts": case["opts"], "meta": case.get("meta"),
            "rep": case.get("rep"), "hist": case.get("hist")}


def shrink(case, still):
    """drop elements (keeping the used vertices compact) while the finding persists"""
    cur = case
    X = list(case["X"])
    i = 0
    while i < len(X) and len(X) > 1:
        trial_X = X[:i] + X[i + 1:]
        used = sorted({v for x in trial_X for v in x})
        mp = {o: n for n, o in enumerate(used)}
        t = dict(cur)
        t["V"] = [case["V"][o] for o in used]
        t["X"] = [[mp[v] for v in x] for x in trial_X]
        if case["t"] == "surf":
            nK = sum(len(f) for f in t["X"])
            a = case["attrs"]
            t["attrs"] = {"va": [a["va"][o] for o in used], "fa": (a["fa"][:i] + a["fa"][i + 1:])[:len(trial_X)] if len(a["fa"]) == len(X) else a["fa"][:len(trial_X)],
                          "ca": a["ca"][:nK], "const": a["const"]}
        ok = False
        try:
            _CACHE.clear()
            ok = still(t)
        except Exception:  # noqa
            ok = False
        if ok:
            case = t; cur = t; X = trial_X
        else:
            i += 1
    _CACHE.clear()
    return cur


def search_on_break(rng, broken, mismatches):
    for _ in range(60):
        yield _decorate(rng, _surface_case(rng, 24, rng.random() < 0.7), ["motion", "scale", "renum", "opts"])
    for _ in range(10):
        v = G.random_tets(rng, 24, "mixed")
        yield _decorate(rng, {"t": "vol", "V": v["V"], "X": v["C"], "tag": v["tag"]}, ["motion", "scale", "renum"])


# =================================================================================================
# translated fragments: the two index tables
# =================================================================================================
def _stub(ns, failed):
    """Generated file written when a translation site of the CURRENT tree raised: no definitions, only the reasons"""
    why = "\n".join("  " + f["site"] + ": " + str(f.get("detail", "")).replace("-/", "- /")[:300] for f in failed)
    return ("/- STUB: the translator could not read the current source tree; no definition is emitted, so every bridge fails to build.\n"
            + why + "\n-/\nnamespace Mouette.Generated." + ns + "\nend Mouette.Generated." + ns + "\n")


def translate():
    sites = []
    body = ["namespace Mouette.Generated.C07\n"]

    def cot_table():
        tree, _ = T.load("mouette/attributes/attr_corners.py")
        fn = T.find_def(tree, "cotangent")
        rows = {}
        names = None
        for node in ast.walk(fn):
            if isinstance(node, ast.For) and isinstance(node.target, ast.Tuple) and len(node.target.elts) == 2 \
                    and isinstance(node.target.elts[1], ast.Tuple):
                idx = node.target.elts[0].id
                vnames = [e.id for e in node.target.elts[1].elts]
                pnames = None
                for st in node.body:
                    if isinstance(st, ast.Assign) and isinstance(st.targets[0], ast.Tuple) and isinstance(st.value, ast.GeneratorExp):
                        pn = [e.id for e in st.targets[0].elts]
                        src = [e.id for e in st.value.generators[0].iter.elts]
                        pnames = {p: vnames.index(s) for p, s in zip(pn, src)}
                    elif isinstance(st, ast.Assign) and isinstance(st.targets[0], ast.Subscript) and isinstance(st.value, ast.Call):
                        sub = st.targets[0].slice
                        # 3*i + k
                        if isinstance(sub, ast.BinOp) and isinstance(sub.op, ast.Add):
                            base, k = sub.left, sub.right.value
                        else:
                            base, k = sub, 0
                        if not (isinstance(base, ast.BinOp) and isinstance(base.op, ast.Mult) and {getattr(base.left, "value", getattr(base.left, "id", None)), getattr(base.right, "value", getattr(base.right, "id", None))} == {3, idx}):
                            raise T.TranslateError("cot index is not 3*i+k")
                        call = st.value
                        if not (isinstance(call.func, ast.Attribute) and call.func.attr == "cotan"):
                            raise T.TranslateError("cot entry is not geom.cotan(...)")
                        rows[k] = [pnames[a.id] for a in call.args]
                names = vnames
        if sorted(rows) != [0, 1, 2] or names is None:
            raise T.TranslateError(f"cotangent: expected three assignments cot[3*i+k] = geom.cotan(..), got {rows}")
        body.append("/-- `attr_corners.cotangent`: `cot[3*i+k] = geom.cotan(p_a, p_b, p_c)` as local vertex indices `(a,b,c)` for k = 0,1,2 -/\n"
                    "def cotanArgs : List (Nat × Nat × Nat) := [" + ", ".join(f"({r[0]}, {r[1]}, {r[2]})" for r in (rows[0], rows[1], rows[2])) + "]\n\n")
        return f"rows {rows}"

    def opp_expr():
        tree, _ = T.load("mouette/attributes/attr_edges.py")
        fn = T.find_def(tree, "cotan_weights")
        exprs = []
        for node in ast.walk(fn):
            if isinstance(node, ast.Assign) and isinstance(node.targets[0], ast.Name) and any(
                    isinstance(c, ast.Call) and isinstance(c.func, ast.Attribute) and c.func.attr == "face_to_first_corner" for c in ast.walk(node.value)):
                exprs.append(node.value)            # the corner index (whatever the local is called)
        if len(exprs) != 2:
            raise T.TranslateError(f"cotan_weights: expected two corner-index assignments from face_to_first_corner(T), got {len(exprs)}")
        # the two local indices are called iA, iB in the generated text, by order of appearance (names of the locals are free)
        seen = []
        for nd in ast.walk(exprs[0]):
            if isinstance(nd, ast.Name) and not any(nd in ast.walk(c) for c in ast.walk(exprs[0]) if isinstance(c, ast.Call)) and nd.id not in seen:
                seen.append(nd.id)
        seen = [n for n in ast.unparse(exprs[0]).replace("(", " ").replace(")", " ").replace("+", " ").replace("-", " ").split() if n in seen]
        seen = list(dict.fromkeys(seen))
        if len(seen) != 2: raise T.TranslateError(f"cotan_weights: the corner index does not use exactly two local indices: {seen}")
        ren = {seen[0]: "iA", seen[1]: "iB"}
        outs = []
        for e in exprs:
            # replace the call mesh.connectivity.face_to_first_corner(T) by the name first
            class R(ast.NodeTransformer):
                def visit_Call(self, n):
                    if isinstance(n.func, ast.Attribute) and n.func.attr == "face_to_first_corner":
                        return ast.copy_location(ast.Name(id="first", ctx=ast.Load()), n)
                    raise T.TranslateError("unexpected call in cnr expression")
            outs.append(T.lean_int_expr(R().visit(e), ren))
        if outs[0] != outs[1]:
            raise T.TranslateError(f"the two cnr expressions differ: {outs}")
        body.append("/-- `attr_edges.cotan_weights`: `cnr = face_to_first_corner(T)+3-iA-iB` (Nat arithmetic; iA+iB ≤ 3 on triangles) -/\n"
                    f"def oppCorner (first iA iB : Nat) : Nat := {outs[0]}\n\n")
        return outs[0]

    def defect_guards():
        """attr_vertices.angle_defects: default value, border initialisation, skip guard -> Generated/C07Defect.lean"""
        tree, _ = T.load("mouette/attributes/attr_vertices.py")
        fn = T.find_def(tree, "angle_defects")

        def pi_mult(node):
            if isinstance(node, ast.Constant) and node.value == 0: return 0
            if isinstance(node, ast.Name) and node.id == "pi": return 1
            if isinstance(node, ast.BinOp) and isinstance(node.op, ast.Mult):
                a, b = node.left, node.right
                if isinstance(b, ast.Name) and b.id == "pi" and isinstance(a, ast.Constant) and isinstance(a.value, int): return a.value
                if isinstance(a, ast.Name) and a.id == "pi" and isinstance(b, ast.Constant) and isinstance(b.value, int): return b.value
            raise T.TranslateError(f"not an integer multiple of pi: {ast.dump(node)[:80]}")
        defaults = [pi_mult(kw.value) for n in ast.walk(fn) if isinstance(n, ast.Call) for kw in n.keywords if kw.arg == "default_value"]
        if len(defaults) != 3 or len(set(defaults)) != 1:
            raise T.TranslateError(f"angle_defects: expected three attribute constructions with the same default_value, got {defaults}")
        border = skip = sub = None
        for node in fn.body:
            if isinstance(node, ast.For) and isinstance(node.iter, ast.Attribute) and node.iter.attr == "boundary_vertices":
                if len(node.body) != 1 or not isinstance(node.body[0], ast.Assign) or not isinstance(node.body[0].value, ast.IfExp):
                    raise T.TranslateError("angle_defects: border loop is not `defects[i] = <a> if zero_border else <b>`")
                ie = node.body[0].value
                if not (isinstance(ie.test, ast.Name) and ie.test.id == "zero_border"):
                    raise T.TranslateError("angle_defects: border value does not test zero_border")
                border = (pi_mult(ie.body), pi_mult(ie.orelse))
            if isinstance(node, ast.For) and isinstance(node.iter, ast.Call) and getattr(node.iter.func, "id", "") == "enumerate":
                lb = node.body
                if len(lb) != 2 or not isinstance(lb[0], ast.If) or not isinstance(lb[1], ast.AugAssign) or not isinstance(lb[1].op, ast.Sub):
                    raise T.TranslateError("angle_defects: corner loop is not `if <guard>: continue` followed by `defects[V] -= ang[C]`")
                g = lb[0]
                if not (len(g.body) == 1 and isinstance(g.body[0], ast.Continue) and not g.orelse and isinstance(g.test, ast.BoolOp) and isinstance(g.test.op, ast.And) and len(g.test.values) == 2):
                    raise T.TranslateError("angle_defects: guard is not `A and B: continue`")
                kinds = set()
                for v in g.test.values:
                    if isinstance(v, ast.Name) and v.id == "zero_border": kinds.add("zb")
                    elif isinstance(v, ast.Call) and isinstance(v.func, ast.Attribute) and v.func.attr == "is_vertex_on_border": kinds.add("border")
                    else: raise T.TranslateError(f"angle_defects: unknown guard operand {ast.dump(v)[:60]}")
                if kinds != {"zb", "border"}: raise T.TranslateError("angle_defects: guard is not (on border) and zero_border")
                skip = True; sub = True
        if border is None or not skip:
            raise T.TranslateError("angle_defects: border loop or corner loop not found at the top level of the function")
        body.append("/-- `attr_vertices.angle_defects`: starting value of a vertex as a multiple of pi (attribute default; border loop `a if zero_border else b`) -/\n"
                    f"def defectBase (border zb : Bool) : Nat := if border then (if zb then {border[0]} else {border[1]}) else {defaults[0]}\n"
                    "/-- the corner loop skips (`continue`) exactly when the vertex is on the border and zero_border is set -/\n"
                    "def defectSkip (border zb : Bool) : Bool := border && zb\n\n")
        return f"default {defaults[0]}*pi, border {border}, guard border&&zb"

    def interp_clears():
        """interpolate.py: every function that ACCUMULATES into its output attribute (`out[k] = out[k] + ..` / `out[k] += ..`) empties it first"""
        tree, _ = T.load("mouette/attributes/interpolate.py")
        rows = []
        for fname, outp in (("interpolate_vertices_to_faces", "fattr"), ("interpolate_faces_to_vertices", "vattr"),
                            ("average_corners_to_vertices", "vattr"), ("average_corners_to_faces", "fattr")):
            fn = T.find_def(tree, fname)
            clears = sorted(n.lineno for n in ast.walk(fn) if isinstance(n, ast.Call) and isinstance(n.func, ast.Attribute) and n.func.attr == "clear"
                            and isinstance(n.func.value, ast.Name) and n.func.value.id == outp)
            accs = []
            for n in ast.walk(fn):
                tgt = None
                if isinstance(n, ast.AugAssign) and isinstance(n.op, ast.Add): tgt = n.target
                elif isinstance(n, ast.Assign) and isinstance(n.value, ast.BinOp) and isinstance(n.value.op, ast.Add) and ast.dump(n.targets[0]).replace("Store", "Load") == ast.dump(n.value.left):
                    tgt = n.targets[0]
                if tgt is not None and isinstance(tgt, ast.Subscript) and isinstance(tgt.value, ast.Name) and tgt.value.id == outp:
                    accs.append(n.lineno)
            if not accs:
                raise T.TranslateError(f"{fname}: no accumulation into {outp} recognised")
            # a clear dominates an accumulation when it comes earlier and sits at the function's top level or in the same `if/elif` branch
            def branch_of(line):
                for st in fn.body:
                    if isinstance(st, ast.If):
                        cur = st
                        while True:
                            if cur.body[0].lineno <= line <= max(x.end_lineno for x in cur.body): return cur.body[0].lineno
                            if len(cur.orelse) == 1 and isinstance(cur.orelse[0], ast.If): cur = cur.orelse[0]
                            elif cur.orelse and cur.orelse[0].lineno <= line <= max(x.end_lineno for x in cur.orelse): return cur.orelse[0].lineno
                            else: break
                return 0
            for a in accs:
                ok = any(c < a and branch_of(c) in (0, branch_of(a)) for c in clears)
                rows.append((f"{fname}:{branch_of(a) and 'branch' or 'top'}", ok))
        body.append("/-- `interpolate.py`: for every accumulation into the output attribute, is it preceded by `<output>.clear()`? -/\n"
                    "def accumulatesAfterClear : List (String × Bool) := [" + ", ".join(f'("{n}", {"true" if ok else "false"})' for n, ok in rows) + "]\n\n")
        return f"{len(rows)} accumulation sites, {sum(1 for _, ok in rows if not ok)} without a preceding clear()"
    sites.append(T.site("attr_vertices.py:angle_defects (default, border value, skip guard)", defect_guards))
    sites.append(T.site("interpolate.py:output attributes are cleared before accumulation", interp_clears))
    sites.append(T.site("attr_corners.py:cotangent (argument table)", cot_table))
    sites.append(T.site("attr_edges.py:cotan_weights (opposite corner index)", opp_expr))
    body.append("end Mouette.Generated.C07\n")
    if all(s["ok"] for s in sites):
        T.write_generated("C07Idx", "".join(body))
    else:   # never leave the fragments of an earlier tree on disk: a stub without the definitions (the bridges then fail to build)
        T.write_generated("C07Idx", _stub("C07", [s for s in sites if not s["ok"]]))
    # function BODIES read imperatively (vlib/gen/c07_translate.py) -> Generated/C07Src.lean, bridged in Props/C07Source.lean
    from ..gen import c07_translate as CT
    text, bsites, info = CT.translate_c07()
    if all(s["ok"] for s in bsites):
        T.write_generated("C07Src", text)
    else:
        T.write_generated("C07Src", _stub("C07Src", [s for s in bsites if not s["ok"]]))
    missing = sorted(set(BRIDGES) - set(info["translated"]))
    for m in missing:
        if not any((not b["ok"]) for b in bsites):
            bsites.append({"site": m, "ok": False, "detail": "listed as translated in SOURCE_MAP but not produced by the translator"})
    return sites + bsites


_OOS = "out-of-scope: "
SOURCE_MAP = {k: "translated" for k in BRIDGES}
SOURCE_MAP.update({
    # geometry.py
    "mouette/geometry/geometry.py::dot": "modelled",                     # np.dot wrapper = Geom.dot
    "mouette/geometry/geometry.py::circumcenter": "modelled",            # Geom.circumcenter (closed form) + circumcenter_equidistant_and_coplanar/_unique
    "mouette/geometry/geometry.py::face_basis": "modelled",              # through circumcenter / C08 faceBasis
    "mouette/geometry/geometry.py::intersect_2lines2D": "modelled",      # through circumcenter
    "mouette/geometry/geometry.py::aspect_ratio": "oracle-only",
    "mouette/geometry/geometry.py::det_2x2": _OOS + "2-D determinant: reached from the statement's quantities only as the |det| < 1e-12 parallel test inside circumcenter (sign-insensitive); its other callers are 2-D parametrisation code",
    "mouette/geometry/geometry.py::sign0": _OOS + "sign helper of the signed angles (parametrisation code), no quantity of the statement",
    "mouette/geometry/geometry.py::sign": _OOS + "sign helper, no quantity of the statement",
    "mouette/geometry/geometry.py::signed_angle_2vec3D": _OOS + "signed angle w.r.t. a normal: used by frame fields (C18), not by the attribute functions",
    "mouette/geometry/geometry.py::signed_angle_3pts": _OOS + "as signed_angle_2vec3D",
    "mouette/geometry/geometry.py::angle_2vec2D": _OOS + "2-D angle difference used by parametrisation code only",
    "mouette/geometry/geometry.py::angle_2vec3D": _OOS + "used by curvature_matrices only",
    "mouette/geometry/geometry.py::triangle_area_2D": _OOS + "2-D variant, not reached from the attribute functions",
    "mouette/geometry/geometry.py::distance_to_segment2D": _OOS + "2-D helper of the samplers",
    "mouette/geometry/geometry.py::project_to_plane": _OOS + "not reached from the attribute functions",
    # attributes
    "mouette/attributes/attr_vertices.py::border_normals": _OOS + "border-curve normals are not in the statement's list of quantities",
    "mouette/attributes/attr_edges.py::curvature_matrices": _OOS + "curvature tensors are not in the statement's list of quantities",
    "mouette/attributes/attr_faces.py::face_near_border": _OOS + "combinatorial flag, not a geometric quantity of the statement",
    "mouette/attributes/attr_faces.py::triangle_aspect_ratio": "oracle-only",
    "mouette/attributes/attr_faces.py::parallel_transport_curvature": _OOS + "needs a connection object (C18)",
    "mouette/attributes/attr_cells.py::cell_faces_on_boundary": _OOS + "combinatorial flag, not a geometric quantity of the statement",
    "mouette/attributes/interpolate.py::scatter_faces_to_corners": "oracle-only",   # body translated (Generated.C07Src.scatter_faces_to_corners), not bridged
})


MANIFEST = {
    "level_text": ("Proof. Lean 4 theorems over exact rationals about an executable model of mouette's geometric primitives and "
                   "per-element attributes: translation invariance, rotation equivariance (cross (Ra)(Rb) = det R . R(a x b) for every "
                   "R with RtR = I, hence invariance of lengths², areas², (cross²,dot) corner pairs, |det|/6 volumes, equivariance of "
                   "barycentres and circumcentres), homogeneity degrees, Lagrange identity, circumcentre equidistant+coplanar+unique, "
                   "corner index conventions (incl. the tables re-extracted from the source), interpolation of constants; over the reals: the code's "
                   "atan2(sqrt(cross²),dot) IS the Euclidean angle, angle_sum_pi, and gauss_bonnet (sum of angle defects = 2*pi*chi, interior and "
                   "border convention) under explicit handshake/border-cycle/Euler premises. The model is "
                   "tied to the Python code by a value correspondence (exact rationals vs floats) on generated meshes, and the property "
                   "itself is re-stated on the implementation by an oracle (textbook definitions in exact Fractions, metamorphic runs "
                   "under rational rigid motions, renumberings, power-of-two scalings, option sets; angle sums, Gauss-Bonnet)."),
    "level_note": ("Trusted: Lean kernel + 3 standard axioms; the hand-written model (checked against the code on each run's meshes only); "
                   "sqrt/atan2/float rounding (not modelled, tolerance 1e-9*scale+1e-12). angle_sum_pi and gauss_bonnet are proved over the "
                   "reals (Mathlib: atan2 := Complex.arg, Real.sqrt, EuclideanGeometry.angle) for the exact-arithmetic value of the code's "
                   "formula; their combinatorial premises (handshake, border cycles, Euler) are re-checked on every generated mesh and the "
                   "sums are also checked numerically on the implementation."),
    "technique": "Lean 4 algebraic laws (ring / linear_combination / field_simp) over an executable Rat model; differential value correspondence; metamorphic oracle",
}
