"""Translated fragments for C11 (re-extracted from $MOUETTE_REPO/mouette/spatial/kdtree.py with `ast` on every run, emitted
into lean/Mouette/Generated/C11.lean, bridged to the hand model in Props/C11G.lean):

* the WRITE SETS of `query` and `query_radius`: every store / in-place update / mutating method call that reaches `self` or an
  object obtained from `self` (a query must not change the tree: the n-th query on a used tree is the first query on a fresh one);
* the guards whose loss breaks the statement and that have one correct form: the radius tests (`bb.distance(pt) > r` prunes,
  `distance(p, pt) <= r` keeps), the candidate trimming loop (`while n_found > k`), the 'k candidates are held' guard of
  `furthest_so_far`, and the degenerate-split guard of `_split_points`.
Comparisons that have several correct forms (split on `<=` vs `<`, visit test `>` vs `>=`, axis order) are deliberately NOT
translated.  An AST shape that is not understood raises TranslateError (broken obligation, never skipped)."""
import ast

from .. import translate as T

MUTATORS = {"append", "appendleft", "extend", "insert", "pop", "popleft", "remove", "clear", "sort", "reverse", "update", "add",
            "discard", "setdefault", "fill", "resize", "put", "itemset", "setflags", "push"}


def _root(node):
    while isinstance(node, (ast.Attribute, ast.Subscript, ast.Call)):
        node = node.func if isinstance(node, ast.Call) else node.value
    return node.id if isinstance(node, ast.Name) else None


def _mentions(node, names):
    return any(isinstance(n, ast.Name) and n.id in names for n in ast.walk(node))


def write_set(fn):
    """sorted list of descriptions of the statements of `fn` that can modify `self` or something reached from it"""
    aliases = {"self"}
    # names bound to something reached from self (two passes are enough for the straight-line bodies handled here)
    for _ in range(3):
        for n in ast.walk(fn):
            if isinstance(n, ast.Assign) and _mentions(n.value, aliases):
                for t in n.targets:
                    for m in ast.walk(t):
                        if isinstance(m, ast.Name): aliases.add(m.id)
            if isinstance(n, (ast.For, ast.comprehension)) and _mentions(n.iter, aliases):
                for m in ast.walk(n.target):
                    if isinstance(m, ast.Name): aliases.add(m.id)
    out = set()
    for n in ast.walk(fn):
        targets = []
        if isinstance(n, ast.Assign): targets = n.targets
        elif isinstance(n, (ast.AugAssign, ast.AnnAssign)): targets = [n.target]
        elif isinstance(n, ast.Delete): targets = n.targets
        for t in targets:
            for m in ([t] if not isinstance(t, (ast.Tuple, ast.List)) else t.elts):
                if isinstance(m, (ast.Attribute, ast.Subscript)) and _root(m) in aliases:
                    out.add(ast.unparse(m))
                elif isinstance(n, ast.AugAssign) and isinstance(m, ast.Name) and m.id in aliases and m.id != "self":
                    out.add(ast.unparse(m) + " (in-place)")
        if isinstance(n, ast.Call) and isinstance(n.func, ast.Attribute) and n.func.attr in MUTATORS:
            r = _root(n.func.value)
            # a mutating method on self.<...> or on an alias that is itself an attribute/element of the tree
            if r == "self" or (r in aliases and isinstance(n.func.value, (ast.Attribute, ast.Subscript))):
                out.add(ast.unparse(n.func))
    return sorted(out)


_CMP = {ast.Lt: "<", ast.LtE: "≤", ast.Gt: ">", ast.GtE: "≥", ast.Eq: "=", ast.NotEq: "≠"}


def boolexpr(node, atoms):
    """boolean guard -> Lean Bool term. `atoms`: list of (predicate on ast node, lean variable name) for opaque sub-expressions."""
    for pred, name in atoms:
        if pred(node): return name
    if isinstance(node, ast.BoolOp):
        op = " && " if isinstance(node.op, ast.And) else " || "
        return "(" + op.join(boolexpr(v, atoms) for v in node.values) + ")"
    if isinstance(node, ast.UnaryOp) and isinstance(node.op, ast.Not):
        return "(!" + boolexpr(node.operand, atoms) + ")"
    if isinstance(node, ast.Compare) and len(node.ops) == 1 and type(node.ops[0]) in _CMP:
        return f"decide ({arith(node.left, atoms)} {_CMP[type(node.ops[0])]} {arith(node.comparators[0], atoms)})"
    raise T.TranslateError(f"unsupported guard: {ast.unparse(node)[:100]}")


def arith(node, atoms):
    for pred, name in atoms:
        if pred(node): return name
    if isinstance(node, ast.Name): return node.id
    if isinstance(node, ast.Constant) and isinstance(node.value, int) and not isinstance(node.value, bool): return str(node.value)
    if isinstance(node, ast.BinOp) and isinstance(node.op, (ast.Add, ast.Sub, ast.Mult)):
        return f"({arith(node.left, atoms)} {'+' if isinstance(node.op, ast.Add) else '-' if isinstance(node.op, ast.Sub) else '*'} {arith(node.right, atoms)})"
    raise T.TranslateError(f"unsupported term in a guard: {ast.unparse(node)[:100]}")


def _is_call_attr(attr, root=None):
    def pred(n):
        return isinstance(n, ast.Call) and isinstance(n.func, ast.Attribute) and n.func.attr == attr and (root is None or _root(n.func.value) == root)
    return pred


def _is_call_name(name):
    return lambda n: isinstance(n, ast.Call) and isinstance(n.func, ast.Name) and n.func.id == name


def translate():
    tree, _ = T.load("mouette/spatial/kdtree.py")
    chunks, sites = {}, []

    def s_writes(fname, lean):
        def run():
            fn = T.find_def(tree, "KDTree." + fname)
            ws = write_set(fn)
            chunks[lean] = f"def {lean} : List String := [" + ", ".join('"' + w.replace('"', "'") + '"' for w in ws) + "]\n\n"
            return f"writes reaching self: {ws}"
        return run

    def s_radius():
        fn = T.find_def(tree, "KDTree.query_radius")
        prune = [n for n in ast.walk(fn) if isinstance(n, ast.If) and any(isinstance(b, ast.Continue) for b in n.body)
                 and _mentions(n.test, {"r"})]
        if len(prune) != 1: raise T.TranslateError("query_radius: expected exactly one `if <box distance test on r>: continue`")
        atoms = [(_is_call_attr("distance"), "d")]
        chunks["radiusPrune"] = f"def radiusPrune (d r : Rat) : Bool :=\n  {boolexpr(prune[0].test, atoms)}\n\n"
        comps = [c for n in ast.walk(fn) if isinstance(n, ast.ListComp) for c in n.generators if c.ifs]
        if len(comps) != 1 or len(comps[0].ifs) != 1: raise T.TranslateError("query_radius: expected one filtered list comprehension over the leaf's points")
        atoms = [(_is_call_name("distance"), "d")]
        chunks["radiusKeep"] = f"def radiusKeep (d r : Rat) : Bool :=\n  {boolexpr(comps[0].ifs[0], atoms)}\n\n"
        return ast.unparse(prune[0].test) + " / " + ast.unparse(comps[0].ifs[0])

    def s_knn():
        fn = T.find_def(tree, "KDTree.query")
        whiles = [n for n in ast.walk(fn) if isinstance(n, ast.While) and _mentions(n.test, {"n_found"})]
        if len(whiles) != 1: raise T.TranslateError("query: expected exactly one `while <n_found test>` trimming loop")
        chunks["trimGuard"] = f"def trimGuard (n_found k : Nat) : Bool :=\n  {boolexpr(whiles[0].test, [])}\n\n"
        asg = [n for n in ast.walk(fn) if isinstance(n, ast.Assign) and len(n.targets) == 1 and isinstance(n.targets[0], ast.Name)
               and n.targets[0].id == "furthest_so_far"]
        if len(asg) != 1 or not isinstance(asg[0].value, ast.IfExp): raise T.TranslateError("query: expected `furthest_so_far = <worst> if <guard> else <inf>`")
        atoms = [(_is_call_attr("empty", "found"), "isEmpty")]
        chunks["heldGuard"] = f"def heldGuard (n_found k : Nat) (isEmpty : Bool) : Bool :=\n  {boolexpr(asg[0].value.test, atoms)}\n\n"
        return ast.unparse(whiles[0].test) + " / " + ast.unparse(asg[0].value.test)

    def s_fallback():
        fn = T.find_def(tree, "KDTree._split_points")
        ifs = [n for n in ast.walk(fn) if isinstance(n, ast.If) and _mentions(n.test, {"pivot_filter"})]
        if len(ifs) != 1: raise T.TranslateError("_split_points: expected exactly one `if <test on pivot_filter>` (degenerate-split fallback)")
        atoms = [(_is_call_attr("all", "pivot_filter"), "allLess"), (_is_call_attr("any", "pivot_filter"), "anyLess")]
        chunks["fallbackGuard"] = f"def fallbackGuard (allLess anyLess : Bool) : Bool :=\n  {boolexpr(ifs[0].test, atoms)}\n\n"
        return ast.unparse(ifs[0].test)

    for name, fn in (("kdtree.py:query write set", s_writes("query", "queryWrites")),
                     ("kdtree.py:query_radius write set", s_writes("query_radius", "radiusWrites")),
                     ("kdtree.py:query_radius guards", s_radius), ("kdtree.py:query guards", s_knn),
                     ("kdtree.py:_split_points fallback guard", s_fallback)):
        sites.append(T.site(name, fn))
    body = "namespace Mouette.Generated.C11\n\n" + "".join(chunks.get(k, "") for k in
           ("queryWrites", "radiusWrites", "radiusPrune", "radiusKeep", "trimGuard", "heldGuard", "fallbackGuard")) + "end Mouette.Generated.C11\n"
    T.write_generated("C11", body)
    return sites
